"""C07 — trajectory and record containers act as plain maps whatever the edit history.
Implementation under test: kapture.core.Trajectories.Trajectories (incl. the cached sorted timestamp list, the
cached first/last bounds, intermediate_pose, timestamp_length), kapture.core.Records.RecordsBase subclasses,
kapture.utils.computation.num_digits."""
import itertools
import random
import sys

import kv

ID = 'C07'
COQ_MODELS = ['MRec', 'MTraj']
COQ_HEADER = 'From KV Require Import Eqb AL Str.\nFrom KV.Model Require Import MRec MTraj.'
CASE_TYPE = 'MTraj.case'
CHECK_FN = 'MTraj.check_case'
SHARD_SIZE = 70
CASE_TIMEOUT = 120
RULE = ('one evaluation = one case = a batch of runs; a run = a fresh container (Trajectories, or RecordsCamera/Lidar/'
        'Depth/Gnss/Wifi/Bluetooth) driven by a sequence of operations {set pair, set timestamp (dict), delete pair, delete '
        'timestamp, contains timestamp/pair, get pair/timestamp, key_pairs, len, sorted timestamps, timestamp_length, '
        'intermediate_pose, sensors_ids, data_list(), inverse() (the run goes on with the inverted container), ill-typed '
        'calls}, every answer (value or exception class) recorded. Streams: (A) all edit '
        'sequences over 2 timestamps x 2 devices up to the tier length (15 symbols incl. a cache-rebuilding query), each '
        'followed by a query battery (full battery up to length 3 quick / 4 thorough, 5 probing queries at the last '
        'length; thorough adds a 6% sample of length 5), batched by common prefix; the same for RecordsCamera; (B) the '
        'same over 3 timestamps x 2 devices with pair edits only (16 symbols, length 3 quick / 4 thorough); (R) random runs of up to 200 operations over pools of 2..40 timestamps of 1..19 digits (also '
        'negative, also above sys.maxsize) and 1..4 devices, queries interleaved with edits; Records payloads include a '
        'legal-but-falsy record (empty path, empty RecordWifi()/RecordBluetooth(), all-zero RecordGnss) and records that are '
        'distinct objects comparing equal, in the enumerated stream (2 extra symbols) and in up to half of the random sets; (M) ill-typed calls mixed '
        'into R; (C) copies: an operation `copy` (copy.deepcopy, copy.copy, kapture.rigs_remove without rigs, dict-style '
        'construction for Records, deepcopy-edit-and-drop) after which the run goes on with the copy - appended to every '
        'enumerated sequence up to length 3, in dedicated runs (cache filled or not before the copy, queries outside/inside '
        'the first..last range after it) and in 2% of the random operations; (T) 11..40 timestamps of mixed digit counts, the same entries built in 3 of {sorted, reversed, shuffled, odd '
        'ones in the middle/first/last} orders plus delete-and-reinsert moves, timestamp_length/sorted/membership after each; '
        '(S) a few entries over 1..3 devices deleted one by one down to the empty container and partly re-created, sensors_ids '
        '(and data_list() for Records) after every step, for Trajectories an inverse() at a random point (cache filled or not) '
        'followed by interpolations inside/outside the first..last range. Non-trivial = the case has a run with an edit followed by a query; distinct = distinct batch content.')
TRUSTED = ['quaternion.slerp / PoseTransform arithmetic inside compute_intermediate_pose: section variable `interp` '
           '(no contract needed: the theorems hold for every function); the harness observes the bracket of an '
           'interpolated pose exactly, by recording the arguments of kapture.core.Trajectories.compute_intermediate_pose '
           '(module attribute replaced by a recorder during a run, restored afterwards); only if the recorder saw '
           'nothing (function inlined) it falls back to recomputation on candidate brackets',
           'CPython int true division and int(): modelled by MTraj.fdiv10 (round-half-even to 53 bits, truncate), '
           'compared with computation.num_digits on every run']
ASSUMPTIONS = ['operations are the ones listed in the property; dict methods inherited from the base class that bypass '
               '__setitem__/__delitem__ (update, pop, setdefault, clear, |=) and mutation of an inner dict obtained by '
               'c[t] are outside the judged domain',
               'each `c[t] = {...}` passes a fresh dict that the caller does not keep (the container stores the dict '
               'object itself)',
               'bool is not used as a timestamp (isinstance(True, int) holds in Python)',
               'timestamps are Python ints of at most 19 digits (num_digits converts to float)']
EXHAUSTIVE = {'quick': True, 'thorough': True}
NOTES = []

T2 = (10, 20)
T3 = (10, 20, 30)
DEV = ('a', 'b')
KINDS = ('traj', 'camera', 'lidar', 'depth', 'gnss', 'wifi', 'bluetooth')
# reserved payload ids of the Records runs: one legal-but-falsy record ('' path, empty RecordWifi() / RecordBluetooth():
# a scan that saw nothing; all-zero RecordGnss), and two ids whose records are re-created on every use, i.e. distinct
# objects comparing equal.  Membership must depend on keys only, never on the value stored.
FALSY_PID = 900001
SHARED_PIDS = (900002, 900003)
# Trajectories.inverse(): the inverse of the pose with id i is identified by i + INV_OFFSET (MTraj.inv_offset)
INV_OFFSET = 1000000
MAP_OPS = ('sp', 'st', 'dp', 'dt', 'ht', 'hp', 'gp', 'gt', 'pairs', 'len', 'bad')
N_BAD = 18


# ------------------------------------------------------------------------------------------ generators
def _alphabet_a():
    """15 symbols over 2 timestamps x 2 devices; payload ids are assigned later (one fresh id per set)."""
    syms = []
    for t in T2:
        for d in DEV:
            syms.append(['sp', t, d])
    for t in T2:
        syms.append(['st', t, []])
        syms.append(['st', t, ['b']])
    for t in T2:
        for d in DEV:
            syms.append(['dp', t, d])
    for t in T2:
        syms.append(['dt', t])
    syms.append(['sorted'])
    return syms


def _alphabet_rec():
    """The map symbols of alphabet A plus two assignments of the falsy record."""
    return _alphabet_a()[:-1] + [['spf', T2[0], 'a'], ['spf', T2[1], 'b']]


def _alphabet_b():
    syms = []
    for t in T3:
        for d in DEV:
            syms.append(['sp', t, d])
            syms.append(['dp', t, d])
        syms.append(['dt', t])
    syms.append(['sorted'])
    return syms


def _number(seq):
    """Give every set operation of a symbolic sequence its own payload id (1, 2, ...)."""
    out, n = [], 0
    for s in seq:
        if s[0] == 'sp':
            n += 1
            out.append(['sp', s[1], s[2], n])
        elif s[0] == 'spf':
            out.append(['sp', s[1], s[2], FALSY_PID])
        elif s[0] == 'st':
            items = []
            for d in s[2]:
                n += 1
                items.append([d, n])
            out.append(['st', s[1], items])
        else:
            out.append(list(s))
    return out


def _battery(ts, kind, rot=0, full=True):
    """Queries run after an enumerated edit sequence; interpolation first (it is the query whose answer
    used to depend on the cache state), rotated so that different queries meet the un-rebuilt cache."""
    q = []
    if kind == 'traj':
        lo, hi = ts[0], ts[-1]
        probes = [lo - 5] + [x for t in ts for x in (t, t + 5)]
        ips = [['ip', t, d, 5] for t in probes for d in DEV]
        mid = [['ip', ts[0] + 5, d, 4] for d in DEV]
        if len(ts) > 2:
            mid += [['ip', ts[0] + 5, d, 15] for d in DEV] + [['ip', ts[1] + 5, d, 15] for d in DEV]
            mid += [['ip', ts[1], d, 10] for d in DEV] + [['ip', ts[1], d, 9] for d in DEV]
        ips = ips + mid
        rot %= len(ips)
        ips = ips[rot:] + ips[:rot]
        if not full:
            return ips[:3] + [['sorted'], ['pairs'], ['sens']]
        q += ips + [['sorted'], ['tslen']]
    q += [['pairs'], ['len'], ['sens']] + ([] if kind == 'traj' else [['dlist']])
    q += [['ht', t] for t in ts] + [['gt', t] for t in ts]
    if kind == 'traj':
        q += [['hp', ts[0], 'a'], ['gp', ts[-1], 'b']]
    else:
        q += [['hp', t, d] for t in ts for d in DEV] + [['gp', ts[0], 'a'], ['gp', ts[-1], 'b']]
    return q


def _exhaustive(alphabet, ts, max_len, kind, cases, tag, light_from=99, extra=None):
    """All sequences up to max_len over the alphabet, batched by common prefix (one case = the
    sequences  prefix + s  for every symbol s).  Lengths >= light_from get the short battery.
    extra = (rng, fraction): additionally a random fraction of the prefixes of length max_len."""
    idx = 0
    lengths = [(ln, None) for ln in range(1, max_len + 1)]
    if extra:
        lengths.append((max_len + 1, extra))
    for ln, smp in lengths:
        for prefix in itertools.product(alphabet, repeat=ln - 1):
            if smp and smp[0].random() >= smp[1]:
                continue
            runs = []
            for s in alphabet:
                seq = _number(list(prefix) + [s])
                runs.append({'kind': kind, 'ops': seq + _battery(ts, kind, idx, full=ln < light_from)})
                # the same history ending in a copy of the container: the battery is put to the copy
                if ln <= 3 and not smp:
                    variants = _COPIES[kind != 'traj']
                    for how in (variants if ln <= 2 else [variants[idx % len(variants)]]):
                        runs.append({'kind': kind, 'ops': seq + [_copy_op(how, ts)] +
                                     _battery(ts, kind, idx + 1, full=ln < light_from)})
                idx += 1
            cases.append({'runs': runs, 'digits': [], 'tag': f'{tag}/len={ln}' + ('(sampled)' if smp else '')})


_COPIES = {False: ['deep', 'rigs', 'shallow', 'deep-discard', 'inverse', 'inverse-discard'],
           True: ['deep', 'ctor', 'shallow', 'deep-discard']}


def _copy_op(how, ts, dev='a'):
    if how == 'inverse':         # Trajectories.inverse(): not a copy - the run goes on with the inverted container
        return ['inv']
    return ['copy', how, ts[0], dev] if how.endswith('-discard') else ['copy', how]


def _copy_case(rng, kind):
    """(C) a container is filled, some query fills the cache (or not), the container is copied (deepcopy, copy.copy,
    rigs_remove() without rigs, dict-style construction) and the run goes on with the copy: queries outside and inside
    the first..last range, further edits, a second copy."""
    runs = []
    for _ in range(3):
        n = rng.randint(1, 8)
        base = rng.choice([5, 1000, 1614362592000, 10 ** 18])
        ts, x = [], base
        for _i in range(n):
            ts.append(x)
            x += rng.randint(2, 1000)
        devs = rng.sample(['cam0', 'cam1'], rng.choice([1, 2]))
        order = list(ts)
        rng.shuffle(order)
        ops, pid = [], 0
        for t in order:
            for d in rng.sample(devs, rng.randint(1, len(devs))):
                pid += 1
                ops.append(['sp', t, d, pid])
        d0 = devs[0]
        big = 10 ** 19
        outside = [['ip', ts[-1] + 7, d0, big], ['ip', ts[0] - 3, d0, big], ['ip', ts[0] + 1, d0, big],
                   ['ip', ts[-1] - 1, d0, big]]
        fill = rng.choice([[], [['sorted']], [['tslen']], [['ip', ts[0] + 1, d0, big]], [['ht', ts[0]]]])
        queries = (outside + [['sorted'], ['tslen']]) if kind == 'traj' else []
        queries += [['pairs'], ['len'], ['ht', ts[0]], ['hp', ts[-1], d0], ['gp', ts[0], d0], ['sens']]
        if kind != 'traj':
            queries.append(['dlist'])
        if kind != 'traj':
            fill = [f for f in fill if f[0] == 'ht']
        variants = _COPIES[kind != 'traj']
        ops += fill + [_copy_op(rng.choice(variants), ts, d0)]
        rng.shuffle(queries)
        ops += queries
        pid += 1
        ops += [['sp', ts[-1] + 50, d0, pid]] + ([['sorted']] if kind == 'traj' and rng.random() < 0.7 else [])
        if rng.random() < 0.5:
            ops.append(['dt', ts[0]])
        ops += [_copy_op(rng.choice(variants), ts, d0)]
        rng.shuffle(queries)
        ops += queries + ([['ip', ts[-1] + 60, d0, big], ['ip', ts[-1] + 20, d0, big]] if kind == 'traj' else [])
        runs.append({'kind': kind, 'ops': ops})
    return {'runs': runs, 'digits': [], 'tag': 'copies-' + ('traj' if kind == 'traj' else 'rec')}


def _ts_pool(rng):
    k = rng.choice([1, 2, 3, 5, 9, 10, 10, 13, 13, 15, 16, 16, 17, 18, 19, 19])
    lo = 10 ** (k - 1) if k > 1 else 0
    hi = 10 ** k - 1
    mode = rng.random()
    if mode < 0.25:      # around a power of ten (digit count varies inside the pool)
        base = rng.choice([lo, hi]) - rng.randint(0, 40)
    elif mode < 0.35 and k == 19:   # above sys.maxsize
        base = sys.maxsize - rng.randint(0, 60)
    else:
        base = rng.randint(lo, hi)
    if rng.random() < 0.12:
        base = -base
    n = rng.choice([2, 3, 4, 6, 8, 12, 12, 20, 40])
    gap = rng.choice([2, 2, 4, 10, 1000, 10 ** max(0, k - 3)])
    pool, x = [], base
    for _ in range(n):
        pool.append(x)
        x += rng.randint(1, max(1, gap)) + (1 if rng.random() < 0.7 else 0)
    return pool, gap


def _random_run(rng, kind, n_ops, malformed):
    pool, gap = _ts_pool(rng)
    devs = rng.sample(['cam0', 'cam1', 'lidar0', 'réf', 'a b'], rng.choice([1, 2, 2, 3, 4]))
    intervals = [0, 1, gap, 2 * gap, 3 * gap + 1, 10 ** 19, -1, max(1, gap // 2)]
    ops, pid = [], 0
    special = 0.0 if kind == 'traj' else rng.choice([0.0, 0.25, 0.5])

    def next_pid():
        nonlocal pid
        r = rng.random()
        if r < special * 0.6:
            return FALSY_PID
        if r < special:
            return rng.choice(SHARED_PIDS)
        pid += 1
        return pid
    p_edit = rng.choice([0.3, 0.5, 0.7])
    p_del = rng.choice([0.15, 0.3, 0.5])
    for _ in range(n_ops):
        t = rng.choice(pool)
        d = rng.choice(devs)
        r = rng.random()
        if malformed and r < 0.06:
            ops.append(['bad', rng.randrange(N_BAD), t, d])
        elif r > 0.98:
            cop = _copy_op(rng.choice(_COPIES[kind != 'traj']), [t], d)
            # at most one inverse() per run: poses are recognised by VALUE, and the inverse of an inverse can be
            # bit-identical to the original pose, which would make the recognition of a twice-inverted pose ambiguous
            # (a harness ambiguity, not a behaviour of the container); a second draw becomes a deep copy
            if cop == ['inv'] and ['inv'] in ops:
                cop = ['copy', 'deep']
            ops.append(cop)
        elif rng.random() < p_edit:
            r = rng.random()
            if r < p_del * 0.6:
                ops.append(['dp', t, d])
            elif r < p_del:
                ops.append(['dt', t])
            elif r < p_del + 0.12:
                items = []
                for dd in rng.sample(devs, rng.randint(0, len(devs))):
                    items.append([dd, next_pid()])
                ops.append(['st', t, items])
            else:
                ops.append(['sp', t, d, next_pid()])
        else:
            r = rng.random()
            if kind == 'traj' and r < 0.5:
                tq = rng.choice([t, t + 1, t - 1, t + rng.randint(-gap - 2, gap + 2), pool[0] - 1, pool[-1] + 1])
                ops.append(['ip', tq, d, rng.choice(intervals)])
            elif kind == 'traj' and r < 0.6:
                ops.append(['sorted'])
            elif kind == 'traj' and r < 0.7:
                ops.append(['tslen'])
            elif r < 0.78:
                ops.append(['ht', t])
            elif r < 0.86:
                ops.append(['hp', t, d])
            elif r < 0.92:
                ops.append(['gp', t, d])
            elif r < 0.95:
                ops.append(['gt', t])
            elif r < 0.965:
                ops.append(['len'])
            elif r < 0.98:
                ops.append(['sens'])
            elif r < 0.99 and kind != 'traj':
                ops.append(['dlist'])
            else:
                ops.append(['pairs'])
    ops += [['pairs'], ['sens']]
    if kind == 'traj':
        ops += [['sorted'], ['tslen']]
    else:
        ops.append(['dlist'])
    return {'kind': kind, 'ops': ops}


def _tslen_case(rng):
    """(T) more than 10 timestamps, almost all of one digit count and a few of another one, the same entries
    reached by several edit orders (sorted, reversed, shuffled, the odd ones inserted in the middle / first / last,
    delete-and-reinsert moves): timestamp_length, the sorted list and membership may not tell the orders apart."""
    k = rng.randint(2, 18)
    n = rng.randint(11, 40)
    m = rng.choice([1, 1, 2, 3])
    main = set()
    while len(main) < n - m:
        main.add(rng.randint(10 ** (k - 1), 10 ** k - 1))
    kk = k + rng.choice([-1, 1])
    odd = set()
    while len(odd) < m:
        odd.add(rng.randint(10 ** (kk - 1), 10 ** kk - 1))
    main, odd = sorted(main), sorted(odd)
    if rng.random() < 0.2:          # digit counts do not depend on the sign
        main = [-x for x in main]
    devs = rng.sample(['cam0', 'cam1', 'lidar0'], rng.choice([1, 2]))
    runs = []
    for mode in rng.sample(['sorted', 'reversed', 'shuffled', 'odd-middle', 'odd-middle', 'odd-first', 'odd-last'], 3):
        if mode in ('sorted', 'reversed'):
            order = sorted(main + odd, reverse=(mode == 'reversed'))
        elif mode == 'shuffled':
            order = main + odd
            rng.shuffle(order)
        else:
            order = list(main)
            rng.shuffle(order)
            for x in odd:
                pos = {'odd-middle': rng.randint(6, max(6, len(order) - 4)), 'odd-first': 0, 'odd-last': len(order)}[mode]
                order.insert(pos, x)
        ops, pid = [], 0
        probe = [['tslen'], ['sorted'], ['ht', odd[0]], ['hp', main[0], devs[0]], ['len']]
        for t in order:
            pid += 1
            ops.append(['sp', t, rng.choice(devs), pid])
            if rng.random() < 0.05:
                ops.append(['tslen'])
        ops += probe
        # delete-and-reinsert moves: the moved timestamps become the last inserted ones
        for t in rng.sample(order, rng.randint(3, 8)):
            pid += 1
            ops += [['dt', t], ['sp', t, devs[0], pid]]
        ops += probe
        for t in odd:
            ops.append(['dt', t])
        ops += [['tslen'], ['sorted']]
        pid += 1
        ops += [['sp', odd[0], devs[-1], pid], ['tslen']]
        runs.append({'kind': 'traj', 'ops': ops})
    return {'runs': runs, 'digits': [], 'tag': 'tslen-orders'}


def _listing_case(rng, kind):
    """(S) sensors_ids / data_list() / inverse() between edits: a few entries over 1..3 devices, then the entries are
    deleted one by one (pair or whole timestamp) down to the empty container and partly re-created, the listings
    asked after every step; for Trajectories an inverse() is taken at a random point (cache filled or not)."""
    runs = []
    for _ in range(3):
        devs = rng.sample(['cam0', 'cam1', 'lidar0', 'r\u00e9f'], rng.randint(1, 3))
        base = rng.choice([0, 7, 1614362592000, -50])
        ts = [base + 3 * i for i in range(rng.randint(1, 4))]
        listing = [['sens']] + ([] if kind == 'traj' else [['dlist']])
        ops, pid, entries = [], 0, []
        for t in ts:
            for d in rng.sample(devs, rng.randint(1, len(devs))):
                pid += 1
                ops.append(['sp', t, d, pid if kind == 'traj' or rng.random() < 0.8 else rng.choice(SHARED_PIDS)])
                entries.append((t, d))
                if rng.random() < 0.3:
                    ops += listing
        ops += listing
        rng.shuffle(entries)
        inv_at = rng.randrange(len(entries) + 1) if kind == 'traj' else -1
        for i, (t, d) in enumerate(entries):
            if i == inv_at:
                ops += rng.choice([[], [['sorted']], [['tslen']]]) + [['inv']] + listing + \
                    [['ip', t + 1, d, 10 ** 19], ['ip', ts[-1] + 4, d, 10 ** 19], ['ip', ts[0] - 4, d, 10 ** 19], ['sorted']]
            ops.append(['dp', t, d] if rng.random() < 0.7 else ['dt', t])
            ops += listing
            if kind == 'traj' and rng.random() < 0.3:
                ops.append(rng.choice([['sorted'], ['ip', t + 1, d, 10 ** 19]]))
        for t, d in entries[:2]:
            pid += 1
            ops += [['sp', t, d, pid]] + listing
        ops += [['pairs'], ['len']]
        runs.append({'kind': kind, 'ops': ops})
    return {'runs': runs, 'digits': [], 'tag': 'listings-' + ('traj' if kind == 'traj' else 'rec')}


def _digit_samples(rng, n):
    out = [0, 9, 10, -9, -10, 10 ** 17 - 1, 10 ** 15 - 1, 10 ** 16 - 1, 10 ** 18 - 1, 10 ** 19 - 1, sys.maxsize,
           2 ** 53, 2 ** 53 + 1, 10 * 2 ** 53 + 5]
    for _ in range(n):
        k = rng.randint(1, 19)
        m = rng.random()
        if m < 0.4:
            v = 10 ** k + rng.randint(-3, 3)
        elif m < 0.5:
            v = rng.choice([5, 15, 25, 95]) * 10 ** (k - 1) + rng.randint(-2, 2)
        else:
            v = rng.randint(10 ** (k - 1), 10 ** k - 1)
        out.append(-v if rng.random() < 0.15 else v)
    return out


def gen_cases(rng, tier):
    cases = []
    quick = tier == 'quick'
    # (A) exhaustive, 2 timestamps x 2 devices
    if quick:
        _exhaustive(_alphabet_a(), T2, 4, 'traj', cases, 'exhA-traj', light_from=4)
        _exhaustive(_alphabet_rec(), T2, 3, 'camera', cases, 'exhA-rec')
        _exhaustive(_alphabet_rec(), T2, 2, 'wifi', cases, 'exhA-rec-wifi')
        _exhaustive(_alphabet_rec(), T2, 2, 'bluetooth', cases, 'exhA-rec-bluetooth')
    else:
        _exhaustive(_alphabet_a(), T2, 4, 'traj', cases, 'exhA-traj', light_from=5, extra=(rng, 0.06))
        _exhaustive(_alphabet_rec(), T2, 4, 'camera', cases, 'exhA-rec')
        _exhaustive(_alphabet_rec(), T2, 3, 'wifi', cases, 'exhA-rec-wifi')
        _exhaustive(_alphabet_rec(), T2, 3, 'bluetooth', cases, 'exhA-rec-bluetooth')
    # (B) exhaustive, 3 timestamps x 2 devices, pair edits
    if quick:
        _exhaustive(_alphabet_b(), T3, 3, 'traj', cases, 'exhB-traj', light_from=3)
    else:
        _exhaustive(_alphabet_b(), T3, 4, 'traj', cases, 'exhB-traj', light_from=4)
    # sampled longer sequences over the same alphabets
    a, b = _alphabet_a(), _alphabet_b()
    for i in range(150 if quick else 3000):
        alpha, ts, tag = (a, T2, 'smpA') if i % 2 == 0 else (b, T3, 'smpB')
        runs = []
        for j in range(8):
            ln = rng.randint(4, 7)
            seq = _number([rng.choice(alpha) for _ in range(ln)])
            runs.append({'kind': 'traj', 'ops': seq + _battery(ts, 'traj', rng.randrange(40))})
        cases.append({'runs': runs, 'digits': [], 'tag': f'{tag}/len=4-7'})
    # (R) random long runs
    for i in range(160 if quick else 1600):
        n_ops = rng.choice([5, 10, 20, 40, 80, 120, 200])
        cases.append({'runs': [_random_run(rng, 'traj', n_ops, malformed=(i % 3 == 0))], 'digits': [],
                      'tag': 'rand-traj' + ('+bad' if i % 3 == 0 else '')})
    for i in range(60 if quick else 600):
        n_ops = rng.choice([5, 10, 20, 40, 80, 200])
        kind = KINDS[1 + i % 6]
        cases.append({'runs': [_random_run(rng, kind, n_ops, malformed=(i % 3 == 0))], 'digits': [],
                      'tag': 'rand-' + kind + ('+bad' if i % 3 == 0 else '')})
    # (C) copies of containers, with and without a filled cache
    for i in range(90 if quick else 900):
        cases.append(_copy_case(rng, 'traj' if i % 3 else KINDS[1 + (i // 3) % 6]))
    # (T) the same >10 timestamps of mixed digit counts reached by several edit orders
    for i in range(80 if quick else 800):
        cases.append(_tslen_case(rng))
    # (S) sensors_ids / data_list() / inverse() between edits
    for i in range(60 if quick else 600):
        cases.append(_listing_case(rng, 'traj' if i % 2 else KINDS[1 + (i // 2) % 6]))
    # digit counter samples
    cases.append({'runs': [], 'digits': _digit_samples(rng, 400 if quick else 4000), 'tag': 'digits'})
    return cases


# ------------------------------------------------------------------------------------------ the plain map
class PlainMap:
    """A plain dict keyed by (timestamp, device): what the property says the container is."""

    def __init__(self):
        self.m = {}

    def expected(self, op):
        """Apply op; return the answer the property demands, or None when it does not constrain it."""
        m, k = self.m, op[0]
        if k == 'sp':
            m[(op[1], op[2])] = op[3]
            return ['none']
        if k == 'st':
            for key in [key for key in m if key[0] == op[1]]:
                del m[key]
            for d, pid in op[2]:
                m[(op[1], d)] = pid
            return ['none']
        if k == 'dp':
            if (op[1], op[2]) in m:
                del m[(op[1], op[2])]
                return ['none']
            return None
        if k == 'dt':
            keys = [key for key in m if key[0] == op[1]]
            for key in keys:
                del m[key]
            return ['none'] if keys else None
        if k == 'ht':
            return ['bool', any(key[0] == op[1] for key in m)]
        if k == 'hp':
            return ['bool', (op[1], op[2]) in m]
        if k == 'gp':
            return ['val', m[(op[1], op[2])]] if (op[1], op[2]) in m else None
        if k == 'gt':
            items = sorted([d, pid] for (t, d), pid in m.items() if t == op[1])
            return ['dict', items] if items else None
        if k == 'pairs':
            return ['pairs', sorted([t, d, pid] for (t, d), pid in m.items())]
        if k == 'len':
            return ['int', len({t for t, _ in m})]
        if k == 'sorted':
            return ['list', sorted({t for t, _ in m})]
        if k == 'sens':
            return ['strs', sorted({d for _, d in m})]
        if k == 'dlist':
            return ['ids', sorted(m.values())]
        if k == 'inv':          # same keys, every pose replaced by its inverse
            for key in m:
                m[key] += INV_OFFSET
            return ['none']
        if k == 'tslen':
            return ['same-as-fresh']
        if k == 'ip':
            t, d, mi = op[1], op[2], op[3]
            if (t, d) in m:
                return ['val', m[(t, d)]]
            below = [x for (x, dd) in m if dd == d and x < t]
            above = [x for (x, dd) in m if dd == d and x > t]
            if below and above:
                lo, hi = max(below), min(above)
                if t - lo <= mi and hi - t <= mi:
                    return ['mix', t, lo, m[(lo, d)], hi, m[(hi, d)]]
            return ['none']
        return None      # 'bad': only "content unchanged" is demanded, which later answers show


# ------------------------------------------------------------------------------------------ implementation runner
def _new_container(kind):
    import kapture
    return {'traj': kapture.Trajectories, 'camera': kapture.RecordsCamera, 'lidar': kapture.RecordsLidar,
            'depth': kapture.RecordsDepth, 'gnss': kapture.RecordsGnss, 'wifi': kapture.RecordsWifi,
            'bluetooth': kapture.RecordsBluetooth}[kind]()


def _payload(kind, pid):
    import kapture
    if kind == 'traj':
        r = random.Random(7919 * pid + 13)
        q = [r.uniform(-1, 1) for _ in range(4)]
        n = sum(x * x for x in q) ** 0.5 or 1.0
        return kapture.PoseTransform(r=[x / n for x in q], t=[pid + r.uniform(-0.25, 0.25), r.uniform(-50, 50), -pid])
    falsy = pid == FALSY_PID
    if kind in ('camera', 'lidar', 'depth'):
        return '' if falsy else f'{kind}/{pid:06d}.bin'
    if kind == 'gnss':
        return kapture.RecordGnss(0.0, 0.0, 0.0, 0, 0.0) if falsy else kapture.RecordGnss(float(pid), 2.0, 3.0, pid, 0.5)
    if kind == 'bluetooth':
        b = kapture.RecordBluetooth()
        if not falsy:
            b[f'00:1a:7d:da:71:{pid % 100:02d}'] = kapture.RecordBluetoothSignal(rssi=-float(pid % 97), name=f'bt{pid}')
        return b
    w = kapture.RecordWifi()
    if not falsy:
        w[f'68:72:51:80:52:{pid % 100:02d}'] = kapture.RecordWifiSignal(frequency=2400 + pid % 97, rssi=-float(pid))
    return w


def _bad_value(kind):
    return 3.5 if kind != 'traj' else 'not a pose'


def _call_bad(c, kind, variant, t, d, good):
    bv = _bad_value(kind)
    v = variant % (N_BAD if kind == 'traj' else N_BAD - 2)
    if v == 0:
        c[str(t), d] = good
    elif v == 1:
        c[t, 7] = good
    elif v == 2:
        c[t, d] = bv
    elif v == 3:
        c[t] = 'not a dict'
    elif v == 4:
        c[t] = {7: good}
    elif v == 5:
        c[t] = {d: bv}
    elif v == 6:
        c[float(t % 1000) + 0.5] = {}
    elif v == 7:
        del c[str(t), d]
    elif v == 8:
        del c[t, 7]
    elif v == 9:
        del c[None]
    elif v == 10:
        return (str(t), d) in c
    elif v == 11:
        return (t, 7) in c
    elif v == 12:
        return 2.5 in c
    elif v == 13:
        return c[str(t), d]
    elif v == 14:
        return c[t, 7]
    elif v == 15:
        return c[None]
    elif v == 16:
        return c.intermediate_pose(str(t), d, 10)
    elif v == 17:
        return c.intermediate_pose(t, 7, 10)


def _pose_arrays(p):
    import numpy as np
    import quaternion
    return np.concatenate([quaternion.as_float_array(p.r).ravel(), np.asarray(p.t, dtype=float).ravel()])


class _BracketRecorder:
    """Observes the bracket of every interpolation exactly: while a Trajectories run is in progress the module
    attribute kapture.core.Trajectories.compute_intermediate_pose (the function intermediate_pose calls) is replaced
    by this recorder, which calls the real function and remembers, for the very object it returns, the arguments it
    was computed from.  Nothing is inferred from floating-point values."""

    def __init__(self):
        import inspect
        import kapture.core.Trajectories  # noqa: F401
        self.mod = sys.modules['kapture.core.Trajectories']
        self.orig = self.mod.compute_intermediate_pose
        if isinstance(self.orig, _BracketRecorder):      # a previous run was interrupted before restoring
            self.orig = self.orig.orig
        self.sig = inspect.signature(self.orig)
        self.calls = {}         # id(result) -> (result (kept alive), timestamp, low_ts, low_p, up_ts, up_p)

    def __call__(self, *args, **kwargs):
        res = self.orig(*args, **kwargs)
        try:
            b = self.sig.bind(*args, **kwargs)
            self.calls[id(res)] = (res,) + tuple(b.arguments.values())[:5]
        except TypeError:
            pass
        return res

    def __enter__(self):
        self.mod.compute_intermediate_pose = self
        return self

    def __exit__(self, *exc):
        self.mod.compute_intermediate_pose = self.orig
        return False

    def bracket_of(self, res, ident):
        rec = self.calls.get(id(res))
        if rec is None or rec[0] is not res:
            return None
        _, t, lo_ts, lo_p, hi_ts, hi_p = rec
        lo_id, hi_id = ident(lo_p), ident(hi_p)
        if lo_id is None or hi_id is None:
            return ['unknown', 'interpolated from a pose that was never stored']
        return ['mix', int(t), int(lo_ts), lo_id, int(hi_ts), hi_id]


def _identify_mix(res, t, hist, objs, compute, is_stored):
    """Fallback, used only when the recorder did not see the interpolation (e.g. a refactoring inlined
    compute_intermediate_pose): recompute it on candidate brackets among every (timestamp, payload) ever stored for
    the device, nearest first.  Several brackets can give the same floats (19-digit timestamps, query next to a
    stored pose: the result rounds to that pose); among the matches, brackets whose two ends the container still
    holds (as it answers itself, is_stored) are preferred, nearest first - an ambiguity can then hide a wrong
    bracket only where it changes nothing in the returned pose."""
    import numpy as np
    target = _pose_arrays(res)
    below = sorted({e for e in hist if e[0] < t}, key=lambda e: (t - e[0], -e[1]))
    above = sorted({e for e in hist if e[0] > t}, key=lambda e: (e[0] - t, -e[1]))

    def match(lo, hi):
        try:
            cand = compute(t, lo[0], objs[lo[1]], hi[0], objs[hi[1]])
        except Exception:
            return False
        return np.array_equal(_pose_arrays(cand), target, equal_nan=True)
    tried, found = 0, []
    for lo in below:
        for hi in above:
            tried += 1
            if tried <= 4000 and match(lo, hi):
                found.append((lo, hi))
    if not found:
        allh = sorted(set(hist))
        for lo in allh:
            for hi in allh:
                if lo[0] != hi[0] and not (lo[0] < t < hi[0]):
                    tried += 1
                    if tried <= 6000 and match(lo, hi):
                        found.append((lo, hi))
    if not found:
        return None
    live = [(lo, hi) for lo, hi in found if is_stored(*lo) and is_stored(*hi)]
    lo, hi = (live or found)[0]
    return ['mix', t, lo[0], lo[1], hi[0], hi[1]]


def _run_one(run):
    if run['kind'] == 'traj':
        with _BracketRecorder() as rec:
            return _run_ops(run, rec)
    return _run_ops(run, None)


def _run_ops(run, rec):
    kind = run['kind']
    c = _new_container(kind)
    objs = {}                      # payload id -> object
    by_identity = {}               # id(object) -> payload id
    hist = {}                      # device -> [(timestamp, payload id)] ever stored
    plain = PlainMap()             # only used to build the comparison container for timestamp_length
    outs, fresh = [], {}

    alive = []                     # every payload object stays alive, so that id() values are never reused

    def mk(pid):
        o = _payload(kind, pid)
        alive.append(o)
        objs[pid] = o
        by_identity[id(o)] = pid
        return o

    def ident(v):
        if id(v) in by_identity:
            return by_identity[id(v)]
        if isinstance(v, str):
            for pid, o in objs.items():
                if o == v:
                    return pid
        return None
    def same_value(a, b):
        if kind == 'traj':
            import numpy as np
            return np.array_equal(_pose_arrays(a), _pose_arrays(b), equal_nan=True)
        return type(a) is type(b) and a == b

    def adopt(container):
        """After a deep copy the payloads are new objects: recognise each one by its value (payload values are
        unique per id) and register its identity."""
        for inner in dict.values(container):
            for v in inner.values():
                if id(v) in by_identity:
                    continue
                for pid, o in objs.items():
                    if same_value(o, v):
                        alive.append(v)
                        by_identity[id(v)] = pid
                        objs[pid] = v
                        break
    good = mk(0)
    for i, op in enumerate(run['ops']):
        k = op[0]
        try:
            if k == 'copy':
                import copy
                import kapture
                how = op[1]
                if how == 'deep':
                    c = copy.deepcopy(c)
                elif how == 'shallow':
                    c = copy.copy(c)
                elif how == 'ctor':            # Records only: dict-style construction from another container
                    c = type(c)(c)
                elif how == 'rigs':            # Trajectories only: rigs_remove() = deepcopy + in-place edit (no rig here)
                    c = kapture.rigs_remove(c, kapture.Rigs())
                elif how == 'deep-discard':    # the copy is edited and dropped: the original must not notice
                    c2 = copy.deepcopy(c)
                    for t in list(dict.keys(c2)):
                        del c2[t]
                    c2[op[2], op[3]] = good
                elif how == 'inverse-discard':  # an inverted container is built, edited and dropped
                    c2 = c.inverse()
                    for t in list(dict.keys(c2)):
                        del c2[t]
                    c2[op[2], op[3]] = good
                else:
                    raise ValueError('unknown op copy/' + how)
                alive.append(c)
                adopt(c)
                res = ['none']
            elif k == 'inv':
                c2 = c.inverse()
                if type(c2) is not type(c) or c2 is c:
                    res = ['unknown', 'inverse() did not return a new Trajectories']
                else:
                    # recognise every pose of the new container by VALUE: it must be what PoseTransform.inverse()
                    # gives for one of the known poses (deterministic, payload values are unique per id)
                    known = [(pid, _pose_arrays(o.inverse())) for pid, o in list(objs.items())]
                    import numpy as np
                    for t2, inner in dict.items(c2):
                        for d2, v in inner.items():
                            arr = _pose_arrays(v)
                            for pid, inv_arr in known:
                                if np.array_equal(arr, inv_arr, equal_nan=True):
                                    alive.append(v)
                                    objs[pid + INV_OFFSET] = v
                                    by_identity[id(v)] = pid + INV_OFFSET
                                    hist.setdefault(d2, []).append((int(t2), pid + INV_OFFSET))
                                    break
                    alive.append(c)
                    c = c2
                    res = ['none']
            elif k == 'sens':
                v = c.sensors_ids
                ok = isinstance(v, (set, frozenset)) and all(isinstance(x, str) for x in v)
                res = ['strs', sorted(v)] if ok else ['unknown', 'sensors_ids']
            elif k == 'dlist':
                ids = [ident(v) for v in c.data_list()]
                res = ['ids', sorted(ids)] if all(x is not None for x in ids) else ['unknown', 'data_list']
            elif k == 'sp':
                o = mk(op[3])
                hist.setdefault(op[2], []).append((op[1], op[3]))
                c[op[1], op[2]] = o
                res = ['none']
            elif k == 'st':
                dct = {}
                for d, pid in op[2]:
                    dct[d] = mk(pid)
                    hist.setdefault(d, []).append((op[1], pid))
                c[op[1]] = dct
                res = ['none']
            elif k == 'dp':
                del c[op[1], op[2]]
                res = ['none']
            elif k == 'dt':
                del c[op[1]]
                res = ['none']
            elif k == 'ht':
                res = ['bool', bool(op[1] in c)]
            elif k == 'hp':
                res = ['bool', bool((op[1], op[2]) in c)]
            elif k == 'gp':
                pid = ident(c[op[1], op[2]])
                res = ['val', pid] if pid is not None else ['unknown', 'value']
            elif k == 'gt':
                inner = c[op[1]]
                items = [[d, ident(v)] for d, v in inner.items()]
                res = ['dict', sorted(items)] if all(x[1] is not None for x in items) else ['unknown', 'dict']
            elif k == 'pairs':
                items = [[t, d, ident(c[t, d])] for t, d in c.key_pairs()]
                res = ['pairs', sorted(items)] if all(x[2] is not None for x in items) else ['unknown', 'pairs']
            elif k == 'len':
                res = ['int', len(c)]
            elif k == 'sorted':
                res = ['list', [int(x) for x in c.timestamps_sorted_list()]]
            elif k == 'tslen':
                res = ['int', int(c.timestamp_length())]
            elif k == 'ip':
                v = c.intermediate_pose(op[1], op[2], op[3])
                if v is None:
                    res = ['none']
                elif ident(v) is not None:
                    res = ['val', ident(v)]           # the very object that was stored
                else:
                    res = rec.bracket_of(v, ident) if rec else None
                    if res is None:
                        dev = op[2]

                        def is_stored(ts, pid):
                            try:
                                return (ts, dev) in c and c[ts, dev] is objs[pid]
                            except Exception:
                                return False
                        res = _identify_mix(v, op[1], hist.get(dev, []), objs,
                                            rec.orig if rec else None, is_stored) or \
                            ['unknown', [float(x) for x in _pose_arrays(v)]]
            elif k == 'bad':
                v = _call_bad(c, kind, op[1], op[2], op[3], good)
                res = ['returned', repr(v)[:60]]
            else:
                raise ValueError('unknown op ' + k)
        except (KeyError, TypeError, IndexError, AttributeError, ValueError, ZeroDivisionError,
                OverflowError, AssertionError, RuntimeError) as e:
            if isinstance(e, ValueError) and str(e).startswith('unknown op'):
                raise
            res = ['err', type(e).__name__]
        outs.append(res)
        plain.expected(op)
        if k == 'tslen':
            # the same question put to containers that received the same entries in one pass, in ascending and in
            # descending order: the answer may only depend on the entries, so all three must agree
            answers = []
            for items in (sorted(plain.m.items()), sorted(plain.m.items(), reverse=True)):
                f = _new_container(kind)
                for (t, d), pid in items:
                    f[t, d] = objs.get(pid, good)      # only the timestamps matter here
                try:
                    answers.append(['int', int(f.timestamp_length())])
                except Exception as e:
                    answers.append(['err', type(e).__name__])
            fresh[str(i)] = answers
    return {'outs': outs, 'fresh': fresh}


def run_impl(case, ctx):
    from kapture.utils.computation import num_digits
    digits = []
    for n in case.get('digits', []):
        try:
            digits.append(int(num_digits(n)))
        except Exception as e:
            digits.append('err:' + type(e).__name__)
    return {'runs': [_run_one(r) for r in case['runs']], 'digits': digits, 'maxsize': sys.maxsize}


# ------------------------------------------------------------------------------------------ oracle
_NAMES = {'sp': 'set pair', 'st': 'set timestamp', 'dp': 'delete pair', 'dt': 'delete timestamp',
          'ht': 'timestamp membership', 'hp': 'pair membership', 'gp': 'get pair', 'gt': 'get timestamp',
          'pairs': 'stored entries', 'len': 'number of timestamps', 'sorted': 'sorted timestamp list',
          'tslen': 'timestamp_length', 'ip': 'intermediate_pose', 'bad': 'ill-typed call', 'copy': 'copy',
          'inv': 'inverse()', 'sens': 'sensors_ids', 'dlist': 'data_list()'}


def _judge_run(run, robs):
    plain = PlainMap()
    for i, (op, got) in enumerate(zip(run['ops'], robs['outs'])):
        exp = plain.expected(op)
        name = _NAMES[op[0]]
        where = 'Trajectories' if run['kind'] == 'traj' else 'Records'
        if op[0] == 'ip' and got[0] == 'err':
            return i, f'{where}: intermediate_pose raised {got[1]}'
        if op[0] == 'copy' and got[0] != 'none':
            return i, f'{where}: copying the container ({op[1]}) failed: {got[-1]}'
        if exp is None:
            continue
        if exp == ['same-as-fresh']:
            others = robs['fresh'].get(str(i)) or [None]
            if any(got != e for e in others):
                return i, f'{where}: timestamp_length differs between containers holding the same entries (other edit order)'
            continue
        if got != exp:
            if got[0] == 'err':
                return i, f'{where}: {name} raised {got[1]} where a plain map answers'
            return i, f'{where}: {name} differs from the plain map holding the same entries'
    return None


def oracle(case, obs):
    """The property, stated directly on the observed answers (independent of the Coq model): replay the
    operations on a plain dict keyed by (timestamp, device) and compare every answer."""
    for run, robs in zip(case['runs'], obs['runs']):
        r = _judge_run(run, robs)
        if r:
            return r[1]
    return None


# ------------------------------------------------------------------------------------------ Coq encoding
class _Names:
    """Literals are the expensive part of a shard for Coq's parser: every distinct int / str of a case is
    bound once by a let and referred to by name."""

    def __init__(self):
        self.ints, self.strs = {}, {}

    def z(self, n):
        n = int(n)
        if n not in self.ints:
            self.ints[n] = f'z{len(self.ints)}'
        return self.ints[n]

    def s(self, x):
        if x not in self.strs:
            self.strs[x] = f's{len(self.strs)}'
        return self.strs[x]

    def wrap(self, term):
        lets = [f'let {name} := {kv.cstr(x)} in' for x, name in self.strs.items()]
        lets += [f'let {name} := {kv.cz(n)} in' for n, name in self.ints.items()]
        return '(' + ' '.join(lets) + ' ' + term + ')'


def _c_op(op, nm):
    k = op[0]
    z, s = nm.z, nm.s
    if k == 'sp':
        return f'SP {z(op[1])} {s(op[2])} {z(op[3])}'
    if k == 'st':
        return f'ST {z(op[1])} {kv.clist(kv.cpair(s(d), z(p)) for d, p in op[2])}'
    if k == 'dp':
        return f'DP {z(op[1])} {s(op[2])}'
    if k == 'dt':
        return f'DT {z(op[1])}'
    if k == 'ht':
        return f'HT {z(op[1])}'
    if k == 'hp':
        return f'HP {z(op[1])} {s(op[2])}'
    if k == 'gp':
        return f'GP {z(op[1])} {s(op[2])}'
    if k == 'gt':
        return f'GT {z(op[1])}'
    if k in _C_NULLARY:
        return _C_NULLARY[k]
    if k == 'copy':
        return 'SO'          # only reached when the copy raised: paired with an error outcome, it cannot match
    if k == 'ip':
        return f'IP {z(op[1])} {s(op[2])} {z(op[3])}'
    raise ValueError(k)


_C_NULLARY = {'pairs': 'PR', 'len': 'LN', 'bad': 'BD', 'sorted': 'SO', 'tslen': 'TL', 'inv': 'IV', 'sens': 'SI',
              'dlist': 'DL'}
_ERR = {'KeyError': 'EK', 'TypeError': 'ET', 'IndexError': 'EI'}


def _c_out(o, nm):
    k = o[0]
    z, s = nm.z, nm.s
    if k == 'none':
        return 'ON'
    if k == 'bool':
        return f'OB {kv.cbool(o[1])}'
    if k == 'val':
        return f'OV {z(o[1])}'
    if k == 'mix':
        return f'OM {z(o[1])} {z(o[2])} {z(o[3])} {z(o[4])} {z(o[5])}'
    if k == 'dict':
        return f'OD {kv.clist(kv.cpair(s(d), z(p)) for d, p in o[1])}'
    if k == 'pairs':
        return f'OP {kv.clist(kv.cpair(z(t), s(d), z(p)) for t, d, p in o[1])}'
    if k == 'int':
        return f'OI {z(o[1])}'
    if k == 'list':
        return f'OL {kv.clist(z(x) for x in o[1])}'
    if k == 'strs':
        return f'OS {kv.clist(s(x) for x in o[1])}'
    if k == 'ids':
        return f'OZ {kv.clist(z(x) for x in o[1])}'
    if k == 'err':
        return _ERR.get(o[1], 'EO')
    return 'EO'          # unknown value / an ill-typed call that returned


def _is_clean_copy(op, o):
    """A copy (deepcopy, copy.copy, rigs_remove with no rig, dict-style construction) is a container reached by the
    same history: in the model it is the identity on the machine state, so a copy that succeeded is simply skipped and
    the model keeps running; a copy that raised is encoded as a failing step."""
    return op[0] == 'copy' and o == ['none']


def encode(case, obs):
    nm = _Names()
    runs = []
    for run, robs in zip(case['runs'], obs['runs']):
        runs.append('{| r_kind := %s; r_ops := %s; r_outs := %s |}' % (
            'KTraj' if run['kind'] == 'traj' else 'KRec',
            kv.clist(_c_op(op, nm) for op, o in zip(run['ops'], robs['outs']) if not _is_clean_copy(op, o)),
            kv.clist(_c_out(o, nm) for op, o in zip(run['ops'], robs['outs']) if not _is_clean_copy(op, o))))
    digits = [kv.cpair(kv.cz(n), nm.z(k if isinstance(k, int) else -1))
              for n, k in zip(case.get('digits', []), obs['digits'])]
    return nm.wrap('{| c_maxsize := %s; c_runs := %s; c_digits := %s |}' % (
        kv.cz(obs['maxsize']), kv.clist(runs), kv.clist(digits)))


# ------------------------------------------------------------------------------------------ evidence helpers
_EDITS = ('sp', 'st', 'dp', 'dt')


def nontrivial(case, obs):
    for run in case['runs']:
        seen_edit = False
        for op in run['ops']:
            if op[0] in _EDITS:
                seen_edit = True
            elif seen_edit:
                return True
    return bool(case.get('digits'))


def classify(case, obs):
    tag = case.get('tag', 'corpus')
    if tag.startswith('rand'):
        n = sum(len(r['ops']) for r in case['runs'])
        size = '<=20' if n <= 20 else ('<=80' if n <= 80 else '<=203')
        kinds = {'mix': 0, 'val': 0, 'none': 0}
        for run, robs in zip(case['runs'], obs['runs']):
            for op, o in zip(run['ops'], robs['outs']):
                if op[0] == 'ip' and o[0] in kinds:
                    kinds[o[0]] += 1
        flavour = '+interpolated' if kinds['mix'] else ''
        if any(op[0] == 'inv' for run in case['runs'] for op in run['ops']):
            flavour += '+inverse'
        return f'{tag}/ops{size}{flavour}'
    if tag.startswith('copies-traj') or tag.startswith('listings-traj'):
        n_inv = sum(1 for run in case['runs'] for op in run['ops'] if op[0] == 'inv')
        return tag + ('+inverse' if n_inv else '')
    return tag


def describe(case, obs):
    run = case['runs'][0] if case['runs'] else {'kind': '-', 'ops': []}
    robs = obs['runs'][0] if obs.get('runs') else {'outs': []}
    return {'tag': case.get('tag'), 'runs_in_case': len(case['runs']), 'kind': run['kind'],
            'first_run': [[op, out] for op, out in list(zip(run['ops'], robs['outs']))[:12]],
            'digits': list(zip(case.get('digits', []), obs.get('digits', [])))[:6]}


def shrink(case):
    runs = case['runs']
    if len(runs) > 1:
        for r in runs:
            yield {'runs': [r], 'digits': [], 'tag': case.get('tag', '')}
        return
    if not runs:
        return
    ops = runs[0]['ops']
    n = len(ops)
    # drop chunks, then single operations (answers are re-observed, so any subsequence is a valid run)
    for size in (n // 2, n // 4, n // 8, 1):
        if size < 1:
            continue
        for i in range(0, n, size):
            cand = ops[:i] + ops[i + size:]
            if cand and len(cand) < n:
                yield {'runs': [{'kind': runs[0]['kind'], 'ops': cand}], 'digits': [], 'tag': case.get('tag', '')}


TECHNIQUE = ('Coq proof of a refinement: the cached state machine that mirrors the class (dict of dicts, cached sorted '
             'list, cached bounds) simulates a plain (timestamp, device) map for every operation sequence (induction, '
             'cache invariant); declarative characterisation of intermediate_pose; differential correspondence of the '
             'executable model with the real classes by vm_compute')
LEVEL_TEXT = ('Theorems in coq/Props/C07.v hold for every operation sequence of any length over any timestamps/devices/'
              'payloads and for every interpolation function and digit counter: all answers of the Trajectories machine '
              'and of the Records machine equal those of a plain map (set-valued answers as sets), the content relation is '
              'preserved, answers depend only on the content (two histories with the same content answer every query '
              'alike), and intermediate_pose returns the stored pose, else the interpolation between the nearest earlier and '
              'later pose of that device when both are within the interval, else None - never an exception; inverse() holds the '
              'same keys with inverted poses and is again such a container; sensors_ids / data_list() are functions of the entries; '
              'an edit leaves every other entry alone and a failing call changes nothing (cache included). The executable '
              'model is tied to the code by replaying exhaustive small-scope and long random operation sequences on the real '
              'classes and comparing every answer, including exception classes, inside Coq.')
LEVEL_NOTE = ('Trusted: Coq kernel + vm_compute, harness encoders, exact observation of interpolation brackets by a recorder placed on compute_intermediate_pose, '
              'CPython float division model for num_digits. Inherited dict methods that bypass the overridden accessors are '
              'outside the judged domain.')
