"""C08 — dataset comparison is a true equality: symmetric and sensitive to every part.
Implementation under test: kapture.algo.compare.equal_kapture (and every equal_* helper it calls).

A case is a pair of dataset descriptions (JSON "specs"); both are built through the real kapture classes,
optionally deep-copied / saved and reloaded / rebuilt in another insertion order, and compared with
equal_kapture in BOTH argument orders.  What the model receives is read back from the real objects."""
import copy
import hashlib
import inspect
import json
import math
import os
import shutil
import warnings
from fractions import Fraction

import kv

ID = 'C08'
COQ_MODELS = ['MCompare']
_HEADER0 = ('From KV Require Import Eqb AL Str.\nFrom KV.Model Require Import MCompare.\n'
            'From Coq Require Import List String ZArith QArith.\nImport ListNotations.\n')
COQ_HEADER = _HEADER0            # grows: named base datasets shared by the cases of a run (see encode)
CASE_TYPE = 'list MCompare.case'
CHECK_FN = 'MCompare.check_history'
SHARD_SIZE = 120
CASE_TIMEOUT = 60
RULE = ('a case = two datasets (all 18 parts populated, reference-closed, built through the real kapture classes) that are '
        'either the same content (independent build / deepcopy / kapture_to_dir+kapture_from_dir / rebuilt in another insertion '
        'order) or differ by ONE mutation: a part set to None or emptied, one entry added / removed / altered in one part '
        '(altered = every field of every leaf kind in turn; for poses, camera parameters and 3-D points: beyond tolerance, within '
        'tolerance, and inside the band where np.isclose is asymmetric), applied to the first or to the second argument; '
        'equal_kapture is called in both argument orders. HISTORIES: on the same two live objects, cache-filling queries and a first '
        'comparison, then one mutation through one of every mutation path the containers offer (typed setters, inherited dict / set / '
        'list methods: update, |=, setdefault-chains, pop, popitem, inner edits, in-place attribute / array writes), a comparison, the '
        'mirrored change on the other side, a last comparison; every comparison is encoded and judged against the content the objects '
        'hold at that moment. At EVERY comparison the 18 equal_<part> helpers are also called one by one on the parts of the two '
        'objects (both orders) and 2 (30 in the helper-calls cases) helpers are called directly with own-class / None / foreign-class '
        'arguments (TypeError branch); double cases carry two mutations in two different parts. Non-trivial = the two sides are not the same object graph built the same '
        'way (i.e. a mutation, a copy, a reload or a reorder took place); distinct = distinct (specs, transforms).')
TRUSTED = ['numpy-quaternion rotation_intrinsic_distance and numpy.linalg.norm: modelled for UNIT quaternions by the chord '
           'min(|qa-qb|,|qa+qb|) <= thr/2 and the squared distance over Q (Section parameter pose_close with contract '
           'reflexive+symmetric; the rational instance pose_close_q is proved to satisfy it)',
           'numpy.isclose(a,b) = |a-b| <= atol + rtol*|b| evaluated in float64: modelled exactly over Q; the generator stays '
           '>= 1e-9 (relative) away from every decision boundary',
           'Python == on str / int / finite float / dataclass, sorted() on tuples of int and str, set operations']
ASSUMPTIONS = ['no NaN / infinity anywhere (np.isclose(nan, nan) and nan == nan are False in the code: a dataset holding a NaN is '
               'not equal to its own reload; out of the judged domain)',
               'quaternions are unit (|q|-1 <= 1e-12); the code also measures the norm ratio of non-unit quaternions',
               'datasets are built through the typed kapture API (create_sensor, typed setters): a plain Sensor of type camera '
               'raises inside equal_kapture and is not generated; an object of another class is handed directly to the ten typed '
               'helpers only (modelled: TypeError), never to sensors / rigs / trajectories / collections / points3d helpers',
               'save/reload cases use reference-closed datasets whose present parts are non-empty and whose feature files exist; '
               'present-but-empty gnss / keypoints / descriptors / global_features / matches reload as None (a round-trip matter, '
               'property C01), which equal_kapture rightly reports as a difference',
               'an empty inner container (a rig without sensors, a timestamp without records, an observation list without '
               'observations) is not an entry: flatten() drops it and so does a save/reload; such cases are compared with the '
               'model but not judged by the oracle']
EXHAUSTIVE = {'quick': False, 'thorough': False}

_PART_COQ = {
    'sensors': 'Sensors', 'rigs': 'Rigs', 'trajectories': 'Trajectories', 'records_camera': 'RecordsCamera',
    'records_depth': 'RecordsDepth', 'records_lidar': 'RecordsLidar', 'records_wifi': 'RecordsWifi',
    'records_bluetooth': 'RecordsBluetooth', 'records_gnss': 'RecordsGnss',
    'records_accelerometer': 'RecordsAccelerometer', 'records_gyroscope': 'RecordsGyroscope',
    'records_magnetic': 'RecordsMagnetic', 'keypoints': 'Keypoints', 'descriptors': 'Descriptors',
    'global_features': 'GlobalFeatures', 'matches': 'Matches', 'observations': 'Observations', 'points3d': 'Points3d'}
FILE_RECORDS = {'records_camera': 'RecordsCamera', 'records_depth': 'RecordsDepth', 'records_lidar': 'RecordsLidar'}
ARRAY_RECORDS = {   # part -> (records class, record class, [(field, kind)])
    'records_gnss': ('RecordsGnss', 'RecordGnss'),
    'records_accelerometer': ('RecordsAccelerometer', 'RecordAccelerometer'),
    'records_gyroscope': ('RecordsGyroscope', 'RecordGyroscope'),
    'records_magnetic': ('RecordsMagnetic', 'RecordMagnetic')}
SIGNAL_RECORDS = {  # part -> (records class, record dict class, signal class)
    'records_wifi': ('RecordsWifi', 'RecordWifi', 'RecordWifiSignal'),
    'records_bluetooth': ('RecordsBluetooth', 'RecordBluetooth', 'RecordBluetoothSignal')}
FEATURES = {'keypoints': 'Keypoints', 'descriptors': 'Descriptors', 'global_features': 'GlobalFeatures'}


def parts():
    import kapture
    return [p for p in inspect.signature(kapture.Kapture.__init__).parameters if p != 'self']


# ------------------------------------------------------------------------------------------ building real objects
def _pose(p):
    import kapture
    return kapture.PoseTransform(r=p['r'], t=p['t'])


def _order(items, shuffle):
    items = list(items)
    if shuffle is not None:
        shuffle.shuffle(items)
    return items


def build(spec, shuffle=None):
    """spec (JSON) -> kapture.Kapture, through the public classes only.  `shuffle`: a random.Random used to
    permute every insertion order (same content, other dict / list-of-dict order)."""
    import numpy as np
    import kapture
    import kapture.core.Records as R
    k = kapture.Kapture()
    s = spec.get('sensors')
    if s is not None:
        k.sensors = kapture.Sensors()
        for sid, d in _order(s, shuffle):
            k.sensors[sid] = kapture.create_sensor(d['type'], list(d['params']), d['name'])
    s = spec.get('rigs')
    if s is not None:
        k.rigs = kapture.Rigs()
        for rid, members in _order(s, shuffle):
            if not members:
                k.rigs[rid] = {}
            for sid, p in _order(members, shuffle):
                k.rigs[rid, sid] = _pose(p)
    s = spec.get('trajectories')
    if s is not None:
        k.trajectories = kapture.Trajectories()
        for ts, members in _order(s, shuffle):
            if not members:
                k.trajectories[ts] = {}
            for sid, p in _order(members, shuffle):
                k.trajectories[ts, sid] = _pose(p)
    for part, cls in FILE_RECORDS.items():
        s = spec.get(part)
        if s is not None:
            rec = getattr(kapture, cls)()
            for ts, members in _order(s, shuffle):
                if not members:
                    rec[ts] = {}
                for sid, fp in _order(members, shuffle):
                    rec[ts, sid] = fp
            setattr(k, part, rec)
    for part, (cls, dcls, scls) in SIGNAL_RECORDS.items():
        s = spec.get(part)
        if s is not None:
            rec = getattr(kapture, cls)()
            for ts, members in _order(s, shuffle):
                if not members:
                    rec[ts] = {}
                for sid, signals in _order(members, shuffle):
                    one = getattr(R, dcls)()
                    for addr, fields in _order(signals, shuffle):
                        one[addr] = getattr(R, scls)(**fields)
                    rec[ts, sid] = one
            setattr(k, part, rec)
    for part, (cls, rcls) in ARRAY_RECORDS.items():
        s = spec.get(part)
        if s is not None:
            rec = getattr(kapture, cls)()
            for ts, members in _order(s, shuffle):
                if not members:
                    rec[ts] = {}
                for sid, fields in _order(members, shuffle):
                    rec[ts, sid] = getattr(R, rcls)(**fields)
            setattr(k, part, rec)
    for part, cls in FEATURES.items():
        s = spec.get(part)
        if s is not None:
            coll = {}
            for ftype, d in _order(s, shuffle):
                args = [d['type_name'], getattr(np, d['dtype']), d['dsize']]
                if part == 'descriptors':
                    args += [d['keypoints_type'], d['metric_type']]
                elif part == 'global_features':
                    args += [d['metric_type']]
                coll[ftype] = getattr(kapture, cls)(*args, _order(d['members'], shuffle))
            setattr(k, part, coll)
    s = spec.get('matches')
    if s is not None:
        coll = {}
        for ktype, pairs in _order(s, shuffle):
            coll[ktype] = kapture.Matches([tuple(p) for p in _order(pairs, shuffle)])
        k.matches = coll
    s = spec.get('observations')
    if s is not None:
        obs = kapture.Observations()
        for pid, per_type in _order(s, shuffle):
            if not per_type:
                obs[pid] = {}
            for ktype, lst in _order(per_type, shuffle):
                if not lst:
                    obs.setdefault(pid, {})[ktype] = []
                for img, idx in _order(lst, shuffle):
                    obs.add(pid, ktype, img, idx)
        k.observations = obs
    s = spec.get('points3d')
    if s is not None:
        if s['rows']:
            k.points3d = kapture.Points3d(np.array(s['rows'], dtype=float).reshape((-1, s['cols'])))
        else:
            k.points3d = kapture.Points3d(size=s['cols'])
    return k


def reload(k, tmp):
    """kapture_to_dir + (empty) feature files + kapture_from_dir"""
    import kapture
    import kapture.io.csv as kcsv
    import kapture.io.features as kfeat
    d = os.path.join(tmp, 'reload')
    shutil.rmtree(d, ignore_errors=True)
    os.makedirs(d)
    try:
        with warnings.catch_warnings():
            warnings.simplefilter('ignore')
            kcsv.kapture_to_dir(d, k)
            files = []
            for t, coll in (k.keypoints or {}).items():
                files += list(kfeat.keypoints_to_filepaths(coll, t, d).values())
            for t, coll in (k.descriptors or {}).items():
                files += list(kfeat.descriptors_to_filepaths(coll, t, d).values())
            for t, coll in (k.global_features or {}).items():
                files += list(kfeat.global_features_to_filepaths(coll, t, d).values())
            for t, coll in (k.matches or {}).items():
                files += list(kfeat.matches_to_filepaths(coll, t, d).values())
            for f in files:
                os.makedirs(os.path.dirname(f), exist_ok=True)
                open(f, 'ab').close()
            return kcsv.kapture_from_dir(d)
    finally:
        shutil.rmtree(d, ignore_errors=True)


# ------------------------------------------------------------------------------------------ reading real objects back
def _ftok(x):
    x = float(x)
    if x != x or x in (float('inf'), float('-inf')):
        raise ValueError('non-finite float in a generated dataset')
    return ['f', (0.0).hex() if x == 0 else x.hex()]


def _atom(v):
    if isinstance(v, bool):
        raise TypeError('bool field')
    if isinstance(v, int):
        return ['z', int(v)]
    if isinstance(v, float):
        return _ftok(v)
    if isinstance(v, str):
        return ['s', v]
    try:
        import numpy as np
        if isinstance(v, np.integer):
            return ['z', int(v)]
        if isinstance(v, np.floating):
            return _ftok(float(v))
    except ImportError:
        pass
    raise TypeError(f'unsupported field type {type(v)}')


def _xpose(p):
    return ['pose', p.r_raw, p.t_raw]


def extract(k):
    """kapture.Kapture -> {part: None | ['map', [[key, val], ...]] | ['pts', cols, rows]} in iteration order.
    key = list of atoms; rows of nested dicts are listed innermost-last (an empty inner dict contributes no row)."""
    import numpy as np
    from kapture.core.Sensors import Camera
    out = {}
    if k.sensors is None:
        out['sensors'] = None
    else:
        rows = []
        for sid, s in k.sensors.items():
            cam = isinstance(s, Camera)
            rows.append([[['s', sid]], ['sensor', s.name, s.sensor_type,
                                        s.camera_type.name if cam else '',
                                        [float(c) for c in s.camera_params] if cam else [],
                                        [str(x) for x in s.sensor_params]]])
        out['sensors'] = ['map', rows]
    for part, k1 in (('rigs', 's'), ('trajectories', 'z')):
        obj = getattr(k, part)
        if obj is None:
            out[part] = None
        else:
            out[part] = ['map', [[[[k1, a], ['s', b]], _xpose(p)] for a, d in obj.items() for b, p in d.items()]]
    for part in FILE_RECORDS:
        obj = getattr(k, part)
        out[part] = None if obj is None else \
            ['map', [[[['z', ts], ['s', sid]], ['leaf', [['s', fp]]]] for ts, d in obj.items() for sid, fp in d.items()]]
    for part in SIGNAL_RECORDS:
        obj = getattr(k, part)
        out[part] = None if obj is None else \
            ['map', [[[['z', ts], ['s', sid], ['s', addr]], ['leaf', [_atom(v) for v in sig.astuple()]]]
                     for ts, d in obj.items() for sid, rec in d.items() for addr, sig in rec.items()]]
    for part in ARRAY_RECORDS:
        obj = getattr(k, part)
        out[part] = None if obj is None else \
            ['map', [[[['z', ts], ['s', sid]], ['leaf', [_atom(v) for v in rec.astuple()]]]
                     for ts, d in obj.items() for sid, rec in d.items()]]
    for part in FEATURES:
        obj = getattr(k, part)
        if obj is None:
            out[part] = None
        else:
            rows = []
            for ftype, f in obj.items():
                fields = [['s', f.type_name], ['s', np.dtype(f.dtype).name], ['z', f.dsize]]
                if part == 'descriptors':
                    fields += [['s', f.keypoints_type], ['s', f.metric_type]]
                elif part == 'global_features':
                    fields += [['s', f.metric_type]]
                rows.append([[['s', ftype]], ['feat', fields, [[['s', m]] for m in sorted(f)]]])
            out[part] = ['map', rows]
    if k.matches is None:
        out['matches'] = None
    else:
        out['matches'] = ['map', [[[['s', t]], ['set', [[['s', a], ['s', b]] for a, b in sorted(m)]]]
                                  for t, m in k.matches.items()]]
    if k.observations is None:
        out['observations'] = None
    else:
        out['observations'] = ['map', [[[['z', pid], ['s', t]], ['bag', [[['s', img], ['z', idx]] for img, idx in lst]]]
                                       for pid, d in k.observations.items() for t, lst in d.items() if len(lst) > 0]]
    if k.points3d is None:
        out['points3d'] = None
    else:
        arr = k.points3d.as_array()
        out['points3d'] = ['pts', int(arr.shape[1]), [[float(x) for x in row] for row in arr.tolist()]]
    return out


# ------------------------------------------------------------------------------------------ Coq encoding
def _catom(a):
    if a[0] == 'z':
        return 'AZ ' + kv.cz(a[1])
    if a[0] == 's':
        return 'AS ' + kv.cstr(a[1])
    return 'AF ' + kv.cstr(a[1])


def _ckey(key):
    return kv.clist(_catom(a) for a in key)


def _cq(x):
    return kv.cq(float(x))


def _cval(v):
    t = v[0]
    if t == 'sensor':
        _, name, stype, model, cparams, params = v
        return ('VSensor {| s_name := %s; s_type := %s; s_model := %s; s_cparams := %s; s_params := %s |}' % (
            kv.copt(None if name is None else kv.cstr(name)), kv.cstr(stype), kv.cstr(model),
            kv.clist(_cq(c) for c in cparams), kv.clist(kv.cstr(p) for p in params)))
    if t == 'pose':
        _, r, tr = v
        return 'VPose {| p_r := %s; p_t := %s |}' % (
            kv.copt(None if r is None else kv.cpair(*[_cq(c) for c in r])),
            kv.copt(None if tr is None else kv.cpair(*[_cq(c) for c in tr])))
    if t == 'leaf':
        return 'VLeaf ' + kv.clist(_catom(a) for a in v[1])
    if t == 'feat':
        return 'VFeat %s %s' % (kv.clist(_catom(a) for a in v[1]), kv.clist(_ckey(m) for m in v[2]))
    if t == 'set':
        return 'VSet ' + kv.clist(_ckey(m) for m in v[1])
    if t == 'bag':
        return 'VBag ' + kv.clist(_ckey(m) for m in v[1])
    raise ValueError(t)


def _cpart(x):
    if x[0] == 'map':
        return 'PMap ' + kv.clist(kv.cpair(_ckey(key), _cval(val)) for key, val in x[1])
    return 'PPts %s %s' % (kv.cz(x[1]), kv.clist(kv.clist(_cq(c) for c in row) for row in x[2]))


def _cdataset(x):
    return kv.clist(kv.cpair(_PART_COQ[p], _cpart(x[p])) for p in _PART_COQ if x.get(p) is not None)


def _cdiff(x, base):
    out = []
    for p in _PART_COQ:
        if x.get(p) != base.get(p):
            out.append(kv.cpair(_PART_COQ[p], kv.copt(None if x.get(p) is None else '(' + _cpart(x[p]) + ')')))
    return kv.clist(out)


_BASES = []       # (extraction, Coq name): datasets defined once in the shard header and shared by the cases


def _ndiff(x, base):
    return sum(1 for p in _PART_COQ if x.get(p) != base.get(p))


def _base_for(case, xa, xb):
    """the named dataset closest to both sides.  A dataset is named (defined once in the shard header) when the
    generator presents it as the plain build of a new base description (tag same-build)."""
    global COQ_HEADER
    if case.get('tag') == 'same-build' and not any(x == xb for x, _ in _BASES):
        name = 'B_' + hashlib.sha256(json.dumps(xb, sort_keys=True).encode()).hexdigest()[:12]
        _BASES.append((xb, name))
        COQ_HEADER = COQ_HEADER + 'Definition %s : MCompare.dataset := %s.\n' % (name, _cdataset(xb))
    best = None
    for x, name in _BASES:
        cost = _ndiff(xa, x) + _ndiff(xb, x)
        if best is None or cost < best[0]:
            best = (cost, x, name)
    if best is None:
        return {}, '[]'
    return best[1], best[2]


def _encode_one(case, o):
    xa, xb = o['xa'], o['xb']
    base, name = _base_for(case, xa, xb)
    return ('{| c_base := %s; c_da := %s; c_db := %s; o_ab := %s; o_ba := %s; o_parts_ab := %s; o_parts_ba := %s; '
            'o_calls := %s |}') % (
        name, _cdiff(xa, base), _cdiff(xb, base), kv.cbool(o['ab']), kv.cbool(o['ba']),
        kv.clist(kv.cbool(bool(x)) for x in o['pab']), kv.clist(kv.cbool(bool(x)) for x in o['pba']),
        kv.clist('{| h_fn := %s; h_a := %s; h_b := %s; h_out := %s |}' % (
            _PART_COQ[h], kv.copt(None if ca is None else _PART_COQ[ca]), kv.copt(None if cb is None else _PART_COQ[cb]),
            _COUT[out]) for h, ca, cb, out in o['calls']))


_COUT = {'T': '(Ans true)', 'F': '(Ans false)', 'TypeError': 'TypeErr', 'Other': 'OtherErr'}


def encode(case, obs):
    """one Coq term of type list MCompare.case: one element per comparison of the history (a plain case = one)"""
    return kv.clist(_encode_one(case, o) for o in obs.get('compares', [obs]))


# ------------------------------------------------------------------------------------------ running the implementation
def _side(spec, via, seed, tmp):
    import random
    if via == 'shuffle':
        return build(spec, random.Random(seed))
    k = build(spec)
    if via == 'deepcopy':
        return copy.deepcopy(k)
    if via == 'reload':
        return reload(k, tmp)
    return k


# the helper of every part, as equal_kapture names them
TYPED_HELPERS = ['records_camera', 'records_depth', 'records_lidar', 'records_wifi', 'records_bluetooth', 'records_gnss',
                 'records_accelerometer', 'records_gyroscope', 'records_magnetic', 'observations']


def helper_of(part):
    import kapture.algo.compare as kcmp
    name = 'equal_' + part + ('_collections' if part in ('keypoints', 'descriptors', 'global_features', 'matches') else '')
    return getattr(kcmp, name)


def _call_helper(h, x, y):
    try:
        with warnings.catch_warnings():
            warnings.simplefilter('ignore')
            return 'T' if bool(helper_of(h)(x, y)) else 'F'
    except TypeError:
        return 'TypeError'
    except Exception:
        return 'Other'


def _compare(a, b, calls=()):
    from kapture.algo.compare import equal_kapture
    res = {}
    # the 18 helpers one by one on the parts of the two objects, both orders
    for name, (x, y) in (('pab', (a, b)), ('pba', (b, a))):
        res[name] = []
        for p in _PART_COQ:
            r = _call_helper(p, getattr(x, p), getattr(y, p))
            res[name].append(r == 'T')
            if r not in 'TF':
                res['helper_exc'] = 'equal_%s: %s' % (p, r)
    # direct helper calls, some with an object of another class (the error branch)
    res['calls'] = [[h, ca, cb, _call_helper(h, None if ca is None else getattr(a, ca), None if cb is None else getattr(b, cb))]
                    for h, ca, cb in calls]
    for name, (x, y) in (('ab', (a, b)), ('ba', (b, a))):
        try:
            with warnings.catch_warnings():
                warnings.simplefilter('ignore')
                res[name] = bool(equal_kapture(x, y))
        except Exception as e:      # an observed outcome, judged by the oracle
            res[name] = None
            res['exc'] = f'{type(e).__name__}: {e}'[:200]
    res['xa'], res['xb'] = extract(a), extract(b)
    if 'exc' in res:
        # keep the case encodable: the model never raises, so any boolean disagrees unless the oracle reports first
        res['ab'] = bool(res['ab'])
        res['ba'] = bool(res['ba'])
    return res


# ---- histories: mutations of the live objects through every method the containers offer
TWO_LEVEL = ['rigs', 'trajectories'] + list(FILE_RECORDS) + list(SIGNAL_RECORDS) + list(ARRAY_RECORDS)
ADD_HOWS = ['typed', 'typed_outer', 'update', 'update_typed', 'ior', 'setdefault', 'inner']
DEL_HOWS = ['typed_del', 'typed_del_outer', 'pop', 'inner_del', 'inner_pop', 'popitem', 'inner_clear']
SET_ADD_HOWS = ['add', 'update', 'ior', 'ixor']
SET_DEL_HOWS = ['discard', 'remove', 'isub', 'iand', 'ixor']


def _mkleaf(part, val):
    import kapture
    import kapture.core.Records as R
    if part in ('rigs', 'trajectories'):
        return _pose(val)
    if part in FILE_RECORDS:
        return val
    if part in ARRAY_RECORDS:
        return getattr(R, ARRAY_RECORDS[part][1])(**val)
    _, dcls, scls = SIGNAL_RECORDS[part]
    one = getattr(R, dcls)()
    for addr, fields in val:
        one[addr] = getattr(R, scls)(**fields)
    return one


def _apply_two_level(d, part, st):
    import operator
    how, k1, k2 = st['how'], st.get('k1'), st.get('k2')
    leaf = _mkleaf(part, st['val']) if 'val' in st else None
    if how == 'typed':
        d[k1, k2] = leaf
    elif how == 'typed_outer':
        d[k1] = {k2: leaf}
    elif how == 'update':
        d.update({k1: {k2: leaf}})
    elif how == 'update_typed':
        more = type(d)()
        more[k1, k2] = leaf
        d.update(more)
    elif how == 'ior':
        operator.ior(d, {k1: {k2: leaf}})
    elif how == 'setdefault':
        d.setdefault(k1, {})[k2] = leaf
    elif how == 'inner':
        d[k1][k2] = leaf
    elif how == 'typed_del':
        del d[k1, k2]
    elif how == 'typed_del_outer':
        del d[k1]
    elif how == 'pop':
        d.pop(k1)
    elif how == 'inner_del':
        del d[k1][k2]
    elif how == 'inner_pop':
        d[k1].pop(k2)
    elif how == 'popitem':
        d.popitem()
    elif how == 'inner_clear':
        d[k1].clear()
    elif how == 'pose_rescale':
        d[k1, k2].rescale(st['scale'])
    elif how == 'signal_inner':           # wifi / bluetooth: one signal of an existing record
        import kapture.core.Records as R
        d[k1][k2][st['k3']] = getattr(R, SIGNAL_RECORDS[part][2])(**st['val3'])
    elif how == 'signal_pop':
        d[k1][k2].pop(st['k3'])
    else:
        raise ValueError(how)


def _apply_set(sset, part, st):
    import operator
    how = st['how']
    items = [tuple(x) if isinstance(x, list) else x for x in st['items']]
    if how == 'add':
        for x in items:
            sset.add(*x) if part == 'matches' else sset.add(x)
    elif how == 'update':
        sset.update(items)
    elif how == 'ior':
        operator.ior(sset, set(items))
    elif how == 'ixor':
        operator.ixor(sset, set(items))
    elif how == 'discard':
        for x in items:
            sset.discard(x)
    elif how == 'remove':
        for x in items:
            sset.remove(x)
    elif how == 'isub':
        operator.isub(sset, set(items))
    elif how == 'iand':
        operator.iand(sset, set(sset) - set(items))
    elif how == 'clear':
        sset.clear()
    else:
        raise ValueError(how)


def _apply_mut(k, st):
    import operator
    import numpy as np
    import kapture
    part, how = st['part'], st['how']
    if part in TWO_LEVEL:
        return _apply_two_level(getattr(k, part), part, st)
    if part in FEATURES or part == 'matches':
        coll = getattr(k, part)
        if how == 'coll_set':
            sub = build({part: [[st['k1'], st['val']]]})
            coll[st['k1']] = getattr(sub, part)[st['k1']]
        elif how == 'coll_update':
            sub = build({part: [[st['k1'], st['val']]]})
            coll.update(getattr(sub, part))
        elif how == 'coll_pop':
            coll.pop(st['k1'])
        elif how == 'coll_del':
            del coll[st['k1']]
        else:
            _apply_set(coll[st['k1']], part, st)
        return
    if part == 'observations':
        o = k.observations
        pid, kt, img, idx = st.get('k1'), st.get('k2'), st.get('img'), st.get('idx')
        if how == 'add':
            o.add(pid, kt, img, idx)
        elif how == 'update':
            o.update({pid: {kt: [(img, idx)]}})
        elif how == 'ior':
            operator.ior(o, {pid: {kt: [(img, idx)]}})
        elif how == 'setdefault':
            o.setdefault(pid, {}).setdefault(kt, []).append((img, idx))
        elif how == 'inner_append':
            o[pid][kt].append((img, idx))
        elif how == 'inner_tuple_append':
            o[pid, kt].append((img, idx))
        elif how == 'list_insert_front':
            o[pid][kt].insert(0, (img, idx))
        elif how == 'pop':
            o.pop(pid)
        elif how == 'del':
            del o[pid]
        elif how == 'inner_del':
            del o[pid][kt]
        elif how == 'list_pop':
            o[pid][kt].pop()
        elif how == 'list_clear':
            o[pid][kt].clear()
        elif how == 'list_reverse':
            o[pid][kt].reverse()
        else:
            raise ValueError(how)
        return
    if part == 'sensors':
        sn = k.sensors
        if how in ('typed', 'update', 'ior', 'setdefault'):
            d = st['val']
            sensor = kapture.create_sensor(d['type'], list(d['params']), d['name'])
            if how == 'typed':
                sn[st['k1']] = sensor
            elif how == 'update':
                sn.update({st['k1']: sensor})
            elif how == 'ior':
                operator.ior(sn, {st['k1']: sensor})
            else:
                sn.setdefault(st['k1'], sensor)
        elif how == 'pop':
            sn.pop(st['k1'])
        elif how == 'del':
            del sn[st['k1']]
        elif how == 'attr_name':
            sn[st['k1']].name = st['name']
        elif how == 'param_inplace':
            sn[st['k1']].sensor_params[st['index']] = st['text']
        else:
            raise ValueError(how)
        return
    if part == 'points3d':
        if how == 'inplace':
            k.points3d[st['row'], st['col']] = st['value']
        elif how == 'append_row':
            k.points3d = kapture.Points3d(np.vstack([k.points3d.as_array(), np.array([st['rowvals']], dtype=float)]))
        elif how == 'drop_row':
            k.points3d = kapture.Points3d(np.delete(k.points3d.as_array(), st['row'], axis=0))
        else:
            raise ValueError(how)
        return
    raise ValueError(part)


def _queries(k):
    """read-only calls that may fill private caches of the containers; their results and errors are not judged here"""
    calls = []
    t = k.trajectories
    if t is not None:
        calls += [t.timestamps_sorted_list, t.timestamp_length, t.key_pairs, lambda: t.sensors_ids, lambda: len(t)]
        ts = sorted(t.keys())
        if len(ts) >= 2:
            sid = next(iter(t[ts[0]]))
            calls.append(lambda: t.intermediate_pose(ts[0] + 1, sid, 10 ** 9))
            calls.append(lambda: (ts[0], sid) in t)
    for p in list(FILE_RECORDS) + list(SIGNAL_RECORDS) + list(ARRAY_RECORDS):
        r = getattr(k, p)
        if r is not None:
            calls += [r.key_pairs, r.data_list, lambda r=r: r.sensors_ids, lambda r=r: len(r)]
    if k.rigs is not None:
        calls.append(k.rigs.key_pairs)
    if k.observations is not None:
        calls += [k.observations.key_pairs, k.observations.observations_number]
    if k.points3d is not None:
        calls += [k.points3d.has_colors, lambda: bool(k.points3d)]
    calls.append(lambda: k.cameras)
    calls.append(lambda: repr(k.trajectories) + repr(k.rigs) + repr(k.observations))
    for c in calls:
        try:
            c()
        except Exception:
            pass


def run_impl(case, ctx):
    import logging
    logging.disable(logging.CRITICAL)
    seed = case.get('seed', 0)
    a = _side(case['a'], case.get('a_via', 'build'), seed, ctx['tmp'])
    b = _side(case['b'], case.get('b_via', 'build'), seed + 1, ctx['tmp'])
    calls = case.get('calls', ())
    if 'steps' not in case:
        return _compare(a, b, calls)
    compares, last = [], 'start'
    for st in case['steps']:
        if st['op'] == 'compare':
            o = _compare(a, b, calls)
            o['after'] = last
            compares.append(o)
        elif st['op'] == 'query':
            for side in st.get('side', 'ab'):
                _queries(a if side == 'a' else b)
        else:
            last = '%s:%s' % (st['how'], st['part'])
            for side in st['side']:
                try:
                    _apply_mut(a if side == 'a' else b, st)
                except Exception as e:       # the mutation itself failed: not a comparison outcome; stop the history here
                    return {'compares': compares, 'mut_exc': f'{last}: {type(e).__name__}: {e}'[:200],
                            'ab': compares[-1]['ab'] if compares else True, 'ba': compares[-1]['ba'] if compares else True,
                            'xa': extract(a), 'xb': extract(b)}
    fin = compares[-1]
    return {'compares': compares, 'ab': fin['ab'], 'ba': fin['ba'], 'xa': fin['xa'], 'xb': fin['xb']}


# ---- what the CURRENT content of the two objects says, decided only when clear-cut (independent of the Coq model)
def _far(x, y):
    return abs(x - y) > 1e-3 * (1 + max(abs(x), abs(y)))


def _leaf_verdict(v, w):
    if v == w:
        return 'same'
    if v[0] != w[0]:
        return 'ne'
    t = v[0]
    if t == 'leaf':
        return 'ne'
    if t == 'feat':
        if v[1] != w[1] or {json.dumps(m) for m in v[2]} != {json.dumps(m) for m in w[2]}:
            return 'ne'
        return 'same'
    if t == 'set':
        return 'same' if {json.dumps(m) for m in v[1]} == {json.dumps(m) for m in w[1]} else 'ne'
    if t == 'bag':
        return 'same' if sorted(json.dumps(m) for m in v[1]) == sorted(json.dumps(m) for m in w[1]) else 'ne'
    if t == 'pose':
        (_, ra, ta), (_, rb, tb) = v, w
        if (ra is None) != (rb is None) or (ta is None) != (tb is None):
            return 'ne'
        if ta is not None and any(_far(x, y) for x, y in zip(ta, tb)):
            return 'ne'
        if ra is not None and min(max(abs(x - y) for x, y in zip(ra, rb)), max(abs(x + y) for x, y in zip(ra, rb))) > 1e-3:
            return 'ne'
        return 'unknown'
    if t == 'sensor':
        (_, na, ta, ma, ca, pa), (_, nb, tb, mb, cb, pb) = v, w
        if ta != tb or (na and nb and na != nb) or (bool(na) != bool(nb)):
            return 'ne'
        if ta in ('camera', 'depth'):
            if ma != mb or len(ca) != len(cb) or any(_far(x, y) for x, y in zip(ca, cb)):
                return 'ne'
            return 'unknown'
        return 'ne' if pa != pb else 'unknown'
    return 'unknown'


def content_expect(xa, xb):
    """'eq' / 'ne' when the two contents are clearly the same / clearly different, None when a tolerance decides"""
    unknown = False
    for p in _PART_COQ:
        pa, pb = xa.get(p), xb.get(p)
        if (pa is None) != (pb is None):
            return 'ne'
        if pa is None:
            continue
        if pa[0] == 'pts':
            if pa[1] != pb[1] or len(pa[2]) != len(pb[2]):
                return 'ne'
            for ra, rb in zip(pa[2], pb[2]):
                for x, y in zip(ra, rb):
                    if x != y:
                        if _far(x, y):
                            return 'ne'
                        unknown = True
            continue
        da = {json.dumps(key): val for key, val in pa[1]}
        db = {json.dumps(key): val for key, val in pb[1]}
        if set(da) != set(db):
            return 'ne'
        for key in da:
            r = _leaf_verdict(da[key], db[key])
            if r == 'ne':
                return 'ne'
            if r == 'unknown':
                unknown = True
    return None if unknown else 'eq'


def _judge(o, exp, what):
    if o.get('exc'):
        return f'equal_kapture raised on valid datasets [{what}]: ' + o['exc'].split(':')[0]
    if o['ab'] != o['ba']:
        return f'not symmetric: equal(a,b)={o["ab"]} but equal(b,a)={o["ba"]} [{what}]'
    if o.get('helper_exc'):
        return f'a helper raised on parts of valid datasets [{what}]: ' + o['helper_exc']
    for p, x, y in zip(_PART_COQ, o.get('pab', []), o.get('pba', [])):
        if x != y:
            return f'helper equal_{p} not symmetric [{what}]'
    for h, ca, cb, out in o.get('calls', []):
        own = (ca in (None, h)) and (cb in (None, h))
        if h in TYPED_HELPERS and not own:
            # an object of another class (None attributes are passed as None and are fine)
            xa, xb = o['xa'], o['xb']
            foreign = (ca not in (None, h) and xa.get(ca) is not None) or (cb not in (None, h) and xb.get(cb) is not None)
            if foreign and out in 'TF':
                return f'equal_{h} answers on an object of another class instead of raising TypeError'
        if own and out not in 'TF':
            return f'equal_{h} raised on objects of its own class: {out}'
    if exp == 'eq' and not o['ab']:
        if what in ('copy', 'reload', 'reorder', 'same-build'):
            return f'answers false for a dataset and its {what}'
        return f'answers false although the datasets have the same content [{what}]'
    if exp == 'ne' and o['ab']:
        return f'answers true although the datasets differ [{what}]'
    return None


def oracle(case, obs):
    """The property itself on the observed booleans: never raises, symmetric, true on copy / reload / reorder,
    false when the two sides differ by a mutation beyond tolerance.  Independent of the Coq model.
    In a history every comparison is judged against the content the two objects hold AT THAT MOMENT."""
    if 'steps' not in case:
        return _judge(obs, case.get('expect', 'any'), case.get('tag', '?'))
    for o in obs['compares']:
        sig = _judge(o, content_expect(o['xa'], o['xb']) or 'any', 'history, after ' + o['after'])
        if sig:
            return sig
    if obs.get('mut_exc'):
        return None         # a container refused the mutation: nothing to compare (kept visible in the distribution)
    return None


def nontrivial(case, obs):
    return case.get('tag') != 'same-build'


def classify(case, obs):
    tag = case.get('tag', '?').split(':')
    if tag[0] == 'helper-calls':
        outs = [c[3] for c in obs.get('calls', [])]
        return 'helper-calls -> %d TypeError / %d True / %d False%s' % (
            outs.count('TypeError'), outs.count('T'), outs.count('F'), ' / other!' if 'Other' in outs else '')
    if tag[0] == 'double':
        return 'double/%s -> %d helpers answer False' % (case.get('expect', 'any'), list(obs.get('pab', [])).count(False))
    if 'steps' in case:
        pat = ''.join('T' if o['ab'] else 'F' for o in obs['compares']) + ('!' if obs.get('mut_exc') else '')
        return 'history/%s -> %s' % (tag[1] if len(tag) > 1 else tag[0], pat)
    return '%s/%s -> %s%s' % (tag[0], case.get('expect', 'any'), 'T' if obs['ab'] else 'F', 'T' if obs['ba'] else 'F')


def describe(case, obs):
    diff = [p for p in _PART_COQ if obs['xa'].get(p) != obs['xb'].get(p)]
    d = {'tag': case.get('tag'), 'expect': case.get('expect'), 'a_via': case.get('a_via', 'build'),
         'b_via': case.get('b_via', 'build'), 'parts_that_differ': diff,
         'differing_part_a': {p: obs['xa'].get(p) for p in diff[:1]},
         'differing_part_b': {p: obs['xb'].get(p) for p in diff[:1]},
         'observed': {'equal(a,b)': obs['ab'], 'equal(b,a)': obs['ba'], 'exc': obs.get('exc')}}
    if 'steps' in case:
        d['steps'] = case['steps']
        d['observed'] = [{'after': o['after'], 'equal(a,b)': o['ab'], 'equal(b,a)': o['ba'], 'exc': o.get('exc'),
                          'content': content_expect(o['xa'], o['xb'])} for o in obs['compares']]
        d['mutation_refused'] = obs.get('mut_exc')
    return d


def shrink(case):
    """drop a part that is identical on both sides (keeps reference closure irrelevant: only build is needed),
    then fall back to plain builds; for a history also drop steps"""
    if case.get('a_via', 'build') != 'build' or case.get('b_via', 'build') != 'build':
        if case.get('expect') != 'eq':
            c = dict(case)
            c['a_via'] = c['b_via'] = 'build'
            yield c
        return
    used = {st.get('part') for st in case.get('steps', [])}
    if 'steps' in case:
        for i in range(len(case['steps']) - 1):
            c = dict(case)
            c['steps'] = case['steps'][:i] + case['steps'][i + 1:]
            if any(st['op'] == 'compare' for st in c['steps']):
                yield c
    for p in list(case['a']):
        if p in used:
            continue
        if p in case['b'] and case['a'][p] == case['b'][p] and case['a'][p] is not None:
            c = dict(case)
            c['a'] = {q: v for q, v in case['a'].items() if q != p}
            c['b'] = {q: v for q, v in case['b'].items() if q != p}
            yield c


# ------------------------------------------------------------------------------------------ generator
def _unit_quat(rng):
    while True:
        q = [rng.gauss(0, 1) for _ in range(4)]
        n = math.sqrt(sum(c * c for c in q))
        if n > 1e-3:
            q = [c / n for c in q]
            n = math.sqrt(sum(c * c for c in q))
            return [c / n for c in q]


def _qmul(a, b):
    w1, x1, y1, z1 = a
    w2, x2, y2, z2 = b
    return [w1 * w2 - x1 * x2 - y1 * y2 - z1 * z2, w1 * x2 + x1 * w2 + y1 * z2 - z1 * y2,
            w1 * y2 - x1 * z2 + y1 * w2 + z1 * x2, w1 * z2 + x1 * y2 - y1 * x2 + z1 * w2]


def _rotate(q, angle, rng):
    ax = [rng.gauss(0, 1) for _ in range(3)]
    n = math.sqrt(sum(c * c for c in ax)) or 1.0
    ax = [c / n for c in ax]
    dq = [math.cos(angle / 2)] + [math.sin(angle / 2) * c for c in ax]
    r = _qmul(q, dq)
    n = math.sqrt(sum(c * c for c in r))
    return [c / n for c in r]


def _shift(t, dist, rng):
    d = [rng.gauss(0, 1) for _ in range(3)]
    n = math.sqrt(sum(c * c for c in d)) or 1.0
    return [a + dist * c / n for a, c in zip(t, d)]


def _rpose(rng, full=True):
    r = _unit_quat(rng)
    t = [round(rng.uniform(-10, 10), rng.choice([0, 2, 6])) for _ in range(3)]
    if not full:
        k = rng.random()
        if k < 0.1:
            r = None
        elif k < 0.2:
            t = None
    return {'r': r, 't': t}


_NAMES = ['', 'a', 'left cam', 'kämera', 'カメラ', 'x' * 12]
_CAMS = {'SIMPLE_PINHOLE': 5, 'PINHOLE': 6, 'SIMPLE_RADIAL': 6, 'RADIAL': 7, 'OPENCV': 10, 'UNKNOWN_CAMERA': 2}


def _rcam(rng, model=None):
    model = model or rng.choice(sorted(_CAMS))
    n = _CAMS[model]
    vals = [float(rng.choice([640, 1920, 4000])), float(rng.choice([480, 1080, 3000]))]
    vals += [rng.choice([500.0, 1234.5678, 0.25 + rng.random() * 2000])]
    while len(vals) < n:
        vals.append(rng.choice([320.0, 239.5, -0.0123, 1e-4 * rng.random() + 1e-3, 7.5]))
    return [model] + [repr(v) for v in vals[:n]]


def gen_spec(rng, unicode_ids=False, cols=None):
    """a reference-closed dataset description with every one of the 18 parts present and non-empty"""
    sfx = 'é' if unicode_ids else ''
    cams = ['cam0' + sfx, 'cam1']
    sensors = []
    for c in cams:
        sensors.append([c, {'name': rng.choice(_NAMES + [None]), 'type': 'camera', 'params': _rcam(rng)}])
    sensors.append(['depth0', {'name': rng.choice(_NAMES + [None]), 'type': 'depth', 'params': _rcam(rng, 'PINHOLE')}])
    sensors.append(['lidar0', {'name': 'lidar', 'type': 'lidar', 'params': rng.choice([[], ['velodyne', '16']])}])
    sensors.append(['wifi0', {'name': None, 'type': 'wifi', 'params': []}])
    sensors.append(['bt0', {'name': 'bt', 'type': 'bluetooth', 'params': []}])
    sensors.append(['gnss0', {'name': 'gps', 'type': 'gnss', 'params': ['EPSG:4326']}])
    sensors.append(['acc0', {'name': None, 'type': 'accelerometer', 'params': []}])
    sensors.append(['gyro0', {'name': None, 'type': 'gyroscope', 'params': []}])
    sensors.append(['mag0', {'name': None, 'type': 'magnetic', 'params': []}])
    rng.shuffle(sensors)
    big = rng.choice([0, 0, 1_600_000_000_000_000_000])
    tss = sorted(rng.sample(range(0, 50), rng.choice([2, 3])))
    tss = [big + t for t in tss]
    rng.shuffle(tss)
    rigs = [['rig0', [[cams[0], _rpose(rng)], [cams[1], _rpose(rng)]]]]
    if rng.random() < 0.5:
        rigs.append(['rig1' + sfx, [['depth0', _rpose(rng)]]])
    traj = [[ts, [['rig0', _rpose(rng, full=False)]] + ([['lidar0', _rpose(rng)]] if rng.random() < 0.5 else [])] for ts in tss]
    images = []
    rc = []
    for ts in tss:
        row = []
        for c in cams:
            img = f'{c}/{ts % 1000:04d}{sfx}.jpg'
            images.append(img)
            row.append([c, img])
        rc.append([ts, row])
    rd = [[ts, [['depth0', f'depth0/{ts % 1000:04d}.depth']]] for ts in tss]
    rl = [[ts, [['lidar0', f'lidar0/{ts % 1000:04d}.pcd']]] for ts in tss[:2]]

    def f():
        return rng.choice([rng.uniform(-100, 100), float(rng.randint(-90, 90)), rng.uniform(-1, 1) * 1e-3, 0.0])
    wifi = [[ts, [['wifi0', [[f'aa:bb:cc:00:00:{i:02x}', {'frequency': rng.choice([2412, 5180]), 'rssi': f(),
                                                          'ssid': rng.choice(['net', '', 'café wifi']),
                                                          'scan_time_start': ts, 'scan_time_end': ts + rng.randint(0, 9)}]
                             for i in range(rng.choice([1, 2]))]]]] for ts in tss[:2]]
    bt = [[ts, [['bt0', [[f'11:22:33:44:55:{i:02x}', {'rssi': f(), 'name': rng.choice(['beacon', ''])}]
                         for i in range(rng.choice([1, 2]))]]]] for ts in tss[:2]]
    gnss = [[ts, [['gnss0', {'x': f(), 'y': f(), 'z': f(), 'utc': ts + 7, 'dop': abs(f())}]]] for ts in tss]
    acc = [[ts, [['acc0', {'x_accel': f(), 'y_accel': f(), 'z_accel': f()}]]] for ts in tss]
    gyro = [[ts, [['gyro0', {'x_speed': f(), 'y_speed': f(), 'z_speed': f()}]]] for ts in tss]
    mag = [[ts, [['mag0', {'x_strength': f(), 'y_strength': f(), 'z_strength': f()}]]] for ts in tss]
    ktypes = ['sift'] + (['orb' + sfx] if rng.random() < 0.6 else [])
    kp = [[t, {'type_name': t.upper(), 'dtype': rng.choice(['float32', 'float64', 'uint8']), 'dsize': rng.choice([2, 4, 6]),
               'members': sorted(rng.sample(images, rng.randint(2, len(images))))}] for t in ktypes]
    kp_members = {t: d['members'] for t, d in kp}
    desc = [[t + '_desc', {'type_name': t.upper(), 'dtype': rng.choice(['float32', 'uint8']), 'dsize': rng.choice([32, 128]),
                           'keypoints_type': t, 'metric_type': rng.choice(['L2', 'hamming']),
                           'members': sorted(rng.sample(kp_members[t], rng.randint(1, len(kp_members[t]))))}] for t in ktypes]
    gf = [['netvlad', {'type_name': 'NETVLAD', 'dtype': 'float32', 'dsize': rng.choice([256, 4096]), 'metric_type': 'L2',
                       'members': sorted(rng.sample(images, rng.randint(1, len(images))))}]]
    matches = []
    for t in ktypes:
        m = sorted(kp_members[t])
        pairs = [[m[i], m[j]] for i in range(len(m)) for j in range(i + 1, len(m))]
        matches.append([t, rng.sample(pairs, rng.randint(1, min(3, len(pairs))))])
    cols = cols or rng.choice([3, 6])
    npts = rng.choice([2, 3])
    rows = []
    for _ in range(npts):
        row = [rng.choice([rng.uniform(-50, 50), float(rng.randint(-5, 5)), rng.uniform(1, 2) * 1e-6]) for _ in range(3)]
        if cols == 6:
            row += [float(rng.randint(0, 255)) for _ in range(3)]
        rows.append(row)
    obs = []
    for pid in rng.sample(range(npts), rng.randint(1, npts)):
        per = []
        for t in rng.sample(ktypes, rng.randint(1, len(ktypes))):
            imgs = rng.sample(kp_members[t], rng.randint(1, min(3, len(kp_members[t]))))
            per.append([t, [[img, rng.randint(0, 99)] for img in imgs]])
        obs.append([pid, per])
    return {'sensors': sensors, 'rigs': rigs, 'trajectories': traj, 'records_camera': rc, 'records_depth': rd,
            'records_lidar': rl, 'records_wifi': wifi, 'records_bluetooth': bt, 'records_gnss': gnss,
            'records_accelerometer': acc, 'records_gyroscope': gyro, 'records_magnetic': mag,
            'keypoints': kp, 'descriptors': desc, 'global_features': gf, 'matches': matches,
            'observations': obs, 'points3d': {'cols': cols, 'rows': rows}}


RTOL, ATOL = 1e-5, 1e-8


def _num_variants(v, rng):
    """(label, new value, expectation) for a float compared with the isclose-based test"""
    v = float(v)
    out = [('beyond', v + max(abs(v) * 1e-3, 1e-3) * rng.choice([1, -1]), 'ne'),
           ('within', v + (ATOL + RTOL * abs(v)) * 0.3, 'any')]
    if abs(v) > 1e-3:
        d = (ATOL + RTOL * abs(v)) * (1 + 0.5e-5)
        out.append(('band', v + d if v > 0 else v - d, 'any'))
    return out


def _bump(v):
    """a different value of the same kind for a field compared exactly"""
    if isinstance(v, bool):
        return not v
    if isinstance(v, int):
        return v + 1
    if isinstance(v, float):
        return math.nextafter(v, math.inf)
    if isinstance(v, str):
        return v + 'x'
    raise TypeError(type(v))


def _fresh_ts(rows):
    return max([r[0] for r in rows] + [0]) + 3


def mutations(spec, rng):
    """yield (tag, mutated spec, expectation) — every kind of single-entry change in every part.
    expectation: 'ne' the datasets differ beyond tolerance, 'eq' same content, 'any' only symmetry is judged."""
    def mut(part):
        s = copy.deepcopy(spec)
        return s, s[part]

    for part in parts():
        s, _ = mut(part)
        s[part] = None
        yield f'absent:{part}', s, 'ne'
        s, _ = mut(part)
        s[part] = {'cols': spec['points3d']['cols'], 'rows': []} if part == 'points3d' else []
        yield f'emptied:{part}', s, 'ne'

    # ---- sensors
    p = 'sensors'
    i = rng.randrange(len(spec[p]))
    s, x = mut(p); del x[i]; yield f'remove:{p}', s, 'ne'
    s, x = mut(p); x.append(['new_sensor', {'name': 'n', 'type': 'lidar', 'params': []}]); yield f'add:{p}', s, 'ne'
    s, x = mut(p); x[i][0] = x[i][0] + '_renamed'; yield f'alter-id:{p}', s, 'ne'
    s, x = mut(p); x[i][1]['name'] = (x[i][1]['name'] or '') + 'z'; yield f'alter-name:{p}', s, 'ne'
    for j, (sid, d) in enumerate(spec[p]):
        if d['name'] in (None, ''):
            s, x = mut(p); x[j][1]['name'] = '' if d['name'] is None else None
            yield f'neutral-name-none-vs-empty:{p}', s, 'any'
            break
    cam_idx = [j for j, (sid, d) in enumerate(spec[p]) if d['type'] == 'camera']
    noncam_idx = [j for j, (sid, d) in enumerate(spec[p]) if d['type'] not in ('camera', 'depth')]
    j = rng.choice(cam_idx)
    s, x = mut(p); x[j][1]['type'] = 'depth'; yield f'alter-type-camera-to-depth:{p}', s, 'ne'
    model = spec[p][j][1]['params'][0]
    other = [m for m in _CAMS if _CAMS[m] == _CAMS[model] and m != model]
    if other:
        s, x = mut(p); x[j][1]['params'][0] = other[0]; yield f'alter-camera-model-same-arity:{p}', s, 'ne'
    s, x = mut(p)
    if model != 'UNKNOWN_CAMERA':
        x[j][1]['params'] = ['UNKNOWN_CAMERA'] + x[j][1]['params'][1:3]
    else:
        x[j][1]['params'] = ['SIMPLE_PINHOLE'] + x[j][1]['params'][1:3] + ['1.0', '2.0', '3.0']
    yield f'alter-camera-model-other-arity:{p}', s, 'ne'
    pi = rng.randrange(1, len(spec[p][j][1]['params']))
    for label, nv, exp in _num_variants(float(spec[p][j][1]['params'][pi]), rng):
        s, x = mut(p); x[j][1]['params'][pi] = repr(nv); yield f'alter-camera-param-{label}:{p}', s, exp
    s, x = mut(p); x[j][1]['params'][1] = str(int(float(x[j][1]['params'][1])))
    yield f'neutral-camera-param-int-vs-float-text:{p}', s, 'eq'
    j = rng.choice(noncam_idx)
    s, x = mut(p); x[j][1]['params'] = list(x[j][1]['params']) + ['extra']; yield f'alter-params-append:{p}', s, 'ne'
    s, x = mut(p); x[j][1]['type'] = 'odometry'; yield f'alter-type:{p}', s, 'ne'

    # ---- rigs / trajectories (poses)
    for p in ('rigs', 'trajectories'):
        i = rng.randrange(len(spec[p]))
        m = rng.randrange(len(spec[p][i][1]))
        full = [(a, b) for a, row in enumerate(spec[p]) for b, (sid, po) in enumerate(row[1])
                if po['r'] is not None and po['t'] is not None]
        s, x = mut(p); del x[i][1][m]
        if not x[i][1]:
            del x[i]
        yield f'remove:{p}', s, 'ne'
        s, x = mut(p); x[i][1].append(['gyro0', _rpose(rng)]); yield f'add-member:{p}', s, 'ne'
        s, x = mut(p)
        x.append(['rig_new' if p == 'rigs' else _fresh_ts(x), [['mag0', _rpose(rng)]]])
        yield f'add:{p}', s, 'ne'
        s, x = mut(p); x.append(['rig_empty' if p == 'rigs' else _fresh_ts(x), []])
        yield f'neutral-empty-inner:{p}', s, 'any'
        s, x = mut(p); x[i][1][m][0] = 'acc0'; yield f'alter-sensor-id:{p}', s, 'ne'
        s, x = mut(p); x[i][0] = (x[i][0] + '_r') if p == 'rigs' else _fresh_ts(x); yield f'alter-outer-key:{p}', s, 'ne'
        a, b = rng.choice(full)
        po = spec[p][a][1][b][1]
        for label, dist, exp in (('beyond', rng.choice([2e-5, 1e-3, 0.5]), 'ne'), ('within', rng.choice([4e-6, 1e-7]), 'any')):
            s, x = mut(p); x[a][1][b][1]['t'] = _shift(po['t'], dist, rng); yield f'alter-translation-{label}:{p}', s, exp
        for label, ang, exp in (('beyond', rng.choice([2e-5, 1e-3, 0.7, 3.0]), 'ne'), ('within', rng.choice([4e-6, 1e-8]), 'any')):
            s, x = mut(p); x[a][1][b][1]['r'] = _rotate(po['r'], ang, rng); yield f'alter-rotation-{label}:{p}', s, exp
        s, x = mut(p); x[a][1][b][1]['r'] = [-c for c in po['r']]; yield f'neutral-quaternion-negated:{p}', s, 'any'
        s, x = mut(p); x[a][1][b][1]['r'] = None; yield f'alter-rotation-to-none:{p}', s, 'ne'
        s, x = mut(p); x[a][1][b][1]['t'] = None; yield f'alter-translation-to-none:{p}', s, 'ne'

    # ---- records pointing to files
    for p in FILE_RECORDS:
        i = rng.randrange(len(spec[p]))
        s, x = mut(p); del x[i][1][-1]
        if not x[i][1]:
            del x[i]
        yield f'remove:{p}', s, 'ne'
        s, x = mut(p); x.append([_fresh_ts(x), [[x[i][1][0][0], 'new/file.bin']]]); yield f'add:{p}', s, 'ne'
        s, x = mut(p); x[i][1].append(['other_sensor', 'other/file.bin']); yield f'add-member:{p}', s, 'ne'
        s, x = mut(p); x[i][1][0][1] = x[i][1][0][1] + '.bak'; yield f'alter-path:{p}', s, 'ne'
        s, x = mut(p); x[i][0] = _fresh_ts(x); yield f'alter-timestamp:{p}', s, 'ne'
        s, x = mut(p); x[i][1][0][0] = x[i][1][0][0] + '_b'; yield f'alter-sensor-id:{p}', s, 'ne'
        s, x = mut(p); x.append([_fresh_ts(x), []]); yield f'neutral-empty-inner:{p}', s, 'any'

    # ---- wifi / bluetooth
    for p in SIGNAL_RECORDS:
        i = rng.randrange(len(spec[p]))
        sig0 = spec[p][i][1][0][1][0]
        s, x = mut(p); del x[i][1][0][1][0]
        yield (f'remove:{p}' if len(spec[p][i][1][0][1]) > 1 else f'remove-last-signal:{p}'), s, 'ne'
        s, x = mut(p); x[i][1][0][1].append(['ff:ff:ff:ff:ff:ff', copy.deepcopy(sig0[1])]); yield f'add:{p}', s, 'ne'
        s, x = mut(p); x.append([_fresh_ts(x), [[x[i][1][0][0], [copy.deepcopy(sig0)]]]]); yield f'add-timestamp:{p}', s, 'ne'
        s, x = mut(p); x[i][1][0][1][0][0] = 'ee:ee:ee:ee:ee:ee'; yield f'alter-address:{p}', s, 'ne'
        for field in sig0[1]:
            s, x = mut(p); x[i][1][0][1][0][1][field] = _bump(sig0[1][field]); yield f'alter-{field}:{p}', s, 'ne'
        s, x = mut(p); x.append([_fresh_ts(x), [[x[i][1][0][0], []]]]); yield f'neutral-empty-inner:{p}', s, 'any'

    # ---- gnss / accelerometer / gyroscope / magnetic
    for p in ARRAY_RECORDS:
        i = rng.randrange(len(spec[p]))
        rec0 = spec[p][i][1][0][1]
        s, x = mut(p); del x[i]; yield f'remove:{p}', s, 'ne'
        s, x = mut(p); x.append([_fresh_ts(x), copy.deepcopy(x[i][1])]); yield f'add:{p}', s, 'ne'
        s, x = mut(p); x[i][1].append(['second_sensor', copy.deepcopy(rec0)]); yield f'add-member:{p}', s, 'ne'
        for field in rec0:
            s, x = mut(p); x[i][1][0][1][field] = _bump(rec0[field]); yield f'alter-{field}:{p}', s, 'ne'
        s, x = mut(p); x[i][0] = _fresh_ts(x); yield f'alter-timestamp:{p}', s, 'ne'

    # ---- keypoints / descriptors / global features
    for p in FEATURES:
        i = rng.randrange(len(spec[p]))
        d0 = spec[p][i][1]
        s, x = mut(p); x[i][1]['members'] = x[i][1]['members'][1:]; yield f'remove-member:{p}', s, 'ne'
        s, x = mut(p); x[i][1]['members'] = x[i][1]['members'] + ['extra/image.jpg']; yield f'add-member:{p}', s, 'ne'
        s, x = mut(p); x[i][1]['members'] = x[i][1]['members'][1:] + ['extra/image.jpg']; yield f'replace-member:{p}', s, 'ne'
        nd = copy.deepcopy(d0); nd['members'] = []
        s, x = mut(p); x.append(['new_type', nd]); yield f'add-type-empty:{p}', s, 'ne'
        nd = copy.deepcopy(d0)
        s, x = mut(p); x.append(['new_type', nd]); yield f'add-type:{p}', s, 'ne'
        if len(spec[p]) > 1:
            s, x = mut(p); del x[i]; yield f'remove-type:{p}', s, 'ne'
        s, x = mut(p); x[i][0] = x[i][0] + '_v2'; yield f'alter-type-key:{p}', s, 'ne'
        for field in d0:
            if field == 'members':
                continue
            s, x = mut(p)
            x[i][1][field] = ('float16' if d0[field] != 'float16' else 'int32') if field == 'dtype' else _bump(d0[field])
            yield f'alter-{field}:{p}', s, 'ne'

    # ---- matches
    p = 'matches'
    i = rng.randrange(len(spec[p]))
    s, x = mut(p); del x[i][1][0]; yield (f'remove:{p}' if len(spec[p][i][1]) > 1 else f'remove-last-pair:{p}'), s, 'ne'
    s, x = mut(p); x[i][1].append(['extra/a.jpg', 'extra/b.jpg']); yield f'add:{p}', s, 'ne'
    s, x = mut(p); x[i][1][0] = [x[i][1][0][1], x[i][1][0][0]]; yield f'alter-pair-swapped:{p}', s, 'ne'
    s, x = mut(p); x.append(['new_type', [['a.jpg', 'b.jpg']]]); yield f'add-type:{p}', s, 'ne'
    s, x = mut(p); x.append(['new_type', []]); yield f'add-type-empty:{p}', s, 'ne'
    s, x = mut(p); x[i][0] = x[i][0] + '_v2'; yield f'alter-type-key:{p}', s, 'ne'

    # ---- observations
    p = 'observations'
    i = rng.randrange(len(spec[p]))
    lst0 = spec[p][i][1][0][1]
    s, x = mut(p); del x[i][1][0][1][0]
    yield (f'remove:{p}' if len(lst0) > 1 else f'remove-last-observation:{p}'), s, 'ne'
    s, x = mut(p); x[i][1][0][1].append(['extra/image.jpg', 5]); yield f'add:{p}', s, 'ne'
    s, x = mut(p); x[i][1][0][1].append(list(lst0[0])); yield f'add-duplicate:{p}', s, 'ne'
    s, x = mut(p); x[i][1][0][1][0][1] += 1; yield f'alter-keypoint-index:{p}', s, 'ne'
    s, x = mut(p); x[i][1][0][1][0][0] += '_b'; yield f'alter-image:{p}', s, 'ne'
    s, x = mut(p); x.append([max(r[0] for r in x) + 1, [['sift', [['img.jpg', 0]]]]]); yield f'add-point:{p}', s, 'ne'
    s, x = mut(p); x[i][1][0][0] += '_v2'; yield f'alter-keypoints-type:{p}', s, 'ne'
    s, x = mut(p); x[i][0] = max(r[0] for r in x) + 1; yield f'alter-point-id:{p}', s, 'ne'
    s, x = mut(p); x[i][1].append(['empty_type', []]); yield f'neutral-empty-inner:{p}', s, 'any'
    if len(lst0) > 1:
        s, x = mut(p); x[i][1][0][1].reverse(); yield f'neutral-list-reordered:{p}', s, 'eq'

    # ---- points3d
    p = 'points3d'
    rows = spec[p]['rows']
    cols = spec[p]['cols']
    i = rng.randrange(len(rows))
    s, x = mut(p); del x['rows'][i]; yield f'remove:{p}', s, 'ne'
    s, x = mut(p); x['rows'].append([1.5] * cols); yield f'add:{p}', s, 'ne'
    s, x = mut(p); x['rows'].insert(0, [1.5] * cols); yield f'add-first:{p}', s, 'ne'
    if len(rows) > 1 and rows[0] != rows[-1]:
        s, x = mut(p); x['rows'].reverse(); yield f'alter-order:{p}', s, 'ne'
    c = rng.randrange(3)
    for label, nv, exp in _num_variants(rows[i][c], rng):
        s, x = mut(p); x['rows'][i][c] = nv; yield f'alter-coordinate-{label}:{p}', s, exp
    if cols == 6:
        s, x = mut(p); x['rows'][i][3 + rng.randrange(3)] += 1.0; yield f'alter-colour:{p}', s, 'ne'
        s, x = mut(p); x['cols'] = 3; x['rows'] = [r[:3] for r in x['rows']]; yield f'alter-colours-dropped:{p}', s, 'ne'
    else:
        s, x = mut(p); x['cols'] = 6; x['rows'] = [r + [0.0, 0.0, 0.0] for r in x['rows']]; yield f'alter-colours-added:{p}', s, 'ne'


def _leafspec(part, rng, ts=0):
    """a fresh leaf description for a two-level dict part"""
    def f():
        return rng.choice([rng.uniform(-100, 100), float(rng.randint(-90, 90))])
    if part in ('rigs', 'trajectories'):
        return _rpose(rng)
    if part in FILE_RECORDS:
        return f'hist/{rng.randint(0, 9999):04d}.bin'
    if part == 'records_wifi':
        return [['ab:cd:ef:00:00:01', {'frequency': 2412, 'rssi': f(), 'ssid': 'h', 'scan_time_start': ts, 'scan_time_end': ts + 1}]]
    if part == 'records_bluetooth':
        return [['66:77:88:99:aa:bb', {'rssi': f(), 'name': 'h'}]]
    if part == 'records_gnss':
        return {'x': f(), 'y': f(), 'z': f(), 'utc': ts, 'dop': 1.5}
    names = {'records_accelerometer': 'accel', 'records_gyroscope': 'speed', 'records_magnetic': 'strength'}[part]
    return {f'{c}_{names}': f() for c in 'xyz'}


def histories(spec, rng):
    """yield (tag, steps): the two objects are queried and compared (which fills any cache), one side is then changed
    through ONE mutation path of the container, they are compared again, and (mostly) the other side receives the
    same change through the typed API before a last comparison.  Expectations come from the content at each comparison."""
    Q, C = {'op': 'query', 'side': 'ab'}, {'op': 'compare'}

    def hist(tag, mut, mirror=None, pre=()):
        side = rng.choice('ab')
        steps = [Q, C] + [dict(m, op='mut', side=side) for m in pre] + ([C] if pre else []) + [dict(mut, op='mut', side=side), C]
        if mirror is not None:
            steps += [dict(mirror, op='mut', side=('b' if side == 'a' else 'a')), C]
        return 'history:' + tag, steps

    for p in TWO_LEVEL:
        rows = spec[p]
        new1 = 'rig_hist' if p == 'rigs' else _fresh_ts(rows) + rng.randint(0, 5)
        i = rng.randrange(len(rows))
        k1, (k2, leaf0) = rows[i][0], rows[i][1][0]
        for how in ADD_HOWS:
            if how == 'inner':      # a second sensor under an existing outer key
                tgt1, tgt2 = k1, 'hist_sensor'
            else:
                tgt1, tgt2 = new1, 'hist_sensor' if rng.random() < 0.5 else k2
            val = _leafspec(p, rng, ts=0 if p == 'rigs' else _fresh_ts(rows))
            m = {'part': p, 'how': how, 'k1': tgt1, 'k2': tgt2, 'val': val}
            yield hist(f'{how}:{p}', m, mirror=dict(m, how='typed') if rng.random() < 0.7 else None)
        for how in DEL_HOWS:
            if p == 'rigs' and how == 'typed_del':
                continue            # Rigs offers no `del rigs[rig_id, sensor_id]`
            m = {'part': p, 'how': how, 'k1': k1, 'k2': k2}
            mirror = None
            if rng.random() < 0.5 and how != 'popitem':
                inner = 'inner_pop' if p == 'rigs' else 'typed_del'
                mirror = {'part': p, 'how': inner if how.startswith('inner') or how == 'typed_del' else 'typed_del_outer',
                          'k1': k1, 'k2': k2}
            yield hist(f'{how}:{p}', m, mirror=mirror)
        # alter an existing leaf (far beyond any tolerance) through three paths
        for how in ('typed', 'inner', 'update'):
            val = _leafspec(p, rng, ts=0 if p == 'rigs' else _fresh_ts(rows))
            yield hist(f'alter-{how}:{p}', {'part': p, 'how': how, 'k1': k1, 'k2': k2, 'val': val})
        # add then remove again through different paths: back to the same content
        val = _leafspec(p, rng, ts=0 if p == 'rigs' else _fresh_ts(rows))
        yield hist(f'setdefault-then-pop:{p}', {'part': p, 'how': 'pop', 'k1': new1},
                   pre=[{'part': p, 'how': 'setdefault', 'k1': new1, 'k2': 'hist_sensor', 'val': val}])
    for p in ('rigs', 'trajectories'):
        full = [(r[0], m[0]) for r in spec[p] for m in r[1] if m[1]['t'] is not None and any(abs(c) > 0.01 for c in m[1]['t'])]
        if full:
            k1, k2 = rng.choice(full)
            yield hist(f'pose_rescale:{p}', {'part': p, 'how': 'pose_rescale', 'k1': k1, 'k2': k2, 'scale': 2.0})
    for p in SIGNAL_RECORDS:
        ts, (sid, sigs) = spec[p][0][0], spec[p][0][1][0]
        fields = copy.deepcopy(sigs[0][1])
        fields['rssi'] = fields['rssi'] + 1.0
        yield hist(f'signal_inner-new:{p}', {'part': p, 'how': 'signal_inner', 'k1': ts, 'k2': sid, 'k3': '00:00:00:00:00:99', 'val3': fields})
        yield hist(f'signal_inner-alter:{p}', {'part': p, 'how': 'signal_inner', 'k1': ts, 'k2': sid, 'k3': sigs[0][0], 'val3': fields})
        yield hist(f'signal_pop:{p}', {'part': p, 'how': 'signal_pop', 'k1': ts, 'k2': sid, 'k3': sigs[0][0]})

    # ---- feature sets and matches (set subclasses inside a plain dict)
    for p in list(FEATURES) + ['matches']:
        t, d = spec[p][rng.randrange(len(spec[p]))]
        members = d['members'] if p != 'matches' else d
        fresh = ['hist/new.jpg'] if p != 'matches' else [['hist/a.jpg', 'hist/b.jpg']]
        for how in SET_ADD_HOWS:
            m = {'part': p, 'how': how, 'k1': t, 'items': fresh}
            yield hist(f'{how}-add:{p}', m, mirror=dict(m, how='add') if rng.random() < 0.7 else None)
        for how in SET_DEL_HOWS:
            m = {'part': p, 'how': how, 'k1': t, 'items': [members[0]]}
            yield hist(f'{how}-del:{p}', m, mirror=dict(m, how='discard') if rng.random() < 0.5 else None)
        yield hist(f'clear:{p}', {'part': p, 'how': 'clear', 'k1': t, 'items': []})
        nd = copy.deepcopy(d)
        for how in ('coll_set', 'coll_update'):
            m = {'part': p, 'how': how, 'k1': 'hist_type', 'val': nd}
            yield hist(f'{how}:{p}', m, mirror=dict(m, how='coll_set') if rng.random() < 0.5 else None)
        if len(spec[p]) > 1:
            yield hist(f'coll_pop:{p}', {'part': p, 'how': 'coll_pop', 'k1': t}, mirror={'part': p, 'how': 'coll_del', 'k1': t})

    # ---- observations
    p = 'observations'
    pid, per = spec[p][rng.randrange(len(spec[p]))]
    kt, lst = per[0]
    newpid = max(r[0] for r in spec[p]) + 2
    for how in ('add', 'update', 'ior', 'setdefault'):
        m = {'part': p, 'how': how, 'k1': newpid, 'k2': kt, 'img': 'hist/o.jpg', 'idx': 7}
        yield hist(f'{how}:{p}', m, mirror=dict(m, how='add') if rng.random() < 0.7 else None)
    for how in ('add', 'setdefault', 'inner_append', 'inner_tuple_append', 'list_insert_front'):
        m = {'part': p, 'how': how, 'k1': pid, 'k2': kt, 'img': 'hist/o.jpg', 'idx': 8}
        yield hist(f'{how}-existing:{p}', m, mirror=dict(m, how='add') if rng.random() < 0.7 else None)
    for how in ('pop', 'del', 'inner_del', 'list_pop', 'list_clear', 'list_reverse'):
        yield hist(f'{how}:{p}', {'part': p, 'how': how, 'k1': pid, 'k2': kt})

    # ---- sensors
    p = 'sensors'
    newsensor = {'name': 'h', 'type': 'lidar', 'params': ['x']}
    for how in ('typed', 'update', 'ior', 'setdefault'):
        m = {'part': p, 'how': how, 'k1': 'hist_sensor', 'val': newsensor}
        yield hist(f'{how}:{p}', m, mirror=dict(m, how='typed') if rng.random() < 0.7 else None)
    sid0 = spec[p][rng.randrange(len(spec[p]))][0]
    yield hist(f'pop:{p}', {'part': p, 'how': 'pop', 'k1': sid0}, mirror={'part': p, 'how': 'del', 'k1': sid0})
    yield hist(f'attr_name:{p}', {'part': p, 'how': 'attr_name', 'k1': sid0, 'name': 'renamed in place'})
    cam = [sid for sid, d in spec[p] if d['type'] == 'camera'][0]
    yield hist(f'param_inplace:{p}', {'part': p, 'how': 'param_inplace', 'k1': cam, 'index': 1, 'text': '123456.5'})

    # ---- points3d (a numpy array: edited in place, or replaced)
    p = 'points3d'
    cols = spec[p]['cols']
    yield hist(f'inplace:{p}', {'part': p, 'how': 'inplace', 'row': 0, 'col': rng.randrange(cols), 'value': 777.25})
    m = {'part': p, 'how': 'append_row', 'rowvals': [9.5] * cols}
    yield hist(f'append_row:{p}', m, mirror=m)
    yield hist(f'drop_row:{p}', {'part': p, 'how': 'drop_row', 'row': 0})


def _rcalls(rng, n):
    """n direct helper calls [helper, attribute of a passed first | None, attribute of b passed second | None]:
    own class / None / an object of another class (typed helpers only: the error branch of equal_nested_dict_or_set)"""
    allp = list(_PART_COQ)
    out = []
    for _ in range(n):
        if rng.random() < 0.75:
            h = rng.choice(TYPED_HELPERS)
            f, f2 = rng.sample([q for q in allp if q != h], 2)
            pat = rng.choice([(h, h), (h, None), (None, h), (None, None), (f, h), (h, f), (f, None), (None, f), (f, f2), (f, f),
                              (f, h), (h, f)])
        else:
            h = rng.choice([q for q in allp if q not in TYPED_HELPERS])
            pat = rng.choice([(h, h), (h, h), (h, None), (None, h), (None, None)])
        out.append([h, pat[0], pat[1]])
    return out


def _double(spec, m1, m2):
    """both mutations applied (when they touch different parts), so that more than one helper answers False"""
    p1 = {p for p in set(spec) | set(m1) if spec.get(p) != m1.get(p)}
    p2 = {p for p in set(spec) | set(m2) if spec.get(p) != m2.get(p)}
    if not p1 or not p2 or (p1 & p2):
        return None
    out = dict(m1)
    for p in p2:
        out[p] = m2.get(p)
    return out


def gen_cases(rng, tier):
    cases = _gen_cases(rng, tier)
    crng = kv.make_rng('C08', rng.randrange(1 << 30), 'calls')
    for c in cases:
        if 'calls' not in c:
            c['calls'] = _rcalls(crng, 2)
    return cases


def _gen_cases(rng, tier):
    global SHARD_SIZE
    n_bases = 4 if tier == 'quick' else 16
    SHARD_SIZE = 60 if tier == 'quick' else 240      # the shard header carries the named base datasets
    cases = []
    for bi in range(n_bases):
        spec = gen_spec(rng, unicode_ids=(bi % 3 == 2), cols=(6 if bi % 2 == 0 else 3))
        seed = rng.randrange(1 << 30)

        def mk(a, b, tag, expect, a_via='build', b_via='build'):
            cases.append({'a': a, 'b': b, 'a_via': a_via, 'b_via': b_via, 'seed': seed, 'tag': tag, 'expect': expect})
        mk(spec, spec, 'same-build', 'eq')
        mk(spec, spec, 'copy', 'eq', b_via='deepcopy')
        mk(spec, spec, 'copy', 'eq', a_via='deepcopy')
        mk(spec, spec, 'reload', 'eq', b_via='reload')
        mk(spec, spec, 'reload', 'eq', a_via='reload', b_via='deepcopy')
        mk(spec, spec, 'reorder', 'eq', b_via='shuffle')
        mk(spec, spec, 'reorder', 'eq', a_via='shuffle', b_via='reload')
        # datasets with some parts absent on both sides
        sub = {p: (v if rng.random() < 0.5 or p == 'sensors' else None) for p, v in spec.items()}
        mk(sub, sub, 'copy', 'eq', b_via='deepcopy')
        mk(sub, sub, 'reorder', 'eq', a_via='shuffle')
        for tag, mutated, expect in mutations(spec, rng):
            side = rng.choice('ab') if tier == 'quick' else 'both'
            r = rng.random()
            other = 'build' if r < 0.6 else ('deepcopy' if r < 0.75 else ('shuffle' if r < 0.9 else 'reload'))
            if side in ('a', 'both'):
                mk(mutated, spec, tag, expect, b_via=other)
            if side in ('b', 'both'):
                mk(spec, mutated, tag, expect, a_via=other)
        # two parts differ (the short-circuit of equal_kapture hides the second one: the helpers are observed one by one)
        muts = list(mutations(spec, rng))
        for _ in range(24 if tier == 'quick' else 96):
            (t1, m1, e1), (t2, m2, e2) = rng.sample(muts, 2)
            both = _double(spec, m1, m2)
            if both is None:
                continue
            exp = 'ne' if 'ne' in (e1, e2) else 'any'
            tag = 'double:%s+%s' % (t1.split(':')[-1], t2.split(':')[-1])
            if rng.random() < 0.5:
                mk(both, spec, tag, exp, b_via=rng.choice(['build', 'deepcopy', 'shuffle']))
            else:
                mk(m1, m2, tag, 'ne' if (e1 == 'ne' and e2 == 'ne') else 'any')
        # direct helper calls: own class / None / an object of another class, on equal and on differing datasets
        for j in range(6 if tier == 'quick' else 12):
            other = spec if j % 3 == 0 else (sub if j % 3 == 1 else rng.choice(muts)[1])
            pair = (spec, other) if j % 2 == 0 else (other, spec)
            cases.append({'a': pair[0], 'b': pair[1], 'a_via': 'build', 'b_via': 'build', 'seed': seed,
                          'tag': 'helper-calls', 'expect': 'any', 'calls': _rcalls(rng, 30)})
        # comparison histories on the same two live objects (every other base)
        if bi % 2 == 0:
            for tag, steps in histories(spec, rng):
                r = rng.random()
                vias = ('build', 'build') if r < 0.55 else (('deepcopy', 'build') if r < 0.7 else
                                                            (('reload', 'deepcopy') if r < 0.85 else ('shuffle', 'reload')))
                if rng.random() < 0.5:
                    vias = vias[::-1]
                cases.append({'a': spec, 'b': spec, 'a_via': vias[0], 'b_via': vias[1], 'seed': seed, 'tag': tag,
                              'steps': steps})
    return cases


TECHNIQUE = ('Coq proof (iff-characterisation of the comparison by extensional equality of the 18 parts up to the leaf closeness '
             'relations; reflexivity, symmetry, sensitivity to every single-entry mutation as corollaries; sorted-flatten comparison '
             'proved equivalent to map equality) over a Gallina model; differential correspondence on real kapture objects by '
             'vm_compute; tables of visited parts obtained by calling equal_kapture')
LEVEL_TEXT = ('Theorems in coq/Props/C08.v hold for all datasets satisfying the dict invariant (unique keys): equal a b = true iff every '
              'one of the 18 parts is present on both sides or on neither, has the same key set, and related leaves (exact for ids, '
              'paths, record fields, descriptor fields; set equality for feature members and match pairs; multiset equality for '
              'observation lists; pose_close / symmetric isclose for poses, camera parameters and 3-D points); hence equal is '
              'reflexive, symmetric, and false in both argument orders after any single add / remove / alter beyond tolerance in any '
              'part on either side. The walk of the model and the parts equal_kapture was observed to visit both cover '
              'Kapture.__init__ (regenerated table). The pre-repair behaviour is refuted by three computed witnesses. The answer depends only '
              'on the current content of both arguments (C08_equal_depends_on_content_only); the correspondence over comparison '
              'histories (mutations through typed and inherited methods between comparisons on the same objects) ties the code to it. '
              'equal is the conjunction of 18 helper answers, each symmetric and local to its part; the visiting order is irrelevant; '
              'the ten typed helpers raise TypeError exactly on a foreign class (regenerated table), equal_kapture never raises on '
              'datasets whose attributes hold their own class; the same write / removal on both sides preserves equality.')
LEVEL_NOTE = ('Trusted: Coq kernel + vm_compute; the harness builders / extractors / encoders; float64 evaluation of np.isclose, '
              'numpy.linalg.norm and quaternion.rotation_intrinsic_distance (modelled over Q, generator keeps away from the '
              'thresholds); unit quaternions; no NaN. The tolerance relations are not transitive, so "equality" is reflexive and '
              'symmetric but (inherently) not an equivalence on poses/points.')
