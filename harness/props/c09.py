"""C09 — merging with kept identifiers is a first-wins union that loses nothing.
Implementation under test: kapture.algo.merge_keep_ids.merge_keep_ids (library entry point) and
tools/kapture_merge.py merge_kaptures(keep_sensor_ids=True) (tool entry point), run on real directories."""
import hashlib
import io
import json
import logging
import os
import shutil
import tarfile
import traceback

import kv

ID = 'C09'
COQ_MODELS = ['MMergeKeep', 'MMergeKeepPts']
COQ_HEADER = 'From KV Require Import Eqb AL Str.\nFrom KV.Model Require Import MMergeKeep MMergeKeepPts.'
CASE_TYPE = 'MMergeKeepPts.casex'
CHECK_FN = 'MMergeKeepPts.check_casex'
SHARD_SIZE = 12
CASE_TIMEOUT = 60
RULE = ('case = 1..4 datasets over a small shared key universe (same key, different value in different inputs), input '
        'folders named so that the listing order is / is not the alphabetical order of their paths, record files stored as '
        'regular files / relative symlinks / absolute symlinks / chains of relative links, nested rigs (members '
        'that are rig ids, depth <= 3, ids mounted directly and through a sub-rig, shuffled insertion order), each of '
        'the 18 parts missing independently in each input (3-D points: absent / present but empty with 3 or 6 columns / '
        'Nx3 / Nx6, observations indexing them), a skip list, a transfer strategy, tar or folder '
        'storage per input/feature kind/type (tar members spelled as kapture writes them or as users pack a folder: '
        './x, folder members, /./, //), library or tool entry point. Enumerated: every singleton skip list on '
        'both entry points, every strategy x 1..3 inputs, every presence pattern of every part over 3 inputs (thorough; '
        'quick: over 2 inputs + first-missing patterns), metadata conflicts, missing files; plus random cases. '
        'Non-trivial = at least two inputs share a key with different values or a part is missing in the first '
        'input but present later; distinct = distinct case content.')
TRUSTED = ['kapture.io.csv readers/writers (kapture_to_dir, kapture_from_dir, *_from_file) are used to build the '
           'input directories and to read the tool\'s output back; their own correctness is properties C01/C02/C04',
           'host file system and tarfile (member read-back), numpy frombuffer/tofile preserving raw bytes']
ASSUMPTIONS = ['3-D points are a list, not a keyed table: the oracle compares the merged points with the inputs\' points as a '
               'multiset of (coordinates, observations of that point), i.e. up to a consistent renumbering; the Coq '
               'correspondence compares the rows in order. Observations of an input without points3d, and observations when '
               'points3d is in the skip list, designate nothing and are expected to be absent; a ValueError is accepted only '
               'when two NON-EMPTY inputs disagree on the number of columns (Nx3 with Nx6)',
               'tool entry point: observations only with keypoints and points3d loaded (kapture_from_dir asserts both), on '
               '(type, image) pairs of the input\'s keypoints (the loader filters the others); coordinates are dyadic so that '
               'the %.10f text form is exact',
               'root_link is not a per-file transfer and cannot express a union of several folders: the current code '
               'raises OSError on a fresh output directory; the model predicts that outcome and the oracle does not '
               'judge the output of such a run (inputs must still be unmodified)',
               'the output directory is fresh and different from every input directory',
               'a file name is listed by one record kind only (camera / depth / lidar use different names)',
               'tool entry point: sensor ids keep their sensor type across inputs and every referenced id is declared, '
               'so that kapture_from_dir does not filter records away; features only when records_camera is loaded '
               '(kapture_from_dir asserts records_camera is not None otherwise)',
               'wifi / bluetooth records with zero signals are not generated (flatten() yields nothing for them)',
               'with strategy move the input folders lose the moved record files by design; all other input files must '
               'stay byte-identical',
               'record files that are relative symlinks keep resolving after move only because input and output folders '
               'are siblings in the harness (shutil.move renames the link itself); the merge runs from a working '
               'directory that is neither an input nor the output folder']
EXHAUSTIVE = {'quick': False, 'thorough': False}

# ---------------------------------------------------------------------------------------------- vocabulary
PARTS = ['sensors', 'rigs', 'trajectories', 'records_camera', 'records_depth', 'records_lidar', 'records_wifi',
         'records_bluetooth', 'records_gnss', 'records_accelerometer', 'records_gyroscope', 'records_magnetic',
         'keypoints', 'descriptors', 'global_features', 'matches']
PO_PARTS = ['points3d', 'observations']
ALL_PARTS = PARTS + PO_PARTS
SKIPPABLE = PARTS[2:] + PO_PARTS
COQ_PART = {'sensors': 'PSensors', 'rigs': 'PRigs', 'trajectories': 'PTraj', 'records_camera': 'PRCam',
            'records_depth': 'PRDepth', 'records_lidar': 'PRLidar', 'records_wifi': 'PWifi', 'records_bluetooth': 'PBt',
            'records_gnss': 'PGnss', 'records_accelerometer': 'PAccel', 'records_gyroscope': 'PGyro',
            'records_magnetic': 'PMag', 'keypoints': 'PKp', 'descriptors': 'PDesc', 'global_features': 'PGf',
            'matches': 'PMatches', 'observations': 'PObs', 'points3d': 'PPoints'}
TPARTS = [('trajectories', 'TTraj'), ('records_gnss', 'TGnss'), ('records_accelerometer', 'TAccel'),
          ('records_gyroscope', 'TGyro'), ('records_magnetic', 'TMag')]
RPARTS = [('records_camera', 'RCam'), ('records_depth', 'RDepth'), ('records_lidar', 'RLidar')]
NPARTS = [('records_wifi', 'NWifi'), ('records_bluetooth', 'NBt')]
IPARTS = [('keypoints', 'IKp'), ('descriptors', 'IDesc'), ('global_features', 'IGf')]
STRATEGIES = ['skip', 'root_link', 'copy', 'move', 'link_absolute', 'link_relative']
COQ_STRATEGY = {'skip': 'SSkip', 'root_link': 'SRootLink', 'copy': 'SCopy', 'move': 'SMove',
                'link_absolute': 'SLinkAbs', 'link_relative': 'SLinkRel'}
FEAT_DIR = {'keypoints': 'reconstruction/keypoints', 'descriptors': 'reconstruction/descriptors',
            'global_features': 'reconstruction/global_features', 'matches': 'reconstruction/matches'}
FEAT_EXT = {'keypoints': '.kpt', 'descriptors': '.desc', 'global_features': '.gfeat', 'matches': '.matches'}
ITEMSIZE = {'float32': 4, 'float64': 8, 'int32': 4, 'uint8': 1}
SENSOR_OF = {'records_camera': 'cam', 'records_depth': 'dep', 'records_lidar': 'lid', 'records_wifi': 'wifi',
             'records_bluetooth': 'bt', 'records_gnss': 'gnss', 'records_accelerometer': 'acc',
             'records_gyroscope': 'gyr', 'records_magnetic': 'mag'}
SENSOR_TYPE = {'cam': 'camera', 'dep': 'depth', 'lid': 'lidar', 'wifi': 'wifi', 'bt': 'bluetooth', 'gnss': 'gnss',
               'acc': 'accelerometer', 'gyr': 'gyroscope', 'mag': 'magnetic'}
QUATS = [[1.0, 0.0, 0.0, 0.0], [0.0, 1.0, 0.0, 0.0], [0.5, 0.5, 0.5, 0.5], [0.5, -0.5, 0.5, -0.5]]


def _quiet():
    import warnings
    import kapture.utils.logging
    warnings.filterwarnings('ignore', message='loadtxt: input contained no data')
    warnings.filterwarnings('ignore', category=DeprecationWarning)
    kapture.utils.logging.getLogger().setLevel(logging.CRITICAL + 10)
    logging.getLogger('merge').setLevel(logging.CRITICAL + 10)
    logging.getLogger('kapture').setLevel(logging.CRITICAL + 10)


# ---------------------------------------------------------------------------------------------- generator
def _sensor_desc(rng, sid, i):
    kind = sid.rstrip('0123456789')
    st = SENSOR_TYPE[kind]
    if st in ('camera', 'depth'):
        return [st, f'{sid}-of-{i}', ['PINHOLE', 640 + i, 480, 500 + i, 500, 320, 240]]
    if st == 'gnss':
        return [st, f'{sid}-of-{i}', ['EPSG:4326']]
    return [st, f'{sid}-of-{i}', [] if rng.random() < 0.5 else [str(i)]]


def _pose(rng, i, salt):
    r = rng.choice(QUATS + [None]) if rng.random() < 0.15 else QUATS[(i + salt) % 4]
    t = None if rng.random() < 0.05 else [float(i + 1), float(salt), 0.5 * i]
    return [r, t]


IDS = {'cam': ['cam0', 'cam1'], 'dep': ['dep0'], 'lid': ['lid0'], 'wifi': ['wifi0'], 'bt': ['bt0'],
       'gnss': ['gnss0'], 'acc': ['acc0'], 'gyr': ['gyr0'], 'mag': ['mag0']}
ALL_IDS = [x for v in IDS.values() for x in v]
RIG_MEMBERS = [('rig0', ['rig1', 'cam0', 'cam1', 'dep0']), ('rig1', ['rig2', 'cam0', 'cam1', 'dep0']),
               ('rig2', ['cam0', 'cam1'])]
# names of the input folders, by listing position: the listing order is NOT always the alphabetical order of the paths
DIR_NAMINGS = {
    'listed': lambda n: [f'in{i}' for i in range(n)],
    'reversed': lambda n: [f'in{n - 1 - i}' for i in range(n)],
    'words': lambda n: ['z_first', 'm_second', 'b_third', 'a_fourth'][:n],
}
REC_NAMES = {'records_camera': ['c/img0.jpg', 'c/img1.jpg', 'img2.jpg', 'c/sub/img3.jpg'],
             'records_depth': ['d/m0.depth', 'd/m1.depth', 'm2.depth'],
             'records_lidar': ['l/p0.pcd', 'l/p1.pcd', 'p2.pcd']}
FTYPES = {'keypoints': ['sift', 'r2d2'], 'descriptors': ['sift', 'r2d2'], 'global_features': ['gem', 'apgem'],
          'matches': ['sift', 'r2d2']}
META = {('keypoints', 'sift'): ['SIFT', 'float32', 2], ('keypoints', 'r2d2'): ['r2d2', 'float64', 3],
        ('descriptors', 'sift'): ['SIFT', 'uint8', 8, 'sift', 'L2'], ('descriptors', 'r2d2'): ['r2d2', 'float32', 4, 'r2d2', 'L2'],
        ('global_features', 'gem'): ['gem', 'float32', 8, 'L2'], ('global_features', 'apgem'): ['apgem', 'float64', 2, 'cosine']}


def _gen_part(rng, part, i, dens, tool):
    """entries of one part of input i over the shared key universe; values carry the input index"""
    def keep():
        return rng.random() < dens
    ts_all = [0, 1, 2, 3]
    if part == 'sensors':
        ids = ALL_IDS if tool else [s for s in ALL_IDS if keep()]
        return {s: _sensor_desc(rng, s, i) for s in ids}
    if part == 'rigs':
        # nested rigs (a member may be a rig id, depth up to 3) with ids mounted both directly and through a sub-rig;
        # the entries are shuffled: the order of insertion (sub-rig before or after its parent) is part of the input
        out = [[rg, s, _pose(rng, i, j)] for rg, members in RIG_MEMBERS for j, s in enumerate(members) if keep()]
        rng.shuffle(out)
        return out
    if part == 'trajectories':
        return [[t, d, _pose(rng, i, t)] for t in ts_all for d in ('cam0', 'rig0', 'lid0') if keep()]
    if part in REC_NAMES:
        dev = IDS[SENSOR_OF[part]]
        names = REC_NAMES[part]
        out = []
        for t in ts_all:
            for d in dev:
                if keep():
                    # same key -> sometimes the same file name in every input, sometimes a per-input one
                    k = (t + len(d) + dev.index(d)) % len(names)
                    out.append([t, d, names[k] if rng.random() < 0.7 else names[(k + i + 1) % len(names)]])
        return out
    if part in ('records_wifi', 'records_bluetooth'):
        out = []
        for t in ts_all[:3]:
            d = IDS[SENSOR_OF[part]][0]
            sigs = [b for b in ('aa:01', 'aa:02', 'bb:03') if keep()]
            if sigs:
                if part == 'records_wifi':
                    out.append([t, d, [[b, [2400 + i, -40.5 - i, f'net{i}', t, t + 1]] for b in sigs]])
                else:
                    out.append([t, d, [[b, [-60.0 - i, f'dev{i}']] for b in sigs]])
        return out
    if part == 'records_gnss':
        return [[t, 'gnss0', [float(i), float(t), 0.25, 100 + i, 1.5]] for t in ts_all if keep()]
    if part in ('records_accelerometer', 'records_gyroscope', 'records_magnetic'):
        return [[t, IDS[SENSOR_OF[part]][0], [float(i), float(t), -0.5]] for t in ts_all if keep()]
    raise KeyError(part)


def _gen_input(rng, i, presence, tool, dens=None, tar_p=0.4):
    dens = dens if dens is not None else rng.choice([0.35, 0.6, 0.9])
    d = {}
    for part in PARTS[:12]:
        present = presence.get(part, True)
        d[part] = _gen_part(rng, part, i, dens, tool) if present else None
    if tool and d['sensors'] is None:
        d['sensors'] = _gen_part(rng, 'sensors', i, dens, tool)
    cam_names = sorted({n for _, _, n in (d['records_camera'] or [])})
    img_universe = cam_names if tool else REC_NAMES['records_camera']
    for kind in ('keypoints', 'descriptors', 'global_features'):
        if not presence.get(kind, True) or (tool and not cam_names):
            d[kind] = None
            continue
        coll = {}
        for ty in FTYPES[kind]:
            if rng.random() < 0.75:
                imgs = [n for n in img_universe if rng.random() < dens]
                coll[ty] = {'meta': list(META[(kind, ty)]), 'images': imgs, 'tar': rng.random() < tar_p}
                if coll[ty]['tar']:
                    coll[ty]['tar_style'] = rng.choice(TAR_STYLES + ['kapture'])
        d[kind] = coll
    if not presence.get('matches', True) or (tool and not cam_names):
        d['matches'] = None
    else:
        coll = {}
        for ty in FTYPES['matches']:
            if rng.random() < 0.75:
                prs = []
                for a in img_universe:
                    for b in img_universe:
                        if a < b and rng.random() < dens * 0.7:
                            prs.append([b, a] if (not tool and rng.random() < 0.15) else [a, b])
                if prs or not tool:
                    coll[ty] = {'pairs': prs, 'tar': rng.random() < tar_p}
                    if coll[ty]['tar']:
                        coll[ty]['tar_style'] = rng.choice(TAR_STYLES + ['kapture'])
        d['matches'] = coll
    d['missing_files'] = []
    d['rec_storage'] = rng.choice(['file', 'file', 'file', 'rel_link', 'rel_link', 'abs_link', 'chain'])
    return d


def _cloud(i, n, w):
    """n points of input i with w columns; dyadic coordinates (exact in the %.10f text form), colours 0..255"""
    return {'width': w, 'rows': [[float(i) + 0.5 * j, -1.25 * i, 0.125 * (j + 1)] + ([float(10 * i + j), 128.0, 255.0] if w == 6 else [])
                                 for j in range(n)]}


def _gen_observations(rng, d, npts, tool, dens=0.6):
    """observations of the points 0..npts-1 of one input: (point, keypoints type, image, keypoint)"""
    if tool:
        universe = [(ty, img) for ty, f in sorted((d['keypoints'] or {}).items()) for img in f['images']]
    else:
        universe = [(ty, img) for ty in FTYPES['keypoints'] for img in REC_NAMES['records_camera'][:3]]
    out = []
    for pt in range(npts):
        for ty, img in universe:
            if rng.random() < dens * 0.5:
                out.append([pt, ty, img, rng.randint(0, 3)])
    if out and rng.random() < 0.2:
        out.append(list(rng.choice(out)))           # the same observation recorded twice
    rng.shuffle(out)
    return out


def _gen_points(rng, ins, presences, tool, w=None, p_empty=0.2, p_conflict=0.04):
    """points3d / observations of every input of a case: one column count per case (a rare other one = conflict);
    a present points3d is sometimes EMPTY, with either column count (kapture.Points3d() is 0x6)"""
    w = w or rng.choice([3, 6])
    for i, d in enumerate(ins):
        pres = presences[i] if presences else {}
        d['points3d'] = d['observations'] = None
        if pres['points3d'] if 'points3d' in pres else rng.random() < 0.85:
            if rng.random() < p_empty:
                d['points3d'] = _cloud(i, 0, rng.choice([3, 6]))
            else:
                d['points3d'] = _cloud(i, rng.randint(1, 3), (9 - w) if rng.random() < p_conflict else w)
        if pres['observations'] if 'observations' in pres else rng.random() < 0.75:
            if d['points3d'] is not None:
                d['observations'] = _gen_observations(rng, d, len(d['points3d']['rows']), tool)
            elif not tool and rng.random() < 0.3:
                d['observations'] = _gen_observations(rng, d, 2, tool)      # observations of no point at all
    return ins


def _mk(cases, mode, inputs, skip, strategy, has_out=True, origin=None, naming=None):
    c = {'mode': mode, 'inputs': inputs, 'skip': list(skip), 'strategy': strategy, 'has_out': has_out}
    if naming is None:                       # deterministic rotation over the namings, no extra random draw
        naming = sorted(DIR_NAMINGS)[len(cases) % len(DIR_NAMINGS)]
    c['dir_names'] = DIR_NAMINGS[naming](len(inputs))
    if origin:
        c['_kind'] = origin
    cases.append(c)


def _tool_safe(case):
    """the tool's loader asserts records_camera is loaded whenever a feature folder exists"""
    if case['mode'] != 'tool':
        return case
    if 'records_camera' in case['skip']:
        for d in case['inputs']:
            for k in ('keypoints', 'descriptors', 'global_features', 'matches'):
                d[k] = None
    for d in case['inputs']:
        if d['records_camera'] is None:
            for k in ('keypoints', 'descriptors', 'global_features', 'matches'):
                d[k] = None
    # kapture_from_dir asserts keypoints and points3d are loaded whenever an observations file is loaded, and filters
    # the observations by the loaded keypoints
    no_obs = ('keypoints' in case['skip'] or 'points3d' in case['skip']) and 'observations' not in case['skip']
    for d in case['inputs']:
        if d.get('observations') is None:
            continue
        if no_obs or d.get('points3d') is None or not d['keypoints']:
            d['observations'] = None
        else:
            d['observations'] = [o for o in d['observations']
                                 if o[1] in d['keypoints'] and o[2] in d['keypoints'][o[1]]['images']]
    return case


def gen_cases(rng, tier):
    cases = []
    big = tier != 'quick'

    def inputs(n, tool, presences=None, dens=None):
        tar_p = rng.choice([0.0, 0.4, 0.4, 1.0])          # all folders / mixed / all tar archives
        ins = [_gen_input(rng, i, (presences[i] if presences else {}), tool, dens, tar_p) for i in range(n)]
        return _gen_points(rng, ins, presences, tool)

    # 1. every singleton skip list, both entry points, overlapping inputs
    for s in SKIPPABLE:
        for mode in ('lib', 'tool'):
            _mk(cases, mode, inputs(2, mode == 'tool', dens=0.8), [s], 'copy', origin='skip1')
    # 2. every strategy x number of inputs, both entry points
    for st in STRATEGIES:
        for n in (1, 2, 3):
            for mode in ('lib', 'tool'):
                if mode == 'tool' and n == 3 and not big:
                    continue
                _mk(cases, mode, inputs(n, mode == 'tool', dens=0.7), [], st, origin='strategy')
    # 1'. points3d / observations in the skip list, alone and together (either order, with another name), both entry
    #     points: points3d skipped -> both absent; observations skipped -> the points alone
    for skip in (['points3d', 'observations'], ['observations', 'points3d'], ['matches', 'points3d', 'observations'],
                 ['observations'], ['trajectories', 'points3d']):
        for mode in ('lib', 'tool'):
            ins = inputs(2, mode == 'tool', dens=0.8)
            for i, d in enumerate(ins):
                d['points3d'] = d['points3d'] or _cloud(i, 2, 3)
            _mk(cases, mode, ins, skip, 'copy', origin='skip-points')
    # 1''. a points3d part that is present but EMPTY (what the import of an empty reconstruction writes; Points3d() is
    #      0x6), at every position among inputs with Nx3 / Nx6 points: it contributes nothing and imposes nothing
    layouts = ['PE', 'EP', 'PEP', 'EeP', 'PPE', 'Ee', 'PNE']
    for li, layout in enumerate(layouts if big else layouts):
        for w in (3, 6):
            for e in (3, 6):
                if (e == w and layout not in ('PE', 'PEP')) or (not big and e == w):
                    continue
                for mode in ('lib', 'tool'):
                    ins = inputs(len(layout), mode == 'tool', dens=0.5)
                    for i, (d, ch) in enumerate(zip(ins, layout)):
                        d['points3d'] = {'P': _cloud(i, 1 + (i + li) % 3, w), 'E': _cloud(i, 0, e),
                                         'e': _cloud(i, 0, 9 - e), 'N': None}[ch]
                        d['observations'] = None
                        if ch == 'P' and rng.random() < 0.8:
                            d['observations'] = _gen_observations(rng, d, len(d['points3d']['rows']), mode == 'tool')
                    skip = ['observations'] if (li + w + e + (mode == 'tool')) % 3 == 0 else []
                    _mk(cases, mode, ins, skip, 'skip', origin='empty-points-' + layout)
    # 1'''. two non-empty inputs that disagree on the number of columns: not mergeable (ValueError), unless skipped
    for skip in ([], ['observations'], ['points3d']):
        ins = inputs(3, False, dens=0.4)
        for i, d in enumerate(ins):
            d['points3d'] = _cloud(i, 2, 3 if i != 1 else 6)
        _mk(cases, 'lib', ins, skip, 'skip', origin='points-column-conflict')
    # 3. presence patterns of each part
    for part in ALL_PARTS:
        pats = ([(a, b, c) for a in (0, 1) for b in (0, 1) for c in (0, 1)] if big
                else [(0, 0), (0, 1), (1, 0), (0, 1, 1), (0, 0, 1)])
        for pat in pats:
            mode = 'tool' if (part != 'sensors' and rng.random() < 0.3) else 'lib'
            pres = [{part: bool(x)} for x in pat]
            _mk(cases, mode, inputs(len(pat), mode == 'tool', pres, dens=0.8), [], rng.choice(['copy', 'skip', 'link_relative']),
                origin='presence')
    # 4. metadata conflicts between inputs (assertion error expected), missing files
    for kind in ('keypoints', 'descriptors', 'global_features'):
        for field in (range(len(META[(kind, FTYPES[kind][0])])) if big else (1, 2)):
            ins = inputs(2, False, dens=0.9)
            ty = FTYPES[kind][0]
            for d in ins:
                d[kind] = d[kind] or {}
                d[kind].setdefault(ty, {'meta': list(META[(kind, ty)]), 'images': ['c/img0.jpg'], 'tar': False})
            m = ins[1][kind][ty]['meta']
            m[field] = (m[field] + 1) if isinstance(m[field], int) else ('float64' if m[field] == 'float32' else m[field] + 'x')
            if field == 1 and m[1] not in ITEMSIZE:
                m[1] = 'float64' if META[(kind, ty)][1] != 'float64' else 'float32'
            _mk(cases, 'lib', ins, [], 'skip', origin='meta-conflict')
            _mk(cases, 'lib', [dict(x) for x in ins], [kind], 'skip', origin='meta-conflict-skipped')
    for st in ('copy', 'move', 'link_absolute', 'skip'):
        ins = inputs(2, False, dens=0.9)
        names = [n for _, _, n in (ins[0]['records_camera'] or [])]
        if names:
            ins[0]['missing_files'] = ['sensors/records_data/' + names[0]]
        _mk(cases, 'lib', ins, [], st, origin='missing-record-file')
    # 5. no output directory (classes are filled, nothing is copied)
    for n in (1, 2, 3):
        _mk(cases, 'lib', inputs(n, False), [], 'skip', has_out=False, origin='no-output')
    # 5a. the tool must merge in the order the inputs are LISTED, whatever their folder names
    for naming in ('reversed', 'words'):
        for n in (2, 3):
            _mk(cases, 'tool', inputs(n, True, dens=0.9), [], 'copy', origin='listing-order', naming=naming)
    # 5a'. nested rigs: an id mounted through a sub-rig and directly, across inputs and within one input,
    #      sub-rig inserted before / after its parent; presence of (rig, member) depends on that pair only
    I4 = QUATS[0]
    nested = {
        'across': [[['rig0', 'rig1', [I4, [1.0, 0.0, 0.0]]], ['rig1', 'cam0', [I4, [2.0, 0.0, 0.0]]]],
                   [['rig0', 'cam0', [I4, [3.0, 0.0, 0.0]]], ['rig1', 'cam0', [I4, [4.0, 0.0, 0.0]]]]],
        'across-direct-first': [[['rig0', 'cam0', [I4, [3.0, 0.0, 0.0]]]],
                                [['rig1', 'cam0', [I4, [2.0, 0.0, 0.0]]], ['rig0', 'rig1', [I4, [1.0, 0.0, 0.0]]],
                                 ['rig0', 'cam0', [I4, [5.0, 0.0, 0.0]]]]],
        'within-subrig-first': [[['rig1', 'cam0', [I4, [2.0, 0.0, 0.0]]], ['rig0', 'rig1', [I4, [1.0, 0.0, 0.0]]],
                                 ['rig0', 'cam0', [I4, [3.0, 0.0, 0.0]]]]],
        'within-parent-first': [[['rig0', 'rig1', [I4, [1.0, 0.0, 0.0]]], ['rig0', 'cam0', [I4, [3.0, 0.0, 0.0]]],
                                 ['rig1', 'cam0', [I4, [2.0, 0.0, 0.0]]]]],
        'depth3': [[['rig2', 'cam0', [I4, [2.0, 0.0, 0.0]]], ['rig1', 'rig2', [I4, [1.0, 0.0, 0.0]]],
                    ['rig0', 'rig1', [I4, [0.0, 1.0, 0.0]]]],
                   [['rig0', 'cam0', [I4, [3.0, 0.0, 0.0]]], ['rig1', 'cam0', [I4, [6.0, 0.0, 0.0]]]]],
    }
    for name, rig_lists in nested.items():
        for mode in ('lib', 'tool'):
            ins = inputs(len(rig_lists), mode == 'tool', dens=0.5)
            for d, rg in zip(ins, rig_lists):
                d['rigs'] = json.loads(json.dumps(rg))
            _mk(cases, mode, ins, [], 'skip', origin='nested-rigs-' + name)
    # 5a''. inputs whose record files are symlinks (left by an earlier import / merge with a link strategy): relative,
    #       absolute, chains; every strategy; the content read through the output path must be the source content
    for storage in REC_STORAGES[1:]:
        for st in STRATEGIES:
            modes = ('lib', 'tool') if st in ('link_absolute', 'link_relative') else ('lib',)
            for mode in modes:
                ins = inputs(2, mode == 'tool', dens=0.8)
                ins[0]['rec_storage'] = storage
                ins[1]['rec_storage'] = storage if st != 'copy' else 'file'
                _mk(cases, mode, ins, [], st, origin='linked-record-files')
    # 5a'''. tar archives packed by users (`tar -cf keypoints.tar -C folder .`): member names spelled ./x, with folder
    #        members, with /./ or //; every feature kind; the files must come out byte-identical
    for style in TAR_STYLES[1:]:
        for mode in ('lib', 'tool'):
            ins = inputs(2, mode == 'tool', dens=0.9)
            for d in ins:
                for kind in FEAT_DIR:
                    for f in (d[kind] or {}).values():
                        f['tar'] = True
                        f['tar_style'] = style
            _mk(cases, mode, ins, [], 'copy', origin='user-packed-tar')
    # 5b. the same dataset given twice: the union is the dataset itself
    for st in ('copy', 'move'):
        one = inputs(1, False, dens=0.8)
        _mk(cases, 'lib', [one[0], json.loads(json.dumps(one[0]))], [], st, origin='same-twice')
    # 6. random
    n_rand = 110 if not big else 1200
    for _ in range(n_rand):
        mode = 'tool' if rng.random() < 0.4 else 'lib'
        n = rng.choice([1, 2, 2, 3, 3, 4])
        p_missing = rng.choice([0.0, 0.2, 0.5])
        pres = [{p: rng.random() >= p_missing for p in ALL_PARTS} for _ in range(n)]
        r = rng.random()
        if r < 0.35:
            skip = []
        elif r < 0.6:
            skip = [rng.choice(SKIPPABLE)]
        else:
            skip = rng.sample(SKIPPABLE, rng.randint(2, rng.choice([3, 6, len(SKIPPABLE)])))
        st = rng.choice(STRATEGIES if rng.random() < 0.8 else ['copy'])
        has_out = True
        if mode == 'lib' and st == 'skip' and rng.random() < 0.15:
            has_out = False
        _mk(cases, mode, inputs(n, mode == 'tool', pres), skip, st, has_out=has_out, origin='random')
    return [_tool_safe(c) for c in cases]


# ---------------------------------------------------------------------------------------------- building inputs
def _content(i, rel, unit):
    h = hashlib.sha256(f'{i}|{rel}'.encode()).digest()
    n = unit * (1 + h[0] % 3)
    return (h * (n // len(h) + 1))[:n]


def _np_dtype(name):
    import numpy as np
    return getattr(np, name)


def _build_kapture(d):
    import kapture
    k = kapture.Kapture()
    P = kapture.PoseTransform
    if d['sensors'] is not None:
        k.sensors = kapture.Sensors()
        for sid, (st, name, params) in d['sensors'].items():
            k.sensors[sid] = kapture.create_sensor(st, list(params), name)
    if d['rigs'] is not None:
        k.rigs = kapture.Rigs()
        for rg, s, (r, t) in d['rigs']:
            k.rigs[rg, s] = P(r, t)
    if d['trajectories'] is not None:
        k.trajectories = kapture.Trajectories()
        for ts, dev, (r, t) in d['trajectories']:
            k.trajectories[ts, dev] = P(r, t)
    for part, cls in (('records_camera', kapture.RecordsCamera), ('records_depth', kapture.RecordsDepth),
                      ('records_lidar', kapture.RecordsLidar)):
        if d[part] is not None:
            rec = cls()
            for ts, dev, name in d[part]:
                rec[ts, dev] = name
            setattr(k, part, rec)
    if d['records_wifi'] is not None:
        k.records_wifi = kapture.RecordsWifi()
        for ts, dev, sigs in d['records_wifi']:
            r = kapture.RecordWifi()
            for b, v in sigs:
                r[b] = kapture.RecordWifiSignal(*v)
            k.records_wifi[ts, dev] = r
    if d['records_bluetooth'] is not None:
        k.records_bluetooth = kapture.RecordsBluetooth()
        for ts, dev, sigs in d['records_bluetooth']:
            r = kapture.RecordBluetooth()
            for b, v in sigs:
                r[b] = kapture.RecordBluetoothSignal(*v)
            k.records_bluetooth[ts, dev] = r
    for part, cls, rcls in (('records_gnss', kapture.RecordsGnss, kapture.RecordGnss),
                            ('records_accelerometer', kapture.RecordsAccelerometer, kapture.RecordAccelerometer),
                            ('records_gyroscope', kapture.RecordsGyroscope, kapture.RecordGyroscope),
                            ('records_magnetic', kapture.RecordsMagnetic, kapture.RecordMagnetic)):
        if d[part] is not None:
            rec = cls()
            for ts, dev, v in d[part]:
                rec[ts, dev] = rcls(*v)
            setattr(k, part, rec)
    if d['keypoints'] is not None:
        k.keypoints = {ty: kapture.Keypoints(f['meta'][0], _np_dtype(f['meta'][1]), f['meta'][2], list(f['images']))
                       for ty, f in d['keypoints'].items()}
    if d['descriptors'] is not None:
        k.descriptors = {ty: kapture.Descriptors(f['meta'][0], _np_dtype(f['meta'][1]), f['meta'][2], f['meta'][3],
                                                 f['meta'][4], list(f['images']))
                         for ty, f in d['descriptors'].items()}
    if d['global_features'] is not None:
        k.global_features = {ty: kapture.GlobalFeatures(f['meta'][0], _np_dtype(f['meta'][1]), f['meta'][2],
                                                        f['meta'][3], list(f['images']))
                             for ty, f in d['global_features'].items()}
    if d['matches'] is not None:
        k.matches = {ty: kapture.Matches([tuple(p) for p in f['pairs']]) for ty, f in d['matches'].items()}
    if d.get('points3d') is not None:
        import numpy as np
        pd = d['points3d']
        k.points3d = kapture.Points3d(np.array(pd['rows'], dtype=np.float64).reshape((-1, pd['width'])))
    if d.get('observations') is not None:
        k.observations = kapture.Observations()
        for pt, ty, img, kp in d['observations']:
            k.observations.add(pt, ty, img, kp)
    return k


def _write(path, data):
    os.makedirs(os.path.dirname(path), exist_ok=True)
    with open(path, 'wb') as f:
        f.write(data)


REC_STORAGES = ['file', 'rel_link', 'abs_link', 'chain']
# how the members of a tar-stored feature folder are spelled: as kapture writes them, or as users pack a folder
TAR_STYLES = ['kapture', 'dot', 'dotdir', 'dotslash', 'dslash']


def _tar_spelling(member, style):
    """same member, other spelling of its name (kapture's readers normalise member names)"""
    if style == 'kapture':
        return member
    if style in ('dot', 'dotdir'):
        return './' + member
    if style == 'dotslash':
        return './' + member.replace('/', '/./', 1) if '/' in member else '././' + member
    if style == 'dslash':
        return member.replace('/', '//', 1) if '/' in member else './/' + member
    raise ValueError(style)


def _write_record(path, data, storage, base, i, name):
    """a record file of input i: a regular file, or (what an earlier import / merge with a link strategy leaves) a
    relative symlink, an absolute symlink, or a chain relative link -> relative link -> file.  The real file
    lives in a folder of its own (base/origin<i>), outside every input and output folder."""
    if storage == 'file' or os.path.exists(path) or os.path.islink(path):
        if not os.path.islink(path):
            _write(path, data)
        return
    origin = os.path.join(base, f'origin{i}', 'files', name)
    _write(origin, data)
    os.makedirs(os.path.dirname(path), exist_ok=True)
    if storage == 'abs_link':
        os.symlink(origin, path)
    elif storage == 'rel_link':
        os.symlink(os.path.relpath(origin, os.path.dirname(path)), path)
    elif storage == 'chain':
        mid = os.path.join(base, f'origin{i}', 'older_merge', 'sensors', 'records_data', name)
        os.makedirs(os.path.dirname(mid), exist_ok=True)
        os.symlink(os.path.relpath(origin, os.path.dirname(mid)), mid)
        os.symlink(os.path.relpath(mid, os.path.dirname(path)), path)
    else:
        raise ValueError(storage)


def _build_dir(d, i, root):
    """writes the csv files with kapture's own writer and the data files; returns (kapture object, store)"""
    from kapture.io.csv import kapture_to_dir
    os.makedirs(os.path.join(root, 'sensors'))      # the record writers do not create their folder
    k = _build_kapture(d)
    kapture_to_dir(root, k)
    missing = set(d.get('missing_files') or [])
    store = {'rec': {}, 'keypoints': {}, 'descriptors': {}, 'global_features': {}, 'matches': {}}
    for part in REC_NAMES:
        for _, _, name in (d[part] or []):
            rel = 'sensors/records_data/' + name
            if rel in missing:
                continue
            data = _content(i, rel, 1)
            _write_record(os.path.join(root, rel), data, d.get('rec_storage') or 'file', os.path.dirname(root), i, name)
            store['rec'][name] = hashlib.sha1(data).hexdigest()[:12]     # the content reachable under that name
    for kind in ('keypoints', 'descriptors', 'global_features', 'matches'):
        for ty, f in (d[kind] or {}).items():
            base = f'{FEAT_DIR[kind]}/{ty}'
            os.makedirs(os.path.join(root, base), exist_ok=True)
            if kind == 'matches':
                unit = 24
                members = [(f'{a}.overlapping/{b}{FEAT_EXT[kind]}', (a, b)) for a, b in f['pairs']]
            else:
                unit = ITEMSIZE[f['meta'][1]] * f['meta'][2]
                members = [(f'{n}{FEAT_EXT[kind]}', n) for n in f['images']]
            tar = None
            style = f.get('tar_style') or 'kapture'
            if f.get('tar'):
                tar = tarfile.TarFile(os.path.join(root, base, kind + '.tar'), mode='w')
                if style == 'dotdir':            # like `tar -cf x.tar -C <folder> .`: folder members come along
                    folders = {'.'}
                    for member, _ in members:
                        parts = member.split('/')[:-1]
                        folders.update('./' + '/'.join(parts[:j + 1]) for j in range(len(parts)))
                    for name in sorted(folders):
                        info = tarfile.TarInfo(name)
                        info.type = tarfile.DIRTYPE
                        info.mode = 0o755
                        tar.addfile(info)
            for member, key in members:
                rel = f'{base}/{member}'
                if rel in missing:
                    continue
                data = _content(i, rel, unit)
                if tar is not None:
                    info = tarfile.TarInfo(_tar_spelling(member, style))
                    info.size = len(data)
                    tar.addfile(info, io.BytesIO(data))
                else:
                    _write(os.path.join(root, rel), data)
                store[kind][json.dumps([ty, key])] = hashlib.sha1(data).hexdigest()[:12]
            if tar is not None:
                tar.close()
    return k, store


# ---------------------------------------------------------------------------------------------- canonical forms
def _pose_tok(p):
    return json.dumps([None if p.r is None else [repr(float(x)) for x in p.r_raw],
                       None if p.t is None else [repr(float(x)) for x in p.t_raw]])


def _canon(k):
    """order-free, JSON-able picture of a kapture.Kapture object: every part None or sorted entries"""
    out = {}
    out['sensors'] = None if k.sensors is None else sorted(
        [sid, json.dumps([type(s).__name__, s.sensor_type, s.name, [str(x) for x in s.sensor_params]])]
        for sid, s in k.sensors.items())
    out['rigs'] = None if k.rigs is None else sorted(
        [rg, s, _pose_tok(p)] for rg, sub in k.rigs.items() for s, p in sub.items())
    out['trajectories'] = None if k.trajectories is None else sorted(
        [ts, dev, _pose_tok(p)] for ts, sub in k.trajectories.items() for dev, p in sub.items())
    for part in REC_NAMES:
        rec = getattr(k, part)
        out[part] = None if rec is None else sorted([ts, dev, n] for ts, sub in rec.items() for dev, n in sub.items())
    for part in ('records_wifi', 'records_bluetooth'):
        rec = getattr(k, part)
        out[part] = None if rec is None else sorted(
            [ts, dev, sorted([b, repr(v.astuple())] for b, v in r.items())] for ts, sub in rec.items() for dev, r in sub.items())
    for part in ('records_gnss', 'records_accelerometer', 'records_gyroscope', 'records_magnetic'):
        rec = getattr(k, part)
        out[part] = None if rec is None else sorted(
            [ts, dev, repr(v.astuple())] for ts, sub in rec.items() for dev, v in sub.items())
    for part in ('keypoints', 'descriptors', 'global_features'):
        coll = getattr(k, part)
        if coll is None:
            out[part] = None
            continue
        c = {}
        for ty, f in coll.items():
            dt = f.dtype
            meta = [f.type_name, getattr(dt, '__name__', str(dt)), f.dsize]
            if part == 'descriptors':
                meta += [f.keypoints_type, f.metric_type]
            if part == 'global_features':
                meta += [f.metric_type]
            c[ty] = {'meta': json.dumps(meta), 'images': sorted(f)}
        out[part] = c
    out['matches'] = None if k.matches is None else {ty: sorted(list(p) for p in m) for ty, m in k.matches.items()}
    pts = k.points3d
    if pts is None:
        out['points3d'] = None
    else:
        import numpy as np
        arr = np.asarray(pts)
        out['points3d'] = {'width': int(arr.shape[1]) if arr.ndim == 2 else -1,
                           'rows': [json.dumps([repr(float(x)) for x in row]) for row in (arr if arr.ndim == 2 else [])]}
    ob = k.observations
    out['observations'] = None if ob is None else sorted(
        [int(pt), ty, img, int(kp)] for pt, sub in ob.items() for ty, lst in sub.items() for img, kp in lst)
    return out


def _tree(root, skip_records_data=False):
    snap = {}
    for d, dirs, files in os.walk(root, followlinks=False):
        for n in list(dirs) + files:
            p = os.path.join(d, n)
            rel = os.path.relpath(p, root).replace('\\', '/')
            if skip_records_data and (rel + '/').startswith('sensors/records_data/'):
                continue
            if os.path.islink(p):
                snap[rel] = 'link:' + os.readlink(p)
            elif os.path.isdir(p):
                snap[rel] = 'dir'
            else:
                with open(p, 'rb') as f:
                    snap[rel] = hashlib.sha1(f.read()).hexdigest()[:12]
    return snap


def _out_files(out):
    """classify every file below the output directory"""
    files = {'rec': {}, 'keypoints': {}, 'descriptors': {}, 'global_features': {}, 'matches': {}, 'extra': [], 'csv': []}
    if not os.path.isdir(out):
        return files
    for d, dirs, fs in os.walk(out, followlinks=False):
        for n in fs + [x for x in dirs if os.path.islink(os.path.join(d, x))]:
            p = os.path.join(d, n)
            rel = os.path.relpath(p, out).replace('\\', '/')
            if os.path.islink(p) and not os.path.exists(p):
                h = None                                   # dangling link
            elif os.path.isdir(p):
                h = 'linked-dir'
            else:
                with open(p, 'rb') as f:                   # follows links: the content reachable under this name
                    h = hashlib.sha1(f.read()).hexdigest()[:12]
            if rel.startswith('sensors/records_data/'):
                files['rec'][rel[len('sensors/records_data/'):]] = h
                continue
            done = False
            for kind, base in FEAT_DIR.items():
                if rel.startswith(base + '/'):
                    ty, _, member = rel[len(base) + 1:].partition('/')
                    if member == kind + '.txt':
                        files['csv'].append(rel)
                        done = True
                    elif member.endswith(FEAT_EXT[kind]):
                        stem = member[:-len(FEAT_EXT[kind])]
                        if kind == 'matches':
                            a, sep, b = stem.partition('.overlapping/')
                            key = [a, b] if sep else None
                        else:
                            key = stem
                        if key is not None:
                            files[kind][json.dumps([ty, key])] = h
                            done = True
                    break
            if done:
                continue
            if (rel.startswith('sensors/') and rel.endswith('.txt') and rel.count('/') == 1) or \
                    rel in ('reconstruction/points3d.txt', 'reconstruction/observations.txt'):
                files['csv'].append(rel)
            else:
                files['extra'].append(rel)
    files['extra'].sort()
    files['csv'].sort()
    return files


def _read_out_dir(out):
    """the tool's output directory read back part by part with kapture's readers, without cross-part filters"""
    import kapture
    import kapture.io.csv as kcsv
    k = kapture.Kapture()
    readers = {'sensors': (kapture.Sensors, kcsv.sensors_from_file), 'rigs': (kapture.Rigs, kcsv.rigs_from_file),
               'trajectories': (kapture.Trajectories, kcsv.trajectories_from_file),
               'records_camera': (kapture.RecordsCamera, kcsv.records_camera_from_file),
               'records_depth': (kapture.RecordsDepth, kcsv.records_depth_from_file),
               'records_lidar': (kapture.RecordsLidar, kcsv.records_lidar_from_file),
               'records_wifi': (kapture.RecordsWifi, kcsv.records_wifi_from_file),
               'records_bluetooth': (kapture.RecordsBluetooth, kcsv.records_bluetooth_from_file),
               'records_gnss': (kapture.RecordsGnss, kcsv.records_gnss_from_file),
               'records_accelerometer': (kapture.RecordsAccelerometer, kcsv.records_accelerometer_from_file),
               'records_gyroscope': (kapture.RecordsGyroscope, kcsv.records_gyroscope_from_file),
               'records_magnetic': (kapture.RecordsMagnetic, kcsv.records_magnetic_from_file)}
    for part, (cls, fn) in readers.items():
        p = os.path.join(out, kcsv.CSV_FILENAMES[cls])
        if os.path.isfile(p):
            setattr(k, part, fn(p))
    for part, cls, fn in (('keypoints', kapture.Keypoints, kcsv.keypoints_from_dir),
                          ('descriptors', kapture.Descriptors, kcsv.descriptors_from_dir),
                          ('global_features', kapture.GlobalFeatures, kcsv.global_features_from_dir)):
        base = os.path.join(out, FEAT_DIR[part])
        if os.path.isdir(base):
            tys = kcsv.list_features(cls, out)
            if tys:
                setattr(k, part, {ty: fn(ty, out, None, None) for ty in tys})
    base = os.path.join(out, FEAT_DIR['matches'])
    if os.path.isdir(base):
        tys = [n for n in os.listdir(base) if os.path.isdir(os.path.join(base, n))]
        if tys:
            k.matches = {ty: kcsv.matches_from_dir(ty, out, None, None, None) for ty in tys}
    p = os.path.join(out, kcsv.CSV_FILENAMES[kapture.Points3d])
    if os.path.isfile(p):
        import warnings
        with warnings.catch_warnings():
            warnings.simplefilter('ignore')
            k.points3d = kcsv.points3d_from_file(p)
    p = os.path.join(out, kcsv.CSV_FILENAMES[kapture.Observations])
    if os.path.isfile(p):
        k.observations = kcsv.observations_from_file(p, None)
    return k


# ---------------------------------------------------------------------------------------------- implementation run
def _skip_types(names):
    import kapture
    m = {'trajectories': kapture.Trajectories, 'records_camera': kapture.RecordsCamera,
         'records_depth': kapture.RecordsDepth, 'records_lidar': kapture.RecordsLidar,
         'records_wifi': kapture.RecordsWifi, 'records_bluetooth': kapture.RecordsBluetooth,
         'records_gnss': kapture.RecordsGnss, 'records_accelerometer': kapture.RecordsAccelerometer,
         'records_gyroscope': kapture.RecordsGyroscope, 'records_magnetic': kapture.RecordsMagnetic,
         'keypoints': kapture.Keypoints, 'descriptors': kapture.Descriptors,
         'global_features': kapture.GlobalFeatures, 'matches': kapture.Matches,
         'points3d': kapture.Points3d, 'observations': kapture.Observations,
         'sensors': kapture.Sensors, 'rigs': kapture.Rigs}
    return [m[n] for n in names]


def _classify_exc(e, strategy):
    tb = traceback.extract_tb(e.__traceback__)
    fns = [f.name for f in tb]
    if 'import_record_data_from_dir_link_dir' in fns:
        return 'rootlink'
    if isinstance(e, ValueError) and any(f in fns for f in ('_append_points3d', 'merge_points3d',
                                                              'merge_points3d_and_observations')):
        return 'shape'
    if isinstance(e, AssertionError):
        return 'assert'
    if isinstance(e, FileExistsError):
        return 'exists'
    if isinstance(e, (FileNotFoundError, KeyError)):
        return 'missing'
    return 'other'


def _dir_names(case):
    names = case.get('dir_names') or [f'in{i}' for i in range(len(case['inputs']))]
    assert len(set(names)) == len(case['inputs']) and not any(n in ('out', 'cwd') or n.startswith('origin') for n in names)
    return names


def run_impl(case, ctx):
    import kapture  # noqa: F401
    from kapture.io.records import TransferAction
    from kapture.io.csv import get_all_tar_handlers, kapture_from_dir
    _quiet()
    base = os.path.join(ctx['tmp'], 'c')
    shutil.rmtree(base, ignore_errors=True)
    os.makedirs(base)
    dirs, kobjs, stores = [], [], []
    for i, d in enumerate(case['inputs']):
        root = os.path.join(base, _dir_names(case)[i])
        k, store = _build_dir(d, i, root)
        dirs.append(root)
        kobjs.append(k)
        stores.append(store)
    out = os.path.join(base, 'out')
    strategy = TransferAction[case['strategy']]
    move = case['strategy'] == 'move'
    origins = [os.path.join(base, f'origin{i}') for i in range(len(dirs)) if os.path.isdir(os.path.join(base, f'origin{i}'))]
    trees_before = [_tree(r, move) for r in dirs] + [_tree(r) for r in origins]
    obs = {'stores': stores}
    exc = None
    merged = None
    # run inside a private, empty working directory: a merge without output path must not write relative files
    old_cwd = os.getcwd()
    private_cwd = os.path.join(base, 'cwd')
    os.makedirs(private_cwd)
    os.chdir(private_cwd)
    try:
        if case['mode'] == 'lib':
            tars = [get_all_tar_handlers(r) for r in dirs]
            inputs_before = [_canon(k) for k in kobjs]
            try:
                from kapture.algo.merge_keep_ids import merge_keep_ids
                merged = merge_keep_ids(kobjs, _skip_types(case['skip']), dirs, tars,
                                        out if case['has_out'] else '', strategy)
            except Exception as e:  # the implementation's exceptions are observed outcomes
                exc = e
            finally:
                for t in tars:
                    t.close()
            inputs_after = [_canon(k) for k in kobjs]
            obs['inputs'] = inputs_before
            obs['inputs_unchanged'] = inputs_before == inputs_after
            if not obs['inputs_unchanged']:
                obs['inputs_diff'] = _first_diff(inputs_before, inputs_after)
            if merged is not None:
                obs['output'] = _canon(merged)
        else:
            loaded = []
            for r in dirs:
                with get_all_tar_handlers(r) as th:
                    loaded.append(_canon(kapture_from_dir(r, tar_handlers=th)))
            obs['inputs'] = loaded
            obs['inputs_unchanged'] = True
            try:
                import kapture_merge
                kapture_merge.merge_kaptures(dirs, out, True, strategy, list(case['skip']), True)
                merged = True
            except Exception as e:
                exc = e
            if merged:
                obs['output'] = _canon(_read_out_dir(out))
        cwd_clean = os.listdir(private_cwd) == []
    finally:
        os.chdir(old_cwd)
    trees_after = [_tree(r, move) for r in dirs] + [_tree(r) for r in origins]
    obs['dirs_unchanged'] = trees_before == trees_after
    if not obs['dirs_unchanged']:
        obs['dirs_diff'] = _first_diff(trees_before, trees_after)
    obs['cwd_unchanged'] = cwd_clean
    if exc is not None:
        obs['outcome'] = 'raise'
        obs['exc_kind'] = _classify_exc(exc, case['strategy'])
        obs['exc'] = f'{type(exc).__name__}: {exc}'[:300]
    else:
        obs['outcome'] = 'ret'
        obs['files'] = _out_files(out)
    shutil.rmtree(base, ignore_errors=True)
    return obs


def _first_diff(a, b):
    """short, stable description of the first difference between two lists of snapshots"""
    for i, (x, y) in enumerate(zip(a, b)):
        if x != y:
            for key in sorted(set(x) | set(y)):
                if x.get(key) != y.get(key):
                    return f'input {i}: {key} changed'
    return 'number of inputs changed'


# ---------------------------------------------------------------------------------------------- oracle
def _first_wins(tables):
    """the property: union of the inputs' entries, the earliest input's entry kept"""
    out = {}
    for t in tables:
        for k, v in (t or []):
            if k not in out:
                out[k] = v
    return out


def _entries(part, canon_part):
    """[(key, value)] of a canonical part; the key as the property names it"""
    if canon_part is None:
        return None
    if part == 'sensors':
        return [(sid, tok) for sid, tok in canon_part]
    if part in ('records_wifi', 'records_bluetooth'):
        return [((ts, dev, b), v) for ts, dev, sigs in canon_part for b, v in sigs]
    return [((a, b), v) for a, b, v in canon_part]


def _conflicting_meta(case, obs):
    for kind in ('keypoints', 'descriptors', 'global_features'):
        if kind in case['skip']:
            continue
        seen = {}
        for d in obs['inputs']:
            for ty, f in (d[kind] or {}).items():
                if seen.setdefault(ty, f['meta']) != f['meta']:
                    return True
    return False


def _has_missing(case):
    return any(d.get('missing_files') for d in case['inputs'])


def _nonempty_widths(ins):
    return sorted({d['points3d']['width'] for d in ins if d.get('points3d') and d['points3d']['rows']})


def _per_point(cloud, observations):
    """[(coordinates, observations of that point)] of one dataset; None when an observation indexes no point"""
    rows = cloud['rows'] if cloud else []
    per = [[] for _ in rows]
    for pt, ty, img, kp in (observations or []):
        if not 0 <= pt < len(rows):
            return None
        per[pt].append((ty, img, kp))
    return [(row, tuple(sorted(o))) for row, o in zip(rows, per)]


def _oracle_points(case, obs):
    """points3d / observations: the merged points are the inputs' points (each with its observations, re-indexed
    consistently), nothing lost, nothing invented; skipped or absent everywhere -> absent"""
    ins, outd, skip = obs['inputs'], obs['output'], set(case['skip'])
    got_p, got_o = outd.get('points3d'), outd.get('observations')
    if 'points3d' in skip:
        if got_p is not None:
            return 'points3d: present in the output although skipped'
        if got_o is not None:
            return 'observations: present in the output although ' + (
                'skipped' if 'observations' in skip else 'the 3-D points they index are skipped')
        return None
    holders = [d for d in ins if d.get('points3d') is not None]
    with_obs = 'observations' not in skip
    if not with_obs and got_o is not None:
        return 'observations: present in the output although skipped'
    if not holders and got_p is not None:
        return 'points3d: present in the output although absent from every input'
    if with_obs and got_o and not any(d.get('observations') for d in holders):
        return 'observations: present in the output although no input with 3-D points has any'
    want = []
    for d in holders:
        want += _per_point(d['points3d'], d.get('observations') if with_obs else None) or []
    got = _per_point(got_p, got_o)
    if got is None:
        return 'observations: an observation of the output indexes no merged 3-D point'
    if sorted(r for r, _ in want) != sorted(r for r, _ in got):
        lost = len(want) - len(got)
        return (f'points3d: {len(got)} points in the output, {len(want)} in the inputs' if lost
                else 'points3d: the merged coordinates are not the coordinates of the inputs')
    if sorted(want) != sorted(got):
        return 'observations: the merged points do not carry the observations of the inputs\' points (re-indexed)'
    if got_p and got_p['rows'] and [got_p['width']] != _nonempty_widths(ins):
        return 'points3d: number of columns differs from the inputs'
    return None


def oracle(case, obs):
    """C09 stated directly on what the implementation did; independent of the Coq model."""
    ins = obs['inputs']
    if not obs['inputs_unchanged']:
        return 'an input dataset was modified by the merge: ' + obs.get('inputs_diff', '')
    if not obs['dirs_unchanged']:
        return 'an input directory was modified by the merge: ' + obs.get('dirs_diff', '')
    if not obs.get('cwd_unchanged', True):
        return 'the merge wrote into the working directory'
    if obs['outcome'] == 'raise':
        if obs['exc_kind'] == 'rootlink' and case['strategy'] == 'root_link':
            return None          # see ASSUMPTIONS: root_link cannot express a union; not judged
        if obs['exc_kind'] == 'assert' and (_conflicting_meta(case, obs) or not ins):
            return None          # the inputs disagree on the metadata of a feature type: not mergeable
        if obs['exc_kind'] == 'missing' and _has_missing(case):
            return None          # a listed file is absent from its input directory
        if obs['exc_kind'] == 'shape' and 'points3d' not in case['skip'] and len(_nonempty_widths(ins)) > 1:
            return None          # Nx3 points cannot be stacked with Nx6 points
        return f'merge raised {obs["exc"]}'
    if len(ins) == 0:
        return 'merge of no dataset returned'
    outd = obs['output']
    skip = set(case['skip'])
    for part in PARTS[:12]:
        want = None if part in skip else (_first_wins([_entries(part, d[part]) for d in ins]) or None)
        got = _entries(part, outd[part])
        got = dict(got) if got is not None else None
        if want is None:
            if got:
                return f'{part}: present in the output although ' + ('skipped' if part in skip else 'absent from every input')
            continue
        if got is None:
            return f'{part}: lost (absent from the output, {len(want)} entries expected)'
        for k, v in want.items():
            if k not in got:
                return f'{part}: entry {k} of the inputs is lost'
            if got[k] != v:
                return f'{part}: entry {k} is not the one of the earliest input that defines it'
        for k in got:
            if k not in want:
                return f'{part}: entry {k} of the output is in no input'
    for kind in ('keypoints', 'descriptors', 'global_features', 'matches'):
        holders = [d[kind] for d in ins if d[kind] is not None]
        got = outd[kind]
        if kind in skip or not holders or not any(holders):
            if got:
                return f'{kind}: present in the output although ' + ('skipped' if kind in skip else 'absent from every input')
            continue
        types = sorted({ty for h in holders for ty in h})
        if got is None:
            return f'{kind}: lost (absent from the output)'
        if sorted(got) != types:
            return f'{kind}: feature types {sorted(got)} differ from the union {types}'
        for ty in types:
            if kind == 'matches':
                want = sorted({tuple(p) for h in holders for p in h.get(ty, [])})
                have = sorted(tuple(p) for p in got[ty])
            else:
                want = sorted({n for h in holders if ty in h for n in h[ty]['images']})
                have = sorted(got[ty]['images'])
                first_meta = [h[ty]['meta'] for h in holders if ty in h][0]
                if got[ty]['meta'] != first_meta:
                    return f'{kind}/{ty}: metadata is not the one of the earliest input'
            if want != have:
                return f'{kind}/{ty}: members differ from the union: lost={[x for x in want if x not in have][:3]} extra={[x for x in have if x not in want][:3]}'
    bad = _oracle_points(case, obs)
    if bad:
        return bad
    # files
    files = obs['files']
    if files['extra']:
        return 'unexpected file in the output directory: ' + files['extra'][0]
    transfers = case['has_out'] and case['strategy'] in ('copy', 'move', 'link_absolute', 'link_relative')
    want_rec = {}
    if transfers:
        for part in REC_NAMES:
            if part in skip:
                continue
            added = {}
            for d, st in zip(ins, obs['stores']):
                for _, _, name in (d[part] or []):
                    if name not in added:
                        added[name] = st['rec'].get(name)
            want_rec.update(added)
    for name, h in want_rec.items():
        if name not in files['rec']:
            return f'record file {name} listed by the inputs was not transferred'
        if files['rec'][name] is None and h is not None:
            return f'record file {name} of the merge is a dangling link: the content of the earliest input that lists it is not reachable'
        if files['rec'][name] != h:
            return f'record file {name} does not have the content of the earliest input that lists it'
    for name in files['rec']:
        if name not in want_rec:
            return f'record file {name} in the output is listed by no merged input'
    for kind in ('keypoints', 'descriptors', 'global_features', 'matches'):
        want = {}
        if case['has_out'] and kind not in skip:
            for d, st in zip(ins, obs['stores']):
                for ty, f in (d[kind] or {}).items():
                    for key in (f if kind == 'matches' else f['images']):
                        kk = json.dumps([ty, key])
                        if kk not in want:
                            want[kk] = st[kind].get(kk)
        for kk, h in want.items():
            if kk not in files[kind]:
                return f'{kind} file {kk} was not transferred'
            if files[kind][kk] != h:
                return f'{kind} file {kk} does not have the bytes of the earliest input that holds it'
        for kk in files[kind]:
            if kk not in want:
                return f'{kind} file {kk} in the output belongs to no input'
    return None


# ---------------------------------------------------------------------------------------------- Coq encoding
class _Intern:
    def __init__(self):
        self.m = {}

    def __call__(self, s):
        if s not in self.m:
            self.m[s] = f't{len(self.m)}'
        return kv.cstr(self.m[s])


def _c_opt_list(x, f):
    return 'None' if x is None else '(Some ' + kv.clist(f(e) for e in x) + ')'


def _c_fun(var_cases):
    return '(fun p => match p with ' + ' | '.join(f'{c} => {v}' for c, v in var_cases) + ' end)'


def _c_kdata(d, T):
    tk = lambda ts, dev: kv.cpair(kv.cz(ts), kv.cstr(dev))  # noqa: E731
    sensors = _c_opt_list(d['sensors'], lambda e: kv.cpair(kv.cstr(e[0]), T(e[1])))
    rigs = _c_opt_list(d['rigs'], lambda e: kv.cpair(kv.cpair(kv.cstr(e[0]), kv.cstr(e[1])), T(e[2])))
    tab = _c_fun([(c, _c_opt_list(d[p], lambda e: kv.cpair(tk(e[0], e[1]), T(e[2])))) for p, c in TPARTS])
    rec = _c_fun([(c, _c_opt_list(d[p], lambda e: kv.cpair(tk(e[0], e[1]), kv.cstr(e[2])))) for p, c in RPARTS])
    sig = _c_fun([(c, _c_opt_list(d[p], lambda e: kv.cpair(tk(e[0], e[1]), kv.clist(kv.cpair(kv.cstr(b), T(v)) for b, v in e[2]))))
                  for p, c in NPARTS])

    def fcoll(c):
        if c is None:
            return 'None'
        return '(Some ' + kv.clist(kv.cpair(kv.cstr(ty), kv.cpair(T(f['meta']), kv.clist(kv.cstr(n) for n in f['images'])))
                                   for ty, f in sorted(c.items())) + ')'
    feat = _c_fun([(c, fcoll(d[p])) for p, c in IPARTS])
    if d['matches'] is None:
        matches = 'None'
    else:
        matches = '(Some ' + kv.clist(kv.cpair(kv.cstr(ty), kv.clist(kv.cpair(kv.cstr(a), kv.cstr(b)) for a, b in prs))
                                      for ty, prs in sorted(d['matches'].items())) + ')'
    return ('{| k_sensors := %s; k_rigs := %s; k_tab := %s; k_rec := %s; k_sig := %s; k_feat := %s; k_matches := %s |}'
            % (sensors, rigs, tab, rec, sig, feat, matches))


def _c_featfiles(m, T, opt=False):
    items = []
    for kk, h in sorted(m.items()):
        ty, key = json.loads(kk)
        ck = kv.cpair(kv.cstr(ty), kv.cpair(kv.cstr(key[0]), kv.cstr(key[1])) if isinstance(key, list) else kv.cstr(key))
        items.append(kv.cpair(ck, T('file:' + str(h))))
    return kv.clist(items)


def _c_store(st, T):
    rec = kv.clist(kv.cpair(kv.cstr(n), T('file:' + h)) for n, h in sorted(st['rec'].items()))
    feat = _c_fun([(c, _c_featfiles(st[p], T)) for p, c in IPARTS])
    return '{| s_rec := %s; s_feat := %s; s_match := %s |}' % (rec, feat, _c_featfiles(st['matches'], T))


def _c_ostore(files, T):
    rec = kv.clist(kv.cpair(kv.cstr(n), 'None' if h is None else '(Some %s)' % T('file:' + h))
                   for n, h in sorted(files['rec'].items()))
    feat = _c_fun([(c, _c_featfiles(files[p], T)) for p, c in IPARTS])
    return '{| o_rec := %s; o_feat := %s; o_match := %s |}' % (rec, feat, _c_featfiles(files['matches'], T))


_EXC = {'assert': 'EAssert', 'rootlink': 'ERootLink', 'missing': 'EMissing', 'exists': 'EExists', 'shape': 'EAssert'}


def _c_cloud(c, T):
    if c is None:
        return 'None'
    return '(Some (mkCloud %s %s))' % (kv.cz(c['width']), kv.clist(T('row:' + r if isinstance(r, str) else 'row:' + json.dumps(
        [repr(float(x)) for x in r])) for r in c['rows']))


def _c_olist(o):
    if o is None:
        return 'None'
    return '(Some %s)' % kv.clist('(%s, %s, %s, %s)' % (kv.cz(pt), kv.cstr(ty), kv.cstr(img), kv.cz(kp)) for pt, ty, img, kp in o)


def encode(case, obs):
    T = _Intern()
    skip = kv.clist(COQ_PART[s] for s in case['skip'])
    ins = kv.clist(kv.cpair(_c_kdata(d, T), _c_store(st, T)) for d, st in zip(obs['inputs'], obs['stores']))
    if obs['outcome'] == 'ret':
        files = dict(obs['files'])
        if files['extra']:
            files = dict(files)
            files['rec'] = dict(files['rec'])
            files['rec']['<unexpected>' + files['extra'][0]] = 'x'
        o = '(ORet %s %s)' % (_c_kdata(obs['output'], T), _c_ostore(files, T))
    else:
        o = '(ORaise %s)' % _EXC.get(obs['exc_kind'], 'EExists')
        if obs['exc_kind'] not in _EXC:
            # an exception kind the model never produces: make the case disagree whatever the model says
            o = '(ORet %s %s)' % (_c_kdata({p: None for p in PARTS}, T),
                                  _c_ostore({'rec': {'<unmodelled exception>': 'x'}, 'keypoints': {}, 'descriptors': {},
                                             'global_features': {}, 'matches': {}}, T))
    unchanged = obs['inputs_unchanged'] and obs['dirs_unchanged'] and obs.get('cwd_unchanged', True)
    base = ('{| c_skip := %s; c_strategy := %s; c_has_out := %s; c_inputs := %s; c_obs := %s; c_inputs_unchanged := %s |}'
            % (skip, COQ_STRATEGY[case['strategy']], kv.cbool(case['has_out']), ins, o, kv.cbool(unchanged)))
    pins = kv.clist(kv.cpair(_c_cloud(d.get('points3d'), T), _c_olist(d.get('observations'))) for d in obs['inputs'])
    if obs['outcome'] == 'ret':
        pobs = '(PRet %s %s)' % (_c_cloud(obs['output'].get('points3d'), T), _c_olist(obs['output'].get('observations')))
    else:
        pobs = 'PRaiseShape' if obs['exc_kind'] == 'shape' else 'PNotReached'
    return '{| x_base := %s; x_points := %s; x_pobs := %s |}' % (base, pins, pobs)


# ---------------------------------------------------------------------------------------------- evidence helpers
def _overlap(obs):
    """a key defined by two inputs with different values, or a part absent from the first input and present later"""
    ins = obs['inputs']
    for part in PARTS[:12]:
        seen = {}
        for d in ins:
            for k, v in (_entries(part, d[part]) or []):
                if k in seen and seen[k] != v:
                    return True
                seen.setdefault(k, v)
        if ins and ins[0][part] is None and any(d[part] for d in ins[1:]):
            return True
    return False


def nontrivial(case, obs):
    return len(obs['inputs']) >= 2 and _overlap(obs)


def classify(case, obs):
    sk = 'skip0' if not case['skip'] else ('skip1' if len(case['skip']) == 1 else 'skipN')
    flags = [bool(f.get('tar')) for d in case['inputs'] for k in FEAT_DIR for f in (d[k] or {}).values()]
    store = 'nofeat' if not flags else ('tar' if all(flags) else ('mixed' if any(flags) else 'dir'))
    if any(f.get('tar') and (f.get('tar_style') or 'kapture') != 'kapture'
           for d in case['inputs'] for k in FEAT_DIR for f in (d[k] or {}).values()):
        store += '(user-packed)'
    res = obs['outcome'] if obs['outcome'] == 'ret' else 'raise-' + obs['exc_kind']
    names = _dir_names(case)
    order = 'listed=alphabetical' if names == sorted(names) else 'listed!=alphabetical'
    nest = 'nested-rigs' if any(r[1].startswith('rig') for d in case['inputs'] for r in (d['rigs'] or [])) else 'flat-rigs'
    rs = sorted({(d.get('rec_storage') or 'file') for d in case['inputs']
                 if any(d[p] for p in REC_NAMES)}) or ['norec']
    pts = [d.get('points3d') for d in case['inputs']]
    if not any(p is not None for p in pts):
        pk = 'nopts'
    else:
        ws = {p['width'] for p in pts if p and p['rows']}
        pk = 'pts' + ('+empty' if any(p is not None and not p['rows'] for p in pts) else '') + \
             ('(mixed columns)' if len(ws) > 1 else '') + ('+obs' if any(d.get('observations') for d in case['inputs']) else '')
    return (f'{case["mode"]}/n={len(case["inputs"])}/{case["strategy"]}/{sk}/{store}/{order}/{nest}/rec={"+".join(rs)}/'
            f'{pk}/{res}')


def describe(case, obs):
    d = {'mode': case['mode'], 'n_inputs': len(case['inputs']), 'skip': case['skip'], 'strategy': case['strategy'],
         'has_out': case['has_out'], 'kind': case.get('_kind'),
         'parts_present': [[p for p in ALL_PARTS if d.get(p) is not None] for d in case['inputs']],
         'points3d': [None if d.get('points3d') is None else '%dx%d' % (len(d['points3d']['rows']), d['points3d']['width'])
                      for d in case['inputs']],
         'outcome': obs['outcome'], 'exc': obs.get('exc')}
    if obs['outcome'] == 'ret':
        d['output_parts'] = [p for p in ALL_PARTS if obs['output'].get(p) is not None]
        d['output_files'] = {k: len(v) for k, v in obs['files'].items()}
    return d


def shrink(case):
    def clone():
        return json.loads(json.dumps(case))
    if case['mode'] == 'tool':
        c = clone()
        c['mode'] = 'lib'
        yield c
    for i in range(len(case['inputs'])):
        if len(case['inputs']) > 1:
            c = clone()
            del c['inputs'][i]
            if c.get('dir_names'):
                del c['dir_names'][i]
            yield c
    for i, d in enumerate(case['inputs']):
        if (d.get('rec_storage') or 'file') != 'file':
            c = clone()
            c['inputs'][i]['rec_storage'] = 'file'
            yield c
    if case.get('dir_names') and case['dir_names'] != sorted(case['dir_names']):
        c = clone()
        c['dir_names'] = sorted(case['dir_names'])
        yield c
    for s in case['skip']:
        c = clone()
        c['skip'].remove(s)
        yield c
    if case['strategy'] not in ('skip', 'copy'):
        for st in ('skip', 'copy'):
            c = clone()
            c['strategy'] = st
            yield c
    for i, d in enumerate(case['inputs']):
        for p in PO_PARTS[::-1] + PARTS:
            if d.get(p) is not None and not (case['mode'] == 'tool' and p in ('sensors', 'records_camera')):
                c = clone()
                c['inputs'][i][p] = None
                yield _tool_safe(c)
    for i, d in enumerate(case['inputs']):
        pts = d.get('points3d')
        if pts and len(pts['rows']) > 1:
            c = clone()
            c['inputs'][i]['points3d']['rows'] = pts['rows'][:1]
            if c['inputs'][i].get('observations'):
                c['inputs'][i]['observations'] = [o for o in c['inputs'][i]['observations'] if o[0] == 0]
            yield c
        if d.get('observations') and len(d['observations']) > 1:
            for j in range(len(d['observations'])):
                c = clone()
                del c['inputs'][i]['observations'][j]
                yield c
    for i, d in enumerate(case['inputs']):
        for p in PARTS:
            v = d[p]
            if isinstance(v, list) and len(v) > 1:
                for j in range(len(v)):
                    c = clone()
                    del c['inputs'][i][p][j]
                    yield c
            elif isinstance(v, dict) and len(v) > 1 and not (case['mode'] == 'tool' and p == 'sensors'):
                for key in list(v):
                    c = clone()
                    del c['inputs'][i][p][key]
                    yield c
            if isinstance(v, dict) and p in FEAT_DIR:
                for ty, f in v.items():
                    members = f['pairs'] if p == 'matches' else f['images']
                    if len(members) > 1:
                        c = clone()
                        tgt = c['inputs'][i][p][ty]
                        tgt['pairs' if p == 'matches' else 'images'] = members[:1]
                        yield c
                    if f.get('tar') and (f.get('tar_style') or 'kapture') != 'kapture':
                        c = clone()
                        c['inputs'][i][p][ty]['tar_style'] = 'kapture'
                        yield c
                    if f.get('tar'):
                        c = clone()
                        c['inputs'][i][p][ty]['tar'] = False
                        yield c


TECHNIQUE = ('Coq proof by induction over the list of inputs (first-wins characterisation of every part by lookup, union of key '
             'sets, skip / absent-part laws, first-lister-wins characterisation of the transferred files) over an executable '
             'Gallina model; differential correspondence evaluated by vm_compute on both entry points with real directories')
LEVEL_TEXT = ('Theorems in coq/Props/C09.v hold for every list of inputs, every pattern of missing parts, every skip list and '
              'every transfer strategy: each part of the merge maps a key to the entry of the earliest input defining it '
              '(1-, 2- and 3-key tables, feature sets per type, ordered match pairs), its key set is the union, skipped parts '
              'and parts absent or empty everywhere are absent, every record / feature / matches file of the merge carries '
              'the bytes of the earliest input that lists it and nothing else is written, and the merge succeeds whenever '
              'feature metadata agree and listed files exist. The model is tied to the code by running merge_keep_ids and '
              'kapture_merge.merge_kaptures on real directories (tar and folder stores, all strategies) and comparing the '
              'canonicalised result, the output tree and the input snapshots inside Coq.')
LEVEL_NOTE = ('Trusted: Coq kernel + vm_compute; harness builders/canonicalisers; kapture csv readers/writers used to build inputs '
              'and read the tool output back; tarfile/numpy raw-byte round trip. Values are opaque tokens. points3d/observations '
              '(C11) and root_link (cannot express a union) are outside the judged domain. Purity of the inputs is a check on the '
              'implementation (deep snapshots), the model being pure by construction.')
