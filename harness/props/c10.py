"""C10 — merging with renamed identifiers is a disjoint union, consistently renamed.
Implementation under test: kapture.algo.merge_remap.merge_remap, reached directly (datasets built with the
kapture classes) and through tools/kapture_merge.py merge_kaptures(keep_sensor_ids=False) on real directories."""
import copy
import itertools
import os
import shutil

import kv

ID = 'C10'
COQ_MODELS = ['MMergeRemap']
COQ_HEADER = ('From KV Require Import Eqb AL Str.\nFrom KV.Model Require Import MMergeRemap.\n'
              'Local Open Scope string_scope.\nLocal Open Scope list_scope.')
CASE_TYPE = 'MMergeRemap.case'
CHECK_FN = 'MMergeRemap.check_case'
SHARD_SIZE = 100
RULE = ('one case = 1..4 datasets + a skip list. Each dataset draws its sensors (0..5, shuffled order, types camera/depth/lidar/wifi/'
        'bluetooth/gnss/accelerometer/gyroscope/magnetic) from ONE shared pool of identifiers, so identifiers collide across inputs on '
        'purpose; rigs (members = sensors of the same input; a rig id may equal a sensor id of another input), trajectories over '
        'sensors and rigs, and the 9 kinds of records are each present or missing independently; lib cases may also lack sensors. '
        'Enumerated: for each of the 12 parts, every presence pattern of that part over 2 and 3 inputs (all other parts present). '
        'A malformed stream adds entries that refer to an identifier their own input does not define (expected KeyError). '
        'lib cases call merge_remap on objects; tool cases write real directories, run merge_kaptures(keep_sensor_ids=False) and read '
        'the output files back; every second tool case first fills the SAME output directory with an earlier merge_kaptures run of '
        'other datasets (no skip) and then merges with force and a skip list naming parts that the old output holds: the result is '
        'judged against the second merge alone (skipped parts absent, nothing left from the old output). Sessions: one lib case in '
        'three and one tool case in four first run 1..2 EARLIER merges in the same process with the very same skip-list object '
        '(lib: also the same data_paths / tar-handler lists, sometimes the same Kapture objects; tool: the same skip argument, or '
        'no skip argument at all = the shared default), each earlier merge lacking a random set of parts in all its inputs; plus, '
        'for each of the 10 skippable parts, a merge of datasets without the part followed by a merge of datasets with it. Every '
        'merge of a session is judged on its own inputs, and the skip list is read back after every call. Non-trivial = at least two inputs with sensors and one non-skipped part present in some but not all '
        'inputs or in two inputs; distinct = distinct case content.')
TRUSTED = ['tool cases: kapture.io.csv writers/readers are used to build the inputs, to learn what the tool loads from them '
           '(kapture_from_dir with the same skip list) and to read the output files (per-file readers, no sensor filtering)',
           'values (sensors, poses, records) are compared through a canonical text form (type, name, params / r_raw, t_raw / astuple)']
ASSUMPTIONS = ['rig members are sensors of the same input (nested rigs make merge_rigs raise KeyError: modelled, not judged)',
               'an entry that refers to an identifier its own input does not define (no such sensor/rig) is outside the judged domain; '
               'the model predicts the KeyError',
               'every sensor carries a distinct name and every rig member a distinct pose (generator invariant), which lets the oracle '
               'recover the renaming from the output without assuming the sensor<N>/rig<N> scheme']
EXHAUSTIVE = {'quick': False, 'thorough': False}

REC2 = ['records_camera', 'records_depth', 'records_lidar', 'records_gnss', 'records_accelerometer', 'records_gyroscope',
        'records_magnetic']
REC3 = ['records_wifi', 'records_bluetooth']
K2 = dict(zip(REC2, ['KCamera', 'KDepth', 'KLidar', 'KGnss', 'KAccel', 'KGyro', 'KMag']))
K3 = dict(zip(REC3, ['KWifi', 'KBluetooth']))
SKIPPABLE = ['trajectories'] + REC2 + REC3
PARTS = ['sensors', 'rigs', 'trajectories'] + REC2 + REC3
SENSOR_POOL = [('cam', 'camera'), ('cam2', 'camera'), ('depth', 'depth'), ('lidar', 'lidar'), ('wifi', 'wifi'),
               ('bt', 'bluetooth'), ('gnss', 'gnss'), ('acc', 'accelerometer'), ('gyro', 'gyroscope'), ('mag', 'magnetic'),
               ('rig', 'camera'), ('sensor1', 'lidar')]
RIG_POOL = ['rig', 'rigB', 'cam2', 'sensor0']
TYPE_OF_PART = {'records_camera': 'camera', 'records_depth': 'depth', 'records_lidar': 'lidar', 'records_gnss': 'gnss',
                'records_accelerometer': 'accelerometer', 'records_gyroscope': 'gyroscope', 'records_magnetic': 'magnetic',
                'records_wifi': 'wifi', 'records_bluetooth': 'bluetooth'}
QUATS = [[1, 0, 0, 0], [0, 1, 0, 0], [0, 0, 1, 0], [0.5, 0.5, 0.5, 0.5], [0.5, -0.5, 0.5, -0.5]]


# ------------------------------------------------------------------------------------------ generation
class _Ctr:
    def __init__(self):
        self.n = 0

    def next(self):
        self.n += 1
        return self.n


def _gen_dataset(rng, i, ctr, mode, present=None, dangling=False):
    """present: dict part -> bool overriding the random choice"""
    def has(part, p):
        if present is not None and part in present:
            return present[part]
        return rng.random() < p
    d = {p: None for p in PARTS}
    pool = list(SENSOR_POOL)
    rng.shuffle(pool)
    sens = []
    if has('sensors', 0.9 if mode == 'lib' else 1.0):
        n = rng.choice([0, 1, 2, 2, 3, 4, 5]) if present is None else rng.choice([2, 3, 4])
        sens = pool[:n]
        if present is not None:
            # make sure every record kind has a sensor of its type
            for t in set(TYPE_OF_PART.values()):
                if not any(s[1] == t for s in sens):
                    sens.append(next(s for s in pool if s[1] == t))
        d['sensors'] = [[sid, st, f'{sid}@{i}'] for sid, st in sens]
    sids = [s[0] for s in sens]
    rig_ids = []
    if sids and has('rigs', 0.5):
        cand = [r for r in RIG_POOL if r not in sids]
        rng.shuffle(cand)
        rigs = []
        for r in cand[:rng.choice([1, 1, 2])]:
            for m in rng.sample(sids, rng.randint(1, min(3, len(sids)))):
                rigs.append([r, m, ctr.next()])
            rig_ids.append(r)
        if dangling and rng.random() < 0.4:
            rigs.append([rig_ids[0], rng.choice(['ghost', rig_ids[-1]]), ctr.next()])
        d['rigs'] = rigs
    devs = sids + rig_ids
    if has('trajectories', 0.6) and (devs or dangling):
        tr, seen = [], set()
        for _ in range(rng.choice([1, 2, 3, 5])):
            k = (rng.randint(0, 4), rng.choice(devs) if devs and not (dangling and rng.random() < 0.3) else 'ghost')
            if k not in seen:
                seen.add(k)
                tr.append([k[0], k[1], ctr.next()])
        d['trajectories'] = tr
    for part in REC2 + REC3:
        if not has(part, 0.45):
            continue
        mine = [s[0] for s in sens if s[1] == TYPE_OF_PART[part]]
        if not mine and mode == 'lib':
            mine = sids[:1]
        if dangling and rng.random() < 0.25:
            mine = mine + ['ghost']
        if not mine:
            continue
        ent, seen = [], set()
        for _ in range(rng.choice([1, 2, 3, 4])):
            if part in REC3:
                k = (rng.randint(0, 4), rng.choice(mine), rng.choice(['aa:01', 'aa:02', 'bb:03']))
            else:
                k = (rng.randint(0, 4), rng.choice(mine))
            if k not in seen:
                seen.add(k)
                ent.append(list(k) + [ctr.next()])
        d[part] = ent
    return d


def _gen_case(rng, mode, n=None, dangling=False):
    ctr = _Ctr()
    n = n or rng.choice([1, 2, 2, 3, 3, 4])
    r = rng.random()
    if r < 0.55:
        skip = []
    elif r < 0.75:
        skip = [rng.choice(SKIPPABLE)]
    else:
        skip = [s for s in SKIPPABLE if rng.random() < 0.3]
    return {'mode': mode, 'skip': skip, 'inputs': [_gen_dataset(rng, i, ctr, mode, None, dangling) for i in range(n)]}


def _gen_before(rng, c, mode):
    """earlier merges of the same process that are handed the SAME skip list object as the judged merge: 1..2 steps of
    1..2 datasets each (lib: an item may be the index of a judged input = the very same Kapture object merged before),
    each step lacking a random set of skippable parts in ALL its datasets"""
    ctr = _Ctr()
    ctr.n = 7000
    steps = []
    for _ in range(rng.choice([1, 1, 2])):
        absent = [p for p in SKIPPABLE if rng.random() < 0.5]
        step = []
        for j in range(rng.choice([1, 2])):
            if mode == 'lib' and rng.random() < 0.25:
                i = rng.randrange(len(c['inputs']))
                if all(c['inputs'][i][p] is None for p in absent) or rng.random() < 0.3:
                    step.append(i)
                    continue
            d = _gen_dataset(rng, 10 + 10 * len(steps) + j, ctr, mode)
            for p in absent:
                d[p] = None
            step.append(d)
        steps.append(step)
    return steps


def gen_cases(rng, tier):
    cases = []
    # the time dimension of "some inputs lack some parts": for each skippable part, a merge of datasets that all lack
    # the part, then (same skip list object) a merge of datasets that all have it
    for part in SKIPPABLE:
        ctr = _Ctr()
        present = {p: True for p in PARTS}
        first = _gen_dataset(rng, 10, ctr, 'lib', dict(present, **{part: False}))
        ins = [_gen_dataset(rng, i, ctr, 'lib', present) for i in range(2)]
        cases.append({'mode': 'lib', 'skip': [], 'inputs': ins, 'before': [[first]]})
    # every presence pattern of each part over 2 and 3 inputs, everything else present
    for n in (2, 3):
        for part in PARTS:
            for pat in itertools.product([False, True], repeat=n):
                ctr = _Ctr()
                mode = 'lib' if (part == 'sensors' or rng.random() < 0.8) else 'tool'
                ins = []
                for i in range(n):
                    present = {p: True for p in PARTS}
                    present[part] = pat[i]
                    ins.append(_gen_dataset(rng, i, ctr, mode, present))
                cases.append({'mode': mode, 'skip': [], 'inputs': ins})
    n_lib, n_tool = (450, 110) if tier == 'quick' else (6000, 1200)
    for i in range(n_lib):
        c = _gen_case(rng, 'lib', dangling=(i % 12 == 11))
        if i % 3 == 1:
            c['before'] = _gen_before(rng, c, 'lib')
        cases.append(c)
    for i in range(n_tool):
        c = _gen_case(rng, 'tool')
        if i % 2 == 1:
            # history: the output directory already holds the result of an earlier merge of OTHER datasets (no skip);
            # the judged merge then runs with force and a skip list naming parts that the old output has
            pctr = _Ctr()
            pctr.n = 5000
            prior = [_gen_dataset(rng, j, pctr, 'tool') for j in range(rng.choice([1, 2, 3]))]
            had = [p for p in SKIPPABLE if any(x[p] for x in prior)]
            if had:
                extra = rng.sample(had, rng.randint(1, min(3, len(had))))
                c['skip'] = [p for p in SKIPPABLE if p in c['skip'] or p in extra]
            c['prior'] = prior
        elif i % 4 == 0:
            # session: earlier merge_kaptures calls of this process (own output directories) with the same skip argument
            # object; with nothing to skip, every call of the session leaves the argument out (the default is one object)
            c['before'] = _gen_before(rng, c, 'tool')
            if not c['skip'] and rng.random() < 0.5:
                c['skip_default'] = True
        cases.append(c)
    return cases


# ------------------------------------------------------------------------------------------ building / observing
def _pose(tok):
    import kapture
    return kapture.PoseTransform(r=[float(x) for x in QUATS[tok % len(QUATS)]], t=[tok / 4.0, 0.5, -1.0])


def _sensor(st, name):
    import kapture
    if st in ('camera', 'depth'):
        return kapture.create_sensor(st, ['SIMPLE_PINHOLE', 640, 480, 500, 320, 240], name)
    if st == 'gnss':
        return kapture.create_sensor(st, ['EPSG:4326'], name)
    return kapture.create_sensor(st, [], name)


def _build(x):
    import kapture
    k = kapture.Kapture()
    if x['sensors'] is not None:
        k.sensors = kapture.Sensors()
        for sid, st, name in x['sensors']:
            k.sensors[sid] = _sensor(st, name)
    if x['rigs'] is not None:
        k.rigs = kapture.Rigs()
        for r, m, tok in x['rigs']:
            k.rigs[r, m] = _pose(tok)
    if x['trajectories'] is not None:
        k.trajectories = kapture.Trajectories()
        for ts, dev, tok in x['trajectories']:
            k.trajectories[ts, dev] = _pose(tok)
    for part in ('records_camera', 'records_depth', 'records_lidar'):
        if x[part] is not None:
            t = {'records_camera': kapture.RecordsCamera, 'records_depth': kapture.RecordsDepth,
                 'records_lidar': kapture.RecordsLidar}[part]()
            for ts, sid, tok in x[part]:
                t[ts, sid] = f'{part[8:]}/{tok}.dat'
            setattr(k, part, t)
    if x['records_gnss'] is not None:
        k.records_gnss = kapture.RecordsGnss()
        for ts, sid, tok in x['records_gnss']:
            k.records_gnss[ts, sid] = kapture.RecordGnss(tok / 8.0, 1.5, -2.25, tok, 0.5)
    for part, tc, rc in (('records_accelerometer', 'RecordsAccelerometer', 'RecordAccelerometer'),
                         ('records_gyroscope', 'RecordsGyroscope', 'RecordGyroscope'),
                         ('records_magnetic', 'RecordsMagnetic', 'RecordMagnetic')):
        if x[part] is not None:
            t = getattr(kapture, tc)()
            for ts, sid, tok in x[part]:
                t[ts, sid] = getattr(kapture, rc)(tok / 8.0, -0.5, 4.0)
            setattr(k, part, t)
    if x['records_wifi'] is not None:
        k.records_wifi = kapture.RecordsWifi()
        for ts, sid, addr, tok in x['records_wifi']:
            if (ts, sid) not in k.records_wifi:
                k.records_wifi[ts, sid] = kapture.RecordWifi()
            k.records_wifi[ts, sid][addr] = kapture.RecordWifiSignal(2400 + tok, -40.5, f'net{tok}', tok, tok + 1)
    if x['records_bluetooth'] is not None:
        k.records_bluetooth = kapture.RecordsBluetooth()
        for ts, sid, addr, tok in x['records_bluetooth']:
            if (ts, sid) not in k.records_bluetooth:
                k.records_bluetooth[ts, sid] = kapture.RecordBluetooth()
            k.records_bluetooth[ts, sid][addr] = kapture.RecordBluetoothSignal(-60.25 - tok, f'dev{tok}')
    return k


def _val(v):
    """canonical text of a value: what must be unchanged by the merge"""
    import kapture
    if isinstance(v, kapture.Sensor):
        return repr(('sensor', v.sensor_type, v.name, [str(p) for p in v.sensor_params]))
    if isinstance(v, kapture.PoseTransform):
        return repr(('pose', v.r_raw, v.t_raw))
    if isinstance(v, str):
        return repr(('path', v))
    return repr((type(v).__name__, list(v.astuple())))


def _flat(k):
    """every part of a Kapture object as a list of [key..., value text] in iteration order (None if absent)"""
    out = {p: None for p in PARTS}
    if k.sensors is not None:
        out['sensors'] = [[sid, _val(s)] for sid, s in k.sensors.items()]
    if k.rigs is not None:
        out['rigs'] = [[r, m, _val(p)] for r, mem in k.rigs.items() for m, p in mem.items()]
    if k.trajectories is not None:
        out['trajectories'] = [[int(ts), dev, _val(p)] for ts, mem in k.trajectories.items() for dev, p in mem.items()]
    for part in REC2:
        t = getattr(k, part)
        if t is not None:
            out[part] = [[int(ts), sid, _val(v)] for ts, mem in t.items() for sid, v in mem.items()]
    for part in REC3:
        t = getattr(k, part)
        if t is not None:
            out[part] = [[int(ts), sid, addr, _val(v)] for ts, mem in t.items() for sid, rec in mem.items() for addr, v in rec.items()]
    return out


def _skip_types(skip):
    import kapture
    m = {'trajectories': kapture.Trajectories, 'records_camera': kapture.RecordsCamera, 'records_depth': kapture.RecordsDepth,
         'records_lidar': kapture.RecordsLidar, 'records_wifi': kapture.RecordsWifi, 'records_bluetooth': kapture.RecordsBluetooth,
         'records_gnss': kapture.RecordsGnss, 'records_accelerometer': kapture.RecordsAccelerometer,
         'records_gyroscope': kapture.RecordsGyroscope, 'records_magnetic': kapture.RecordsMagnetic}
    return [m[s] for s in SKIPPABLE if s in skip]


_SKIP_NAME = None


def _skip_names(sl):
    """the caller's skip list as it is now: part names for the ten skippable types (or names), anything else by its name"""
    global _SKIP_NAME
    if _SKIP_NAME is None:
        _SKIP_NAME = {t: n for n, t in zip(SKIPPABLE, _skip_types(SKIPPABLE))}
    out = []
    for t in sl:
        if isinstance(t, str):
            out.append(t)
        else:
            out.append(_SKIP_NAME.get(t) or ('?' + getattr(t, '__name__', repr(t))))
    return out


def _run_lib(case):
    from kapture.algo.merge_remap import merge_remap
    from kapture.io.records import TransferAction
    from kapture.io.tar import TarCollection
    ks = [_build(x) for x in case['inputs']]
    sl = _skip_types(case['skip'])                  # ONE list object for every merge of the case
    shared = {}                                     # data_paths / tar handler lists are re-used too (per length)

    def call(objs):
        before = [_flat(k) for k in objs]
        r = {'inputs': before}
        paths, tars = shared.setdefault(len(objs), (['' for _ in objs], [TarCollection() for _ in objs]))
        try:
            m = merge_remap(objs, sl, paths, tars, '', TransferAction.skip)
            r['out'] = _flat(m)
        except Exception as e:
            r['exc'] = f'{type(e).__name__}: {e}'[:200]
            r['exc_type'] = type(e).__name__
        r['inputs_changed'] = ([_flat(k) for k in objs] != before)
        r['skip_after'] = _skip_names(sl)
        return r
    skip_before = _skip_names(sl)
    steps = [call([ks[it] if isinstance(it, int) else _build(it) for it in step]) for step in case.get('before') or []]
    res = call(ks)
    res['skip_before'] = skip_before
    if case.get('before'):
        res['before'] = steps
    return res


def _read_dir(root):
    """reads every part file of a dataset directory with the per-file readers, without any sensor filtering"""
    import kapture
    import kapture.io.csv as kcsv
    k = kapture.Kapture()
    readers = {'sensors': (kapture.Sensors, kcsv.sensors_from_file), 'rigs': (kapture.Rigs, kcsv.rigs_from_file),
               'trajectories': (kapture.Trajectories, kcsv.trajectories_from_file),
               'records_camera': (kapture.RecordsCamera, kcsv.records_camera_from_file),
               'records_depth': (kapture.RecordsDepth, kcsv.records_depth_from_file),
               'records_lidar': (kapture.RecordsLidar, kcsv.records_lidar_from_file),
               'records_wifi': (kapture.RecordsWifi, kcsv.records_wifi_from_file),
               'records_bluetooth': (kapture.RecordsBluetooth, kcsv.records_bluetooth_from_file),
               'records_gnss': (kapture.RecordsGnss, kcsv.records_gnss_from_file),
               'records_accelerometer': (kapture.RecordsAccelerometer, kcsv.records_accelerometer_from_file),
               'records_gyroscope': (kapture.RecordsGyroscope, kcsv.records_gyroscope_from_file),
               'records_magnetic': (kapture.RecordsMagnetic, kcsv.records_magnetic_from_file)}
    for part, (cls, fn) in readers.items():
        p = os.path.join(root, kcsv.CSV_FILENAMES[cls])
        if os.path.isfile(p):
            v = fn(p)
            setattr(k, part, v if len(v) > 0 else None)
    return k


def _run_tool(case, ctx):
    import logging
    import kapture.io.csv as kcsv
    import kapture_merge
    logging.getLogger('kapture').setLevel(logging.ERROR)
    base = os.path.join(ctx['tmp'], 'c10')
    shutil.rmtree(base, ignore_errors=True)
    os.makedirs(base)
    roots = []
    for i, x in enumerate(case['inputs']):
        r = os.path.join(base, f'in{i}')
        kcsv.kapture_to_dir(r, _build(x))
        roots.append(r)
    sl = _skip_types(case['skip'])
    loaded = [_flat(kcsv.kapture_from_dir(r, skip_list=sl)) for r in roots]
    res = {'inputs': loaded}
    out = os.path.join(base, 'out')
    if case.get('prior'):
        proots = []
        for i, x in enumerate(case['prior']):
            r = os.path.join(base, f'prior{i}')
            kcsv.kapture_to_dir(r, _build(x))
            proots.append(r)
        try:
            kapture_merge.merge_kaptures(proots, out, keep_sensor_ids=False, skip=[], force=True)
        except Exception as e:
            res['prior_exc'] = f'{type(e).__name__}: {e}'[:120]
        res['prior_out'] = sorted(p for p, v in _flat(_read_dir(out)).items() if v) if os.path.isdir(out) else []
    import inspect
    default = inspect.signature(kapture_merge.merge_kaptures).parameters['skip'].default
    use_default = bool(case.get('skip_default')) and not case['skip'] and isinstance(default, list)
    skip_obj = default if use_default else list(case['skip'])      # ONE argument object for every merge of the case
    res['skip_before'] = _skip_names(skip_obj)

    def call(r, in_roots, in_loaded, out_dir):
        try:
            if use_default:
                kapture_merge.merge_kaptures(in_roots, out_dir, keep_sensor_ids=False, force=True)
            else:
                kapture_merge.merge_kaptures(in_roots, out_dir, keep_sensor_ids=False, skip=skip_obj, force=True)
            r['out'] = _flat(_read_dir(out_dir))
        except Exception as e:
            r['exc'] = f'{type(e).__name__}: {e}'[:200]
            r['exc_type'] = type(e).__name__
        r['inputs_changed'] = ([_flat(kcsv.kapture_from_dir(x, skip_list=sl)) for x in in_roots] != in_loaded)
        r['skip_after'] = _skip_names(skip_obj)
    steps = []
    for k, step in enumerate(case.get('before') or []):
        sroots = []
        for j, x in enumerate(step):
            if isinstance(x, int):
                sroots.append(roots[x])
            else:
                r = os.path.join(base, f'b{k}in{j}')
                kcsv.kapture_to_dir(r, _build(x))
                sroots.append(r)
        st = {'inputs': [_flat(kcsv.kapture_from_dir(r, skip_list=sl)) for r in sroots]}
        call(st, sroots, st['inputs'], os.path.join(base, f'b{k}out'))
        steps.append(st)
    if steps:
        res['before'] = steps
    call(res, roots, loaded, out)
    shutil.rmtree(base, ignore_errors=True)
    return res


def run_impl(case, ctx):
    import warnings
    with warnings.catch_warnings():
        warnings.simplefilter('ignore')
        if case['mode'] == 'lib':
            return _run_lib(case)
        return _run_tool(case, ctx)


# ------------------------------------------------------------------------------------------ oracle
def _empty(t):
    return t is None or len(t) == 0


def _dangling(inputs, skip):
    """does some merged entry refer to an identifier that its own input does not define?"""
    for x in inputs:
        sids = {e[0] for e in (x['sensors'] or [])}
        rids = {e[0] for e in (x['rigs'] or [])}
        for r, m, _ in (x['rigs'] or []):
            if m not in sids:
                return True
        if 'trajectories' not in skip:
            for ts, dev, _ in (x['trajectories'] or []):
                if dev not in sids and dev not in rids:
                    return True
        for part in REC2 + REC3:
            if part not in skip:
                for e in (x[part] or []):
                    if e[1] not in sids:
                        return True
    return False


def oracle(case, obs):
    """The property, stated on the observed behaviour of EVERY merge of the case (the judged one and the earlier merges
    of its session): each is the disjoint union of its own inputs under the skip list the caller built, whatever was
    merged before with the same argument objects."""
    for k, st in enumerate(obs.get('before') or []):
        r = _judge(st, case['skip'])
        if r:
            return f'earlier merge {k + 1} of the session: {r}'
    return _judge(obs, case['skip'])


def _judge(obs, skip):
    """one merge; the renaming is recovered from the output (every sensor has a distinct name, every rig member a
    distinct pose), not assumed to follow the sensor<N> scheme."""
    if obs.get('inputs_changed'):
        return 'the merge modified its inputs'
    inputs = obs['inputs']
    if _dangling(inputs, skip):
        return None
    if 'exc' in obs:
        return f'merge raised {obs["exc_type"]} although every identifier is defined by its own input'
    out = obs['out']
    # -- sensors: recover sigma_i
    owner = {}
    for i, x in enumerate(inputs):
        for sid, v in (x['sensors'] or []):
            if v in owner:
                return None                      # generator invariant broken: cannot decide
            owner[v] = (i, sid)
    sigma = [dict() for _ in inputs]
    new_ids = [e[0] for e in (out['sensors'] or [])]
    if len(new_ids) != len(owner):
        return 'sensors: counts do not add up'
    if len(set(new_ids)) != len(new_ids):
        return 'sensors: two sensors share one new identifier'
    for nid, v in (out['sensors'] or []):
        if v not in owner:
            return 'sensors: a merged sensor is not a sensor of any input (value changed)'
        i, sid = owner[v]
        if sid in sigma[i]:
            return 'sensors: a sensor appears twice in the output'
        sigma[i][sid] = nid
    # -- rigs: recover rho_i, check geometry
    rho = [dict() for _ in inputs]
    powner = {}
    for i, x in enumerate(inputs):
        for r, m, v in (x['rigs'] or []):
            if v in powner:
                return None
            powner[v] = (i, r, m)
    orig = out['rigs'] or []
    if len(orig) != len(powner):
        return 'rigs: counts do not add up'
    for R, M, v in orig:
        if v not in powner:
            return 'rigs: a merged rig pose is not a pose of any input (value changed)'
        i, r, m = powner[v]
        if rho[i].setdefault(r, R) != R:
            return 'rigs: one rig of one input is split over two new identifiers'
        if sigma[i].get(m) != M:
            return 'rigs: a rig member is not renamed with the sensor identifier of its own input'
    all_r = [R for d in rho for R in d.values()]
    if len(set(all_r)) != len(all_r):
        return 'rigs: two rigs share one new identifier'
    if set(all_r) & set(new_ids):
        return 'a rig and a sensor share one new identifier'
    # -- every other part: disjoint union of the renamed entries
    for part in ['trajectories'] + REC2 + REC3:
        got = out[part]
        if part in skip:
            if not _empty(got):
                return f'{part}: present in the merged dataset although skipped (entries that no input of this merge has)'
            continue
        exp = []
        for i, x in enumerate(inputs):
            for e in (x[part] or []):
                dev = e[1]
                if part == 'trajectories' and dev in rho[i]:
                    nd = rho[i][dev]
                else:
                    nd = sigma[i][dev]
                exp.append(tuple([e[0], nd] + list(e[2:])))
        got = [tuple(e) for e in (got or [])]
        if len(got) != len(exp):
            return f'{part}: counts do not add up'
        if sorted(got) != sorted(exp):
            return f'{part}: an entry is attributed to an identifier of another input, or altered'
    return None


# ------------------------------------------------------------------------------------------ encoding
def _tok(table, v):
    if v not in table:
        table[v] = len(table) + 1
    return table[v]


def _c_part(part, entries, table):
    if entries is None:
        return 'None'
    if part == 'sensors':
        items = [kv.cpair(kv.cstr(e[0]), kv.cz(_tok(table, e[1]))) for e in entries]
    elif part == 'rigs':
        items = [kv.cpair(kv.cpair(kv.cstr(e[0]), kv.cstr(e[1])), kv.cz(_tok(table, e[2]))) for e in entries]
    elif part in REC3:
        items = [kv.cpair(kv.cpair(kv.cz(e[0]), kv.cstr(e[1]), kv.cstr(e[2])), kv.cz(_tok(table, e[3]))) for e in entries]
    else:
        items = [kv.cpair(kv.cpair(kv.cz(e[0]), kv.cstr(e[1])), kv.cz(_tok(table, e[2]))) for e in entries]
    return '(Some %s)' % kv.clist(items)


def _c_fun(kinds, x, table, none_if_empty):
    arms = []
    for part, con in kinds.items():
        t = x[part]
        if none_if_empty and _empty(t):
            t = None
        if t is not None:
            arms.append(f'{con} => {_c_part(part, t, table)}')
    if len(arms) < len(kinds):
        arms.append('_ => None')
    return '(fun k => match k with %s end)' % ' | '.join(arms)


def _c_dataset(con, x, table, none_if_empty=False):
    def p(part):
        t = x[part]
        if none_if_empty and _empty(t):
            t = None
        return _c_part(part, t, table)
    return '(%s %s %s %s %s %s)' % (con, p('sensors'), p('rigs'), p('trajectories'),
                                    _c_fun(K2, x, table, none_if_empty), _c_fun(K3, x, table, none_if_empty))


def _c_skiplist(names):
    def one(n):
        if n == 'trajectories':
            return 'SkTraj'
        if n in K2:
            return f'(SkRec2 {K2[n]})'
        if n in K3:
            return f'(SkRec3 {K3[n]})'
        return f'(SkOther {kv.cstr(n)})'
    return kv.clist(one(n) for n in names)


def encode(case, obs):
    table = {}

    def c_call(o):
        c_in = kv.clist(_c_dataset('mkD', x, table) for x in o['inputs'])
        c_out = 'None' if 'exc' in o else '(Some %s)' % _c_dataset('mkM', o['out'], table, none_if_empty=True)
        return '(mkCall %s %s %s)' % (c_in, c_out, _c_skiplist(o['skip_after']))
    calls = [c_call(o) for o in (obs.get('before') or [])] + [c_call(obs)]
    return '(mkCase %s %s)' % (_c_skiplist(obs['skip_before']), kv.clist(calls))


# ------------------------------------------------------------------------------------------ evidence
def nontrivial(case, obs):
    ins = obs['inputs']
    if case.get('prior') and any(p in case['skip'] for p in (obs.get('prior_out') or [])):
        return True          # a skipped part was in the output directory before the merge
    for st in obs.get('before') or []:
        if any(p not in case['skip'] and any(x[p] for x in ins) and not any(x[p] for x in st['inputs']) for p in SKIPPABLE):
            return True      # an earlier merge with the same skip list had a part nowhere that this merge has
    if sum(1 for x in ins if x['sensors']) < 2:
        return False
    for part in PARTS[1:]:
        if part in case['skip']:
            continue
        n = sum(1 for x in ins if x[part])
        if n >= 2 or (0 < n < len(ins)):
            return True
    return False


def classify(case, obs):
    ins = obs['inputs']
    gaps = 0
    for part in PARTS:
        pres = [bool(x[part]) for x in ins]
        if any(pres) and not pres[0]:
            gaps += 1                     # the shape that exposed the defect: missing in the first input, present later
    out = 'raise' if 'exc' in obs else 'ok'
    mode = case['mode'] + ('+old-output' if case.get('prior') else '')
    if case.get('before'):
        mode += '+session%d%s' % (len(case['before']), '(default-skip)' if case.get('skip_default') else '')
    return f'{mode}/n={len(ins)}/skip={min(len(case["skip"]), 3)}/missing-before-present={min(gaps, 3)}/{out}'


def describe(case, obs):
    return {'mode': case['mode'], 'skip': case['skip'], 'output_directory_held_before': obs.get('prior_out'),
            'earlier_merges_with_the_same_skip_list': [
                {'inputs': [{p: len(x[p]) for p in PARTS if x[p]} for x in st['inputs']],
                 'observed': st.get('exc') or {p: len(v) for p, v in st['out'].items() if v},
                 'skip_list_after': st['skip_after']} for st in (obs.get('before') or [])] or None,
            'skip_list_after': obs.get('skip_after'),
            'inputs': [{p: (None if x[p] is None else len(x[p])) for p in PARTS if x[p] is not None} for x in case['inputs']],
            'observed': obs.get('exc') or {p: len(v) for p, v in obs['out'].items() if v},
            'new_sensor_ids': None if 'exc' in obs else [e[0] for e in (obs['out']['sensors'] or [])]}


def _without_input(case, i):
    """the case without judged input i (indices used by the session steps follow)"""
    c = copy.deepcopy(case)
    del c['inputs'][i]
    if c.get('before'):
        c['before'] = [[(it - 1 if it > i else it) if isinstance(it, int) else it for it in step
                        if not (isinstance(it, int) and it == i)] for step in c['before']]
        c['before'] = [st for st in c['before'] if st]
        if not c['before']:
            del c['before']
    return c


def shrink(case):
    ins = case['inputs']
    if case.get('before'):
        c = copy.deepcopy(case)
        del c['before']
        c.pop('skip_default', None)
        yield c
        if len(case['before']) > 1:
            for k in range(len(case['before'])):
                c = copy.deepcopy(case)
                del c['before'][k]
                yield c
        for k, step in enumerate(case['before']):
            if len(step) > 1:
                for j in range(len(step)):
                    c = copy.deepcopy(case)
                    del c['before'][k][j]
                    yield c
            for j, x in enumerate(step):
                if isinstance(x, int):
                    continue
                for part in PARTS[1:]:
                    if x[part] is not None:
                        c = copy.deepcopy(case)
                        c['before'][k][j][part] = None
                        yield c
    if case.get('prior'):
        c = copy.deepcopy(case)
        del c['prior']
        yield c
        if len(case['prior']) > 1:
            for i in range(len(case['prior'])):
                c = copy.deepcopy(case)
                del c['prior'][i]
                yield c
        for i, x in enumerate(case['prior']):
            for part in PARTS[1:]:
                if x[part] is not None:
                    c = copy.deepcopy(case)
                    c['prior'][i][part] = None
                    yield c
    for s_ in case['skip']:
        if len(case['skip']) > 1:
            c = copy.deepcopy(case)
            c['skip'] = [y for y in case['skip'] if y != s_]
            yield c
    if len(ins) > 1:
        for i in range(len(ins)):
            yield _without_input(case, i)
    if case['skip']:
        c = copy.deepcopy(case)
        c['skip'] = []
        yield c
    for i, x in enumerate(ins):
        for part in PARTS[1:]:
            if x[part] is not None:
                c = copy.deepcopy(case)
                c['inputs'][i][part] = None
                yield c
    for i, x in enumerate(ins):
        for part in PARTS[1:]:
            if x[part] and len(x[part]) > 1:
                for j in range(len(x[part])):
                    c = copy.deepcopy(case)
                    del c['inputs'][i][part][j]
                    yield c
        if x['sensors'] and len(x['sensors']) > 1:
            used = {e[1] for p in PARTS[1:] for e in (x[p] or [])} | {e[0] for e in (x['rigs'] or [])}
            for j, s in enumerate(x['sensors']):
                if s[0] not in used:
                    c = copy.deepcopy(case)
                    del c['inputs'][i]['sensors'][j]
                    yield c


TECHNIQUE = ('Coq proofs (injectivity and pairwise disjointness of the generated identifiers from the injectivity of decimal printing; '
             'exactness of every table merge as a list equality with the concatenation of the renamed inputs, by induction on the input '
             'list) over an executable Gallina model; differential correspondence with merge_remap and the merge tool by vm_compute')
LEVEL_TEXT = ('Theorems in coq/Props/C10.v hold for every list of datasets, every pattern of missing parts and every skip list: the '
              'renamings sensor<N>/rig<N> are injective, pairwise disjoint across inputs and between sensors and rigs; every merged '
              'table (sensors, rigs, trajectories, 7 two-key record kinds, wifi/bluetooth) equals the concatenation over the inputs of '
              'the input table renamed with that same input\'s mapping (so counts add up and nothing is lost, duplicated, overwritten or '
              'attributed to another input), timestamps/addresses/values untouched; trajectories follow the rig mapping first; the only '
              'failure is an entry referring to an identifier its own input does not define. In any sequence of merges handed one skip-list '
              'object every merge equals the merge of its own inputs alone and the list is left as it was; treating parts that no input '
              'has as skipped is proved invisible within one call (which is why sequences are run). The model is tied to the code by running '
              'merge_remap on generated datasets and merge_kaptures on real directories and comparing every part inside Coq.')
LEVEL_NOTE = ('Trusted: Coq kernel + vm_compute, harness encoders and value canonicalisation, kapture csv readers/writers in tool cases. '
              'Nested dict iteration order of the result is abstracted (compared as multisets); nested rigs and dangling identifiers are '
              'modelled (KeyError) but not judged by the oracle.')
