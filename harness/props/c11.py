"""C11 — merged reconstructions keep each observation on the same 3-D point and feature.
Implementation under test: kapture.algo.merge_reconstruction (merge_points3d_and_observations,
merge_points3d, feature / match file transfer) reached directly and through
tools/kapture_merge.py merge_kaptures (both merge drivers)."""
import copy
import io
import os
import shutil
import struct
import tarfile

import kv

ID = 'C11'
COQ_MODELS = ['MMergeRecon']
COQ_HEADER = 'From KV Require Import Eqb AL Str.\nFrom KV.Model Require Import MMergeRecon.\nLocal Open Scope Z_scope.'
CASE_TYPE = 'MMergeRecon.case'
CHECK_FN = 'MMergeRecon.check_case'
SHARD_SIZE = 100
RULE = ('lib cases: a list of 1..4 inputs, each (points: None / empty Nx3 / empty Nx6 / 1..5 rows of 3 or 6 float64 given by '
        'their 64 bits, specials included; observations: None / empty / list of Observations.add calls over 3 keypoints types, '
        'a shared pool of image names, duplicates, mostly in-range point indices plus an out-of-range stream); both '
        'merge_points3d_and_observations and merge_points3d are run. Enumerated: every pattern of {no points, 0x3, 0x6, Nx3, '
        'Nx6} x {no observations, observations} over 1..2 inputs (quick) / 1..3 inputs (thorough). tool cases: 1..4 real '
        'dataset directories (sensors, records_camera, keypoints / descriptors / global features / matches each kept in a '
        'directory - plain files, or relative / absolute symbolic links to a store elsewhere, or the type directory itself a link; '
        'the output lies at another depth than the inputs - or in a '
        'tar archive, per input and per type; 65% of the archives have a history: members written again under the same name '
        '(same size / other number of rows / unchanged), interleaved, in 1..3 sessions - first session by the tar format writer '
        '(optionally with directory entries and ./ names as `tar -cf x.tar .` makes) or by kapture TarHandler(mode=a), later sessions '
        'always by TarHandler.add_array_to_tar after re-opening; the raw member list of every archive is read back with the '
        'tarfile module and given to Coq, together with what kapture TarHandler(mode=r) lists and reads for it - points3d.txt, observations.txt), merged by merge_kaptures with '
        'either driver and a random skip list; the output directory is read back. remerge cases: the four merge_*_collections '
        'functions (library API) merge 1..3 inputs (directory and tar sources) into a destination that is NOT empty: an earlier merge of an '
        'earlier state of the same inputs (files recomputed with the same size / another size / unchanged / absent) and/or stale files '
        'under destination names (same size, truncated, longer, empty); the whole destination tree before and after is compared. '
        'Non-trivial = at least two inputs with points, or a tool case with feature files, or a remerge case where a destination file '
        'must be replaced; distinct = distinct case content.')
TRUSTED = ['numpy: np.vstack copies float64 rows bit for bit and refuses different column counts; np.frombuffer/reshape/tofile '
           'round-trip the bytes of a tar member that holds whole rows and raise ValueError otherwise (model: transfer)',
           'shutil.copy copies bytes; the tarfile module lists the members of an archive in archive order and extractfile(member) returns '
           'the bytes of that member (the raw member list given to Coq is read with it, not with kapture); os.path.normpath '
           'is the name normalisation of path_secure',
           'tool cases read datasets with kapture.io.csv.kapture_from_dir (what the tool itself loads is taken as the input of the merge) '
           'and read the output with points3d_from_file / observations_from_file']
ASSUMPTIONS = ['observations of an input that has no points3d designate no coordinates: the code drops them and the oracle expects exactly that',
               'clouds of different column counts (Nx3 with Nx6, both non-empty) cannot be concatenated: ValueError is the accepted outcome and the oracle does not judge those cases',
               'a tar member that does not hold a whole number of rows is outside the judged domain (the model predicts the ValueError)',
               'tool cases use coordinates that %.10f prints exactly (multiples of 1/1024), so the text round trip is not part of what is compared']
EXHAUSTIVE = {'quick': False, 'thorough': False}

KTYPES = ['kpA', 'kpB', 'kp_c']
IMAGES = ['a.jpg', 'b.jpg', 'dir/c.jpg', 'dir/sub/d.png', 'e.jpg']
SPECIAL_BITS = [0x0000000000000000, 0x8000000000000000, 0x7FF0000000000000, 0xFFF0000000000000, 0x7FF8000000000000,
                0x7FF8000000000001, 0x0000000000000001, 0x3FF0000000000000, 0x7FEFFFFFFFFFFFFF, 0x3FB999999999999A]
KINDS = ['keypoints', 'descriptors', 'global_features', 'matches']
SKIPPABLE = ['keypoints', 'descriptors', 'global_features', 'matches', 'points3d', 'observations', 'trajectories']


# ------------------------------------------------------------------------------------------ generation
def _rand_bits(rng):
    r = rng.random()
    if r < 0.2:
        return rng.choice(SPECIAL_BITS)
    if r < 0.6:
        return struct.unpack('<Q', struct.pack('<d', rng.choice([1, -1]) * rng.randint(0, 4096) / 64.0))[0]
    return rng.getrandbits(64)


def _rand_rows(rng, w, n):
    return [[_rand_bits(rng) for _ in range(w)] for _ in range(n)]


def _rand_obs(rng, npts, dangling):
    out = []
    for _ in range(rng.choice([0, 1, 2, 3, 5, 8])):
        if dangling and rng.random() < 0.4:
            k = rng.choice([-1, npts, npts + 1, npts + 3])
        elif npts > 0:
            k = rng.randrange(npts)
        else:
            k = rng.randrange(3) if dangling else None
        if k is None:
            continue
        o = [k, rng.choice(KTYPES), rng.choice(IMAGES), rng.randint(0, 40)]
        out.append(o)
        if rng.random() < 0.15:
            out.append(list(o))
    return out


def _lib_input(rng, pkind, okind, dangling=False):
    """pkind in none/e3/e6/n3/n6 ; okind in none/empty/some"""
    if pkind == 'none':
        pts, n = None, 0
    else:
        w = 3 if pkind.endswith('3') else 6
        n = 0 if pkind.startswith('e') else rng.randint(1, 5)
        pts = {'w': w, 'rows': _rand_rows(rng, w, n)}
    if okind == 'none':
        obs = None
    elif okind == 'empty':
        obs = []
    else:
        obs = _rand_obs(rng, n if pts is not None else rng.randint(0, 3), dangling or pts is None)
    return {'pts': pts, 'obs': obs}


def _gen_lib_random(rng):
    n = rng.choice([1, 2, 2, 3, 3, 4])
    style = rng.random()
    base = rng.choice(['3', '6'])
    other = '6' if base == '3' else '3'
    dangling = rng.random() < 0.12
    ins = []
    for _ in range(n):
        r = rng.random()
        if r < 0.18:
            pk = 'none'
        elif r < 0.32:
            pk = 'e' + (base if style < 0.75 or rng.random() < 0.5 else other)
        else:
            pk = 'n' + (base if style < 0.88 or rng.random() < 0.6 else other)
        ok = rng.choice(['none', 'empty', 'some', 'some', 'some'])
        ins.append(_lib_input(rng, pk, ok, dangling))
    return {'mode': 'lib', 'inputs': ins}


def _dyadic(rng):
    return rng.choice([1, -1]) * rng.randint(0, 1 << 20) / 1024.0


def _rand_bytes(rng, n):
    return bytes(rng.getrandbits(8) for _ in range(n)).hex()


FEAT_SPECS = {   # per feature type name: (dtype, dsize)  -- identical across inputs, as the merge asserts
    'keypoints': {'kpA': ('float32', 2), 'kpB': ('float64', 3), 'kp_c': ('uint8', 4)},
    'descriptors': {'dA': ('uint8', 8), 'dB': ('float32', 4)},
    'global_features': {'gA': ('float32', 5), 'gB': ('float64', 2)},
    'matches': {'kpA': ('float64', 3), 'kpB': ('float64', 3)},
}
DESC_KP = {'dA': 'kpA', 'dB': 'kpB'}
ITEMSIZE = {'float32': 4, 'float64': 8, 'uint8': 1}


def _gen_features(rng, images, malformed=False):
    feats = {}
    for kind in KINDS:
        feats[kind] = {}
        for ft, (dt, ds) in FEAT_SPECS[kind].items():
            if rng.random() < 0.45:
                continue
            tar = rng.random() < 0.5
            files = {}
            unit = ITEMSIZE[dt] * ds
            if kind == 'matches':
                pairs = [(a, b) for a in images for b in images if a < b]
                for a, b in rng.sample(pairs, min(len(pairs), rng.randint(0, 3))):
                    files[a + '|' + b] = _rand_bytes(rng, unit * rng.randint(0, 3))
            else:
                for im in images:
                    if rng.random() < 0.7:
                        files[im] = _rand_bytes(rng, unit * rng.randint(0, 3))
            if malformed and files and rng.random() < 0.5:
                k = rng.choice(sorted(files))
                files[k] = _rand_bytes(rng, unit * rng.randint(0, 2) + rng.randint(1, unit - 1)) if unit > 1 else files[k]
            feats[kind][ft] = {'tar': tar, 'dtype': dt, 'dsize': ds, 'files': files}
            if tar and files and rng.random() < 0.65:
                _gen_history(rng, feats[kind][ft], malformed)
            if not tar and rng.random() < 0.4:
                # directory storage where files are symbolic links to a store elsewhere (relative or absolute),
                # or where the directory of the feature type itself is a link
                feats[kind][ft]['links'] = {k: rng.choice(['rel', 'rel', 'abs']) for k in sorted(files) if rng.random() < 0.7}
                if rng.random() < 0.3:
                    feats[kind][ft]['dirlink'] = rng.choice(['rel', 'abs'])
    return feats


def _gen_history(rng, d, malformed=False):
    """A tar-stored feature type with a past.  kapture archives are append-only: features that are computed again are
    written again under the same name and the last entry of a name is the current one.  'log' is the sequence of
    writes (superseded versions: same size / another number of rows / unchanged content, interleaved with the other
    names; the last write of a name is its current content d['files'][name]); the archive is produced in 1..3 sessions:
    the first with the tar format writer in one pass (optionally with the directory entries and the './' prefix that
    `tar -cf x.tar .` produces) or with kapture's TarHandler in append mode, the following ones always with
    TarHandler(mode='a').add_array_to_tar after re-opening the archive."""
    files = d['files']
    unit = ITEMSIZE[d['dtype']] * d['dsize']
    occ = []
    for name in sorted(files):
        occ += [name] * (1 + rng.choice([0, 0, 1, 1, 2, 3]))
    rng.shuffle(occ)
    left = {n: occ.count(n) for n in files}
    log = []
    for name in occ:
        left[name] -= 1
        if left[name] == 0:
            log.append([name, files[name]])
            continue
        r = rng.random()
        if r < 0.35:
            hx = _rand_bytes(rng, len(files[name]) // 2)                # same size, other bytes
        elif r < 0.9:
            hx = _rand_bytes(rng, unit * rng.randint(0, 4))             # another number of rows
        elif malformed and unit > 1:
            hx = _rand_bytes(rng, unit * rng.randint(0, 2) + rng.randint(1, unit - 1))
        else:
            hx = files[name]                                            # written again unchanged
        log.append([name, hx])
    d['log'] = log
    d['first'] = rng.choice(['w', 'w', 'a'])
    d['cuts'] = sorted({rng.randrange(1, len(log)) for _ in range(rng.choice([0, 1, 1, 2]))}) if len(log) > 1 else []
    if d['first'] == 'w':
        d['dirs'] = rng.random() < 0.5
        d['dot'] = rng.random() < 0.3


def _gen_remerge(rng, malformed=False):
    """A merge of feature / match files through the library functions into a destination that is not empty:
    an earlier merge of an earlier state of the same inputs (files recomputed with the same size, another size,
    unchanged, or not there yet) and / or stale files written under destination names (same size, truncated
    = interrupted copy, longer, empty)."""
    cls, dirs, ext, sep = _tables()
    n = rng.choice([1, 1, 2, 2, 3])
    ins = []
    for i in range(n):
        images = sorted(rng.sample(IMAGES, rng.randint(1, len(IMAGES))))
        feats = _gen_features(rng, images, malformed)
        if i == 0 and not any(d['files'] for v in feats.values() for d in v.values()):
            feats['global_features']['gA'] = {'tar': False, 'dtype': 'float32', 'dsize': 5,
                                              'files': {images[0]: _rand_bytes(rng, 20)}}
        if rng.random() < 0.6:
            for v in feats.values():
                for d in v.values():
                    d['tar'] = False         # the directory route is the one that copies files
        ins.append({'pts': None, 'obs': None, 'images': images, 'features': feats})
    how = rng.choice(['prior', 'prior', 'stale', 'both'])
    prior = None
    if how in ('prior', 'both'):
        prior = []
        for x in ins:
            feats = {}
            for kind, v in x['features'].items():
                feats[kind] = {}
                for ft, d in v.items():
                    unit = 24 if kind == 'matches' else ITEMSIZE[d['dtype']] * d['dsize']
                    files = {}
                    for name, hx in d['files'].items():
                        r = rng.random()
                        if r < 0.55:
                            files[name] = _rand_bytes(rng, len(hx) // 2)                     # recomputed, same size
                        elif r < 0.7:
                            files[name] = hx                                                # unchanged
                        elif r < 0.88:
                            files[name] = _rand_bytes(rng, unit * rng.randint(0, 4))        # other number of rows
                    feats[kind][ft] = {'tar': rng.random() < 0.3, 'dtype': d['dtype'], 'dsize': d['dsize'], 'files': files}
            prior.append({'pts': None, 'obs': None, 'images': x['images'], 'features': feats})
    stale = {}
    if how in ('stale', 'both'):
        for x in ins:
            for kind, v in x['features'].items():
                for ft, d in v.items():
                    for name, hx in d['files'].items():
                        if rng.random() < 0.5:
                            continue
                        rel = dirs[kind] + '/' + ft + '/' + _relname(kind, name, ext, sep)
                        size = len(hx) // 2
                        r = rng.random()
                        if r < 0.5:
                            stale[rel] = _rand_bytes(rng, size)                 # same size, other bytes
                        elif r < 0.7:
                            stale[rel] = hx[:2 * rng.randint(0, size)]          # interrupted copy
                        elif r < 0.85:
                            stale[rel] = hx + _rand_bytes(rng, rng.randint(1, 9))
                        else:
                            stale[rel] = ''
    return {'mode': 'remerge', 'inputs': ins, 'prior': prior, 'stale': stale}


def _gen_tool(rng, malformed=False):
    n = rng.choice([1, 2, 2, 3, 3, 4])
    base_w = rng.choice([3, 6])
    mixed = rng.random() < 0.08
    skip = []
    r = rng.random()
    if r < 0.35:
        skip = [s for s in SKIPPABLE if rng.random() < 0.25]
    elif r < 0.5:
        skip = [rng.choice(SKIPPABLE)]
    if 'points3d' in skip and 'observations' not in skip:
        skip.append('observations')      # the loader itself refuses observations without points3d
    if 'keypoints' in skip and 'observations' not in skip:
        skip.append('observations')      # ... and observations without keypoints
    ins = []
    for i in range(n):
        images = sorted(rng.sample(IMAGES, rng.randint(1, len(IMAGES))))
        feats = _gen_features(rng, images, malformed)
        r = rng.random()
        if r < 0.15:
            pts = None
        else:
            w = base_w if not (mixed and rng.random() < 0.5) else 9 - base_w
            npts = 0 if r < 0.27 else rng.randint(1, 5)
            rows = []
            for _ in range(npts):
                row = [_dyadic(rng) for _ in range(3)]
                if w == 6:
                    row += [float(rng.randint(0, 255)) for _ in range(3)]
                rows.append(row)
            pts = {'w': w, 'rows': rows}
        obs = None
        kp_with_files = [(t, sorted(d['files'])) for t, d in feats['keypoints'].items() if d['files']]
        if pts is not None and kp_with_files and rng.random() < 0.8:
            obs = []
            npts = len(pts['rows'])
            for _ in range(rng.choice([0, 1, 2, 4, 6])):
                t, ims = rng.choice(kp_with_files)
                k = rng.randrange(npts) if npts else None
                if k is None:
                    continue
                obs.append([k, t, rng.choice(ims), rng.randint(0, 40)])
        ins.append({'pts': pts, 'obs': obs, 'images': images, 'features': feats})
    return {'mode': 'tool', 'keep_ids': rng.random() < 0.5, 'skip': sorted(set(skip)), 'inputs': ins}


def gen_cases(rng, tier):
    import itertools
    cases = []
    pk = ['none', 'e3', 'e6', 'n3', 'n6']
    ok = ['none', 'some']
    maxn = 2 if tier == 'quick' else 3
    for n in range(1, maxn + 1):
        for pat in itertools.product(itertools.product(pk, ok), repeat=n):
            cases.append({'mode': 'lib', 'inputs': [_lib_input(rng, p, o) for p, o in pat]})
    for _ in range(500 if tier == 'quick' else 5000):
        cases.append(_gen_lib_random(rng))
    for i in range(120 if tier == 'quick' else 1200):
        cases.append(_gen_tool(rng, malformed=(i % 10 == 9)))
    for i in range(80 if tier == 'quick' else 800):
        cases.append(_gen_remerge(rng, malformed=(i % 16 == 15)))
    return cases


# ------------------------------------------------------------------------------------------ running
def _np():
    import numpy as np
    return np


def _bits_to_array(rows, w):
    np = _np()
    a = np.array([[int(b) for b in r] for r in rows], dtype=np.uint64).reshape(-1, w)
    return a.view(np.float64)


def _array_bits(a):
    np = _np()
    a = np.ascontiguousarray(np.asarray(a, dtype=np.float64))
    return [[int(x) for x in r] for r in a.view(np.uint64).tolist()]


def _flatten_obs(o):
    return [[int(k), t, img, int(f)] for k, d in o.items() for t, l in d.items() for (img, f) in l]


def _nested_obs(o):
    return [[int(k), [[t, [[img, int(f)] for (img, f) in l]] for t, l in d.items()]] for k, d in o.items()]


def _run_lib(case):
    import kapture
    from kapture.algo import merge_reconstruction as mr
    pairs = []
    for x in case['inputs']:
        p = None
        if x['pts'] is not None:
            p = kapture.Points3d(_bits_to_array(x['pts']['rows'], x['pts']['w']))
        o = None
        if x['obs'] is not None:
            o = kapture.Observations()
            for k, t, img, f in x['obs']:
                o.add(k, t, img, f)
        pairs.append((p, o))
    snap = [(None if p is None else (p.shape[1], _array_bits(p)), None if o is None else _nested_obs(o)) for p, o in pairs]
    res = {}
    try:
        mp, mo = mr.merge_points3d_and_observations(list(pairs))
        res['po'] = {'w': int(mp.shape[1]), 'rows': _array_bits(mp), 'obs': _flatten_obs(mo),
                     'types': [type(mp).__name__, type(mo).__name__]}
    except Exception as e:
        res['po'] = {'exc': f'{type(e).__name__}: {e}'[:200], 'exc_type': type(e).__name__}
    try:
        mp = mr.merge_points3d([p for p, _ in pairs])
        res['p'] = {'w': int(mp.shape[1]), 'rows': _array_bits(mp)}
    except Exception as e:
        res['p'] = {'exc': f'{type(e).__name__}: {e}'[:200], 'exc_type': type(e).__name__}
    after = [(None if p is None else (p.shape[1], _array_bits(p)), None if o is None else _nested_obs(o)) for p, o in pairs]
    res['inputs_changed'] = (after != snap)
    res['inputs'] = [{'pts': None if s[0] is None else {'w': s[0][0], 'rows': s[0][1]}, 'obs': s[1]} for s in snap]
    return res


def _tables():
    import kapture
    import kapture.io.features as kf
    cls = {'keypoints': kapture.Keypoints, 'descriptors': kapture.Descriptors,
           'global_features': kapture.GlobalFeatures, 'matches': kapture.Matches}
    dirs = {k: kf.FEATURES_DATA_DIRNAMES[c].replace('\\', '/') for k, c in cls.items()}
    ext = {k: kf.FEATURE_FILE_EXTENSION[c] for k, c in cls.items()}
    sep = kf.FEATURE_PAIR_PATH_SEPARATOR[kapture.Matches]
    return cls, dirs, ext, sep


def _relname(kind, name, ext, sep):
    if kind == 'matches':
        a, b = name.split('|') if isinstance(name, str) else name
        return a + sep + '/' + b + ext['matches']
    return name + ext[kind]


def _build_dataset(root, x):
    """Writes one input dataset with the kapture classes and writers; feature data files are written
    directly (directory) or with the tarfile module (tar)."""
    import numpy as np
    import kapture
    import kapture.io.csv as kcsv
    from kapture.io.tar import get_feature_tar_fullpath
    cls, dirs, ext, sep = _tables()
    k = kapture.Kapture()
    k.sensors = kapture.Sensors()
    k.sensors['cam'] = kapture.Camera(kapture.CameraType.SIMPLE_PINHOLE, [640, 480, 500, 320, 240])
    k.records_camera = kapture.RecordsCamera()
    for i, im in enumerate(x['images']):
        k.records_camera[i, 'cam'] = im
    f = x['features']
    if f['keypoints']:
        k.keypoints = {t: kapture.Keypoints(t, getattr(np, d['dtype']), d['dsize'], list(d['files'])) for t, d in f['keypoints'].items()}
    if f['descriptors']:
        k.descriptors = {t: kapture.Descriptors(t, getattr(np, d['dtype']), d['dsize'], DESC_KP[t], 'L2', list(d['files']))
                         for t, d in f['descriptors'].items()}
    if f['global_features']:
        k.global_features = {t: kapture.GlobalFeatures(t, getattr(np, d['dtype']), d['dsize'], 'L2', list(d['files']))
                             for t, d in f['global_features'].items()}
    if f['matches']:
        k.matches = {t: kapture.Matches([tuple(n.split('|')) for n in d['files']]) for t, d in f['matches'].items()}
    if x['pts'] is not None:
        k.points3d = kapture.Points3d(np.array(x['pts']['rows'], dtype=np.float64).reshape(-1, x['pts']['w']))
    if x['obs'] is not None:
        k.observations = kapture.Observations()
        for p, t, img, fi in x['obs']:
            k.observations.add(p, t, img, fi)
    store = root + '_store'          # a "shared features store" outside the dataset, reached through symbolic links

    def link(target, where, how):
        os.makedirs(os.path.dirname(where), exist_ok=True)
        # relative to where the link physically lives (its directory may itself be reached through a link)
        os.symlink(target if how == 'abs' else os.path.relpath(target, os.path.realpath(os.path.dirname(where))), where)
    for kind in KINDS:
        for t, d in f[kind].items():
            if not d['tar'] and d.get('dirlink'):      # the whole directory of that feature type is a link
                real = os.path.join(store, 'dirs', dirs[kind], t)
                os.makedirs(real, exist_ok=True)
                link(real, os.path.join(root, dirs[kind], t), d['dirlink'])
    kcsv.kapture_to_dir(root, k)
    for kind in KINDS:
        for t, d in f[kind].items():
            tdir = os.path.join(root, dirs[kind], t)
            os.makedirs(tdir, exist_ok=True)
            if d['tar']:
                _write_tar(get_feature_tar_fullpath(cls[kind], t, root), kind, d, ext, sep)
            else:
                for name, hx in d['files'].items():
                    fp = os.path.join(tdir, _relname(kind, name, ext, sep))
                    how = (d.get('links') or {}).get(name)
                    if how:                            # the file is a relative / absolute link into the store
                        real = os.path.join(store, 'files', dirs[kind], t, _relname(kind, name, ext, sep))
                        link(real, fp, how)
                        fp = real
                    os.makedirs(os.path.dirname(fp), exist_ok=True)
                    with open(fp, 'wb') as fh:
                        fh.write(bytes.fromhex(hx))


def _tar_sequence(d):
    """the writes that produce the archive, in order: the case's log restricted to the names the case still has,
    completed so that the last write of every name is its current content (robust to shrinking)"""
    files = d['files']
    seq = [(n, hx) for n, hx in (d.get('log') or []) if n in files]
    last = dict(seq)
    for n, hx in files.items():
        if last.get(n) != hx:
            seq.append((n, hx))
    return seq


def _write_tar(tp, kind, d, ext, sep):
    import numpy as np
    from kapture.io.tar import TarHandler
    seq = _tar_sequence(d)
    cuts = sorted({c for c in (d.get('cuts') or []) if 0 < c < len(seq)})
    bounds = [0] + cuts + [len(seq)]
    unit = ITEMSIZE[d['dtype']] * d['dsize']
    for si, (a, b) in enumerate(zip(bounds, bounds[1:])):
        if si == 0 and d.get('first', 'w') == 'w':
            pre = './' if d.get('dot') else ''
            made = set()

            def add_dir(tf, dn):
                if dn not in made:
                    made.add(dn)
                    info = tarfile.TarInfo(dn)
                    info.type = tarfile.DIRTYPE
                    info.mode = 0o755
                    tf.addfile(info)
            with tarfile.open(tp, 'w') as tf:
                if d.get('dirs') and d.get('dot'):
                    add_dir(tf, '.')
                for name, hx in seq[a:b]:
                    member = _relname(kind, name, ext, sep)
                    if d.get('dirs'):          # as the tar command does: an entry for every directory, before its files
                        parts = member.split('/')[:-1]
                        for j in range(1, len(parts) + 1):
                            add_dir(tf, pre + '/'.join(parts[:j]))
                    data = bytes.fromhex(hx)
                    info = tarfile.TarInfo(pre + member)
                    info.size = len(data)
                    tf.addfile(info, io.BytesIO(data))
        else:                                  # kapture's own writer, archive (re-)opened in append mode
            with TarHandler(tp, 'a') as th:
                for name, hx in seq[a:b]:
                    data = bytes.fromhex(hx)
                    if len(data) % unit == 0:
                        arr = np.frombuffer(data, dtype=getattr(np, d['dtype'])).reshape(-1, d['dsize'])
                    else:
                        arr = np.frombuffer(data, dtype=np.uint8)
                    th.add_array_to_tar(_relname(kind, name, ext, sep), arr)


def _read_archive(tp):
    """the members of an archive in archive order, read with the tar format reader only (not with kapture):
    [normalised name, bytes (hex) of a regular file / None for any other entry]"""
    out = []
    with tarfile.open(tp, 'r') as tf:
        for m in tf.getmembers():
            out.append([os.path.normpath(m.name).replace('\\', '/'), tf.extractfile(m).read().hex() if m.isfile() else None])
    return out


def _kapture_listing(tp):
    """what kapture's own reader makes of the archive: the names it lists and the bytes it returns for each
    (public API only); entries it cannot read as data (directory entries) are left out"""
    import numpy as np
    from kapture.io.tar import TarHandler, list_files_in_tar
    out = []
    with TarHandler(tp, 'r') as th:
        for name in list(list_files_in_tar(th)):
            try:
                out.append([name, th.get_array_from_tar(name, np.uint8, 1).tobytes().hex()])
            except (AttributeError, KeyError):
                pass
    return out


def _sources(root, x, names):
    """the feature / match files of one input: path, storage, bytes per row, current bytes as the case defines them
    (the bytes written last under that name), and for tar storage the raw archive it is a member of.
    names: kind -> type -> keys"""
    from kapture.io.tar import get_feature_tar_fullpath
    cls, dirs, ext, sep = _tables()
    archs, files = [], []
    for kind in KINDS:
        for t in sorted(names.get(kind) or {}):
            d = x['features'][kind][t]
            unit = 24 if kind == 'matches' else ITEMSIZE[d['dtype']] * d['dsize']
            if d['tar']:
                tp = get_feature_tar_fullpath(cls[kind], t, root)
                archs.append({'prefix': dirs[kind] + '/' + t + '/', 'members': _read_archive(tp), 'listed': _kapture_listing(tp)})
            for key in sorted(names[kind][t]):
                member = _relname(kind, key, ext, sep)
                e = {'path': dirs[kind] + '/' + t + '/' + member, 'tar': bool(d['tar']), 'unit': unit, 'data': d['files'][key]}
                if d['tar']:
                    e['arch'] = len(archs) - 1
                    e['member'] = member
                files.append(e)
    return archs, files


def _skip_types(skip):
    import kapture
    m = {'trajectories': kapture.Trajectories, 'keypoints': kapture.Keypoints, 'descriptors': kapture.Descriptors,
         'global_features': kapture.GlobalFeatures, 'matches': kapture.Matches, 'points3d': kapture.Points3d,
         'observations': kapture.Observations}
    return [m[s] for s in SKIPPABLE if s in skip]


def _load_input(root, x, skip):
    """What the tool will load from this dataset (same loader calls as merge_kaptures), plus the bytes
    of every loaded feature file read independently of kapture."""
    import kapture.io.csv as kcsv
    cls, dirs, ext, sep = _tables()
    sl = _skip_types(skip)
    th = kcsv.get_all_tar_handlers(root)
    try:
        k = kcsv.kapture_from_dir(root, tar_handlers=th, skip_list=sl)
    finally:
        th.close()
    pts = None if k.points3d is None else {'w': int(k.points3d.shape[1]), 'rows': _array_bits(k.points3d)}
    obs = None if k.observations is None else _nested_obs(k.observations)
    parts = {'keypoints': k.keypoints, 'descriptors': k.descriptors, 'global_features': k.global_features, 'matches': k.matches}
    names = {kind: {t: [name if isinstance(name, str) else name[0] + '|' + name[1] for name in coll[t]] for t in coll}
             for kind, coll in parts.items() if coll is not None}
    archs, files = _sources(root, x, names)
    return {'pts': pts, 'obs': obs, 'files': files, 'archs': archs}


def _read_output(out):
    import kapture.io.csv as kcsv
    cls, dirs, ext, sep = _tables()
    res = {'pts': None, 'obs': None, 'files': []}
    pp = os.path.join(out, 'reconstruction', 'points3d.txt')
    if os.path.isfile(pp):
        p = kcsv.points3d_from_file(pp)
        res['pts'] = {'w': int(p.shape[1]), 'rows': _array_bits(p)}
    op = os.path.join(out, 'reconstruction', 'observations.txt')
    if os.path.isfile(op):
        res['obs'] = _flatten_obs(kcsv.observations_from_file(op, None))
    for kind in KINDS:
        base = os.path.join(out, dirs[kind])
        if not os.path.isdir(base):
            continue
        for t in sorted(os.listdir(base)):
            for d, _, fs in os.walk(os.path.join(base, t)):
                for fn in fs:
                    full = os.path.join(d, fn)
                    rel = os.path.relpath(full, out).replace('\\', '/')
                    if os.path.dirname(full) == os.path.join(base, t) and fn.endswith('.txt'):
                        continue            # keypoints.txt / descriptors.txt / global_features.txt (type description)
                    try:                    # content as a reader gets it through that path (links are followed)
                        with open(full, 'rb') as fh:
                            res['files'].append([rel, fh.read().hex()])
                    except OSError:
                        res['files'].append([rel, None])         # dangling link / not a readable file
    res['files'].sort(key=lambda e: e[0])
    return res


def _run_tool(case, ctx):
    import logging
    import kapture_merge
    base = os.path.join(ctx['tmp'], 'c11')
    shutil.rmtree(base, ignore_errors=True)
    os.makedirs(base)
    logging.getLogger('kapture').setLevel(logging.ERROR)
    roots = []
    for i, x in enumerate(case['inputs']):
        r = os.path.join(base, f'in{i}')
        _build_dataset(r, x)
        roots.append(r)
    loaded = [_load_input(r, x, case['skip']) for r, x in zip(roots, case['inputs'])]
    out = os.path.join(base, 'merged', 'deeper', 'out')      # not at the depth of the inputs: relative links must not be copied verbatim
    res = {'loaded': loaded}
    try:
        kapture_merge.merge_kaptures(roots, out, keep_sensor_ids=bool(case['keep_ids']), skip=list(case['skip']), force=True)
        res['out'] = _read_output(out)
    except Exception as e:
        res['exc'] = f'{type(e).__name__}: {e}'[:200]
        res['exc_type'] = type(e).__name__
    # the inputs must be left as they were
    after = [_load_input(r, x, case['skip']) for r, x in zip(roots, case['inputs'])]
    res['inputs_changed'] = (after != loaded)
    shutil.rmtree(base, ignore_errors=True)
    return res


def _case_sources(root, x):
    """the feature / match files of one input, as the case defines them (library API: the names are given by the caller)"""
    return _sources(root, x, {kind: {t: list(d['files']) for t, d in x['features'][kind].items()} for kind in KINDS})


def _api_merge(inputs, roots, out):
    """merge_*_collections called as the merge drivers call them, on objects built from the case"""
    import numpy as np
    import kapture
    import kapture.io.csv as kcsv
    from kapture.algo import merge_reconstruction as mr
    handlers = [kcsv.get_all_tar_handlers(r) for r in roots]
    try:
        def coll(kind, mk):
            res = []
            for x in inputs:
                f = x['features'][kind]
                res.append({t: mk(t, d) for t, d in f.items()} if f else None)
            return res
        kp = coll('keypoints', lambda t, d: kapture.Keypoints(t, getattr(np, d['dtype']), d['dsize'], list(d['files'])))
        de = coll('descriptors', lambda t, d: kapture.Descriptors(t, getattr(np, d['dtype']), d['dsize'], DESC_KP[t], 'L2',
                                                                    list(d['files'])))
        gf = coll('global_features', lambda t, d: kapture.GlobalFeatures(t, getattr(np, d['dtype']), d['dsize'], 'L2',
                                                                          list(d['files'])))
        ma = coll('matches', lambda t, d: kapture.Matches([tuple(n.split('|')) for n in d['files']]))
        for lst, fn in ((kp, mr.merge_keypoints_collections), (de, mr.merge_descriptors_collections),
                        (gf, mr.merge_global_features_collections), (ma, mr.merge_matches_collections)):
            if any(c is not None for c in lst):
                fn(lst, roots, out, handlers)
    finally:
        for h in handlers:
            h.close()


def _run_remerge(case, ctx):
    import logging
    base = os.path.join(ctx['tmp'], 'c11')
    shutil.rmtree(base, ignore_errors=True)
    os.makedirs(base)
    logging.getLogger('kapture').setLevel(logging.ERROR)
    out = os.path.join(base, 'merged', 'deeper', 'out')
    os.makedirs(out)
    res = {}
    if case['prior']:
        proots = []
        for i, x in enumerate(case['prior']):
            r = os.path.join(base, f'prior{i}')
            _build_dataset(r, x)
            proots.append(r)
        try:
            _api_merge(case['prior'], proots, out)
        except Exception as e:                      # an earlier merge that failed half-way is a history too
            res['prior_exc'] = f'{type(e).__name__}: {e}'[:120]
    for rel, hx in case['stale'].items():
        fp = os.path.join(out, rel)
        os.makedirs(os.path.dirname(fp), exist_ok=True)
        with open(fp, 'wb') as fh:
            fh.write(bytes.fromhex(hx))
    roots = []
    for i, x in enumerate(case['inputs']):
        r = os.path.join(base, f'in{i}')
        _build_dataset(r, x)
        roots.append(r)
    res['dest'] = _read_output(out)['files']
    srcs = [_case_sources(r, x) for r, x in zip(roots, case['inputs'])]
    res['archs'] = [a for a, _ in srcs]
    res['files'] = [f for _, f in srcs]
    try:
        _api_merge(case['inputs'], roots, out)
        res['out'] = _read_output(out)['files']
    except Exception as e:
        res['exc'] = f'{type(e).__name__}: {e}'[:200]
        res['exc_type'] = type(e).__name__
    res['inputs_changed'] = ([_case_sources(r, x) for r, x in zip(roots, case['inputs'])] != srcs)
    shutil.rmtree(base, ignore_errors=True)
    return res


def run_impl(case, ctx):
    import warnings
    with warnings.catch_warnings():
        warnings.simplefilter('ignore')      # numpy: "loadtxt: input contained no data" for empty points3d.txt
        if case['mode'] == 'lib':
            return _run_lib(case)
        if case['mode'] == 'remerge':
            return _run_remerge(case, ctx)
        return _run_tool(case, ctx)


# ------------------------------------------------------------------------------------------ oracle
def _obs_list(x):
    """flatten a nested observation table [[k, [[t, [[img, f]..]]..]]..] or pass a flat list through"""
    if x is None:
        return None
    if x and isinstance(x[0][1], list):
        return [[k, t, img, f] for k, inner in x for t, l in inner for img, f in l]
    return [list(o) for o in x]


def _expect(inputs, with_obs=True):
    """The property, computed directly: concatenation in input order; observation (j, t, img, f) of an
    input with points becomes (offset + j, t, img, f)."""
    rows, obs, off = [], [], 0
    for x in inputs:
        if x['pts'] is None:
            continue
        if with_obs and x['obs'] is not None:
            for k, t, img, f in _obs_list(x['obs']):
                obs.append((k + off, t, img, f))
        rows += x['pts']['rows']
        off += len(x['pts']['rows'])
    return rows, sorted(obs)


def _mixed(inputs):
    ws = {x['pts']['w'] for x in inputs if x['pts'] is not None and x['pts']['rows']}
    return len(ws) > 1


def _check_points(tag, inputs, got):
    rows, _ = _expect(inputs)
    if got['rows'] != rows:
        if len(got['rows']) != len(rows):
            return f'{tag}: merged cloud has {len(got["rows"])} points, the inputs have {len(rows)} in total'
        return f'{tag}: merged cloud is not the concatenation of the input clouds in input order'
    ws = {x['pts']['w'] for x in inputs if x['pts'] is not None and x['pts']['rows']}
    if ws and got['w'] not in ws:
        return f'{tag}: merged cloud has {got["w"]} columns, the inputs have {sorted(ws)}'
    return None


def _check_obs(tag, inputs, got_obs, got_rows):
    _, exp = _expect(inputs)
    got = sorted(tuple(o) for o in got_obs)
    if got != exp:
        lost = [o for o in exp if o not in got]
        extra = [o for o in got if o not in exp]
        if lost and not extra:
            return f'{tag}: observations lost or re-indexed wrongly'
        if extra and not lost:
            return f'{tag}: observations appear that no input has'
        if not lost and not extra:
            return f'{tag}: observation multiplicities changed'
        return f'{tag}: observations do not designate the same point/type/image/feature as in their input'
    # stated once more, directly: the observation still designates the same coordinates
    off = 0
    for x in inputs:
        if x['pts'] is None:
            continue
        n = len(x['pts']['rows'])
        for k, t, img, f in (_obs_list(x['obs']) or []):
            if 0 <= k < n and (off + k >= len(got_rows) or got_rows[off + k] != x['pts']['rows'][k]):
                return f'{tag}: an observation no longer designates the coordinates it designated in its input'
        off += n
    return None


def _superseded(per_input_files, per_input_archs):
    """path -> bytes of the members of that name that a later member of the same archive has replaced"""
    old = {}
    for es, archs in zip(per_input_files, per_input_archs):
        for e in es:
            if e['tar']:
                vs = [hx for n, hx in archs[e['arch']]['members'] if n == e['member']]
                old.setdefault(e['path'], []).extend(v for v in vs[:-1] if v is not None)
    return old


def oracle(case, obs):
    if obs.get('inputs_changed'):
        return 'the merge modified its inputs'
    if case['mode'] == 'lib':
        inputs = obs['inputs']
        if _mixed(inputs):
            return None
        for key in ('po', 'p'):
            if 'exc' in obs[key]:
                fn = 'merge_points3d_and_observations' if key == 'po' else 'merge_points3d'
                return f'{fn} raised {obs[key]["exc_type"]} on clouds of equal column count'
        r = _check_points('merge_points3d_and_observations', inputs, obs['po'])
        r = r or _check_obs('merge_points3d_and_observations', inputs, obs['po']['obs'], obs['po']['rows'])
        r = r or _check_points('merge_points3d', inputs, obs['p'])
        return r
    if case['mode'] == 'remerge':
        # merged file bytes == bytes of a source of that name, whatever the destination held before the merge
        entries = [e for es in obs['files'] for e in es]
        if 'exc' in obs:
            if any(e['tar'] and (len(e['data']) // 2) % e['unit'] != 0 for e in entries):
                return None
            return f're-merge: the merge functions raised {obs["exc_type"]} on well-formed inputs'
        src = {}
        for e in entries:
            src.setdefault(e['path'], []).append(e['data'])
        got = dict((p, b) for p, b in obs['out'])
        for p in src:
            if p not in got:
                return 're-merge: a feature or match file of an input is missing from the merged dataset'
            if got[p] is None:
                return 're-merge: a merged feature or match file cannot be read (dangling link)'
            if got[p] not in src[p]:
                if got[p] in _superseded(obs['files'], obs['archs']).get(p, []):
                    return 're-merge: a merged file holds a superseded version of a tar member (an earlier entry of that name)'
                return 're-merge: a merged feature or match file is not byte-identical to its source'
        return None
    # tool
    inputs = obs['loaded']
    skip = case['skip']
    bad_tar = any(e['tar'] and (len(e['data']) // 2) % e['unit'] != 0 for x in inputs for e in x['files'])
    merges_points = 'points3d' not in skip
    if 'exc' in obs:
        if (merges_points and _mixed(inputs)) or bad_tar:
            return None
        return f'merge_kaptures raised {obs["exc_type"]} on well-formed inputs'
    out = obs['out']
    if merges_points and not _mixed(inputs):
        rows, exp_obs = _expect(inputs)
        if rows or out['pts'] is not None:
            if out['pts'] is None:
                return 'tool: merged dataset has no points3d although inputs have points'
            r = _check_points('tool', inputs, out['pts'])
            if r:
                return r
        if 'observations' not in skip and (exp_obs or out['obs'] is not None):
            if out['obs'] is None:
                return 'tool: observations lost or re-indexed wrongly'
            r = _check_obs('tool', inputs, out['obs'], (out['pts'] or {'rows': []})['rows'])
            if r:
                return r
        if 'observations' in skip and out['obs'] is not None:
            return 'tool: observations written although skipped'
    if not merges_points and (out['pts'] is not None or out['obs'] is not None):
        return 'tool: points3d/observations written although skipped'
    # files: byte-identical to a source of the same name; every source name present; nothing else
    src = {}
    for x in inputs:
        for e in x['files']:
            src.setdefault(e['path'], []).append(e['data'])
    got = dict((p, b) for p, b in out['files'])
    if len(got) != len(out['files']):
        return 'tool: duplicate output path'
    for p in src:
        if p not in got:
            return 'tool: a feature or match file of an input is missing from the merged dataset'
    for p, b in got.items():
        if b is None:
            return 'tool: a merged feature or match file cannot be read (dangling link)'
        if p not in src:
            return 'tool: the merged dataset has a feature or match file that no input has'
        if b not in src[p]:
            if b in _superseded([x['files'] for x in inputs], [x['archs'] for x in inputs]).get(p, []):
                return 'tool: a merged file holds a superseded version of a tar member (an earlier entry of that name)'
            return 'tool: a merged feature or match file is not byte-identical to its source'
    return None


# ------------------------------------------------------------------------------------------ encoding
def _c_row(r):
    return kv.clist(kv.cz(b) for b in r)


def _c_cloud(p):
    return 'None' if p is None else '(Some (mkCloud %s %s))' % (kv.cz(p['w']), kv.clist(_c_row(r) for r in p['rows']))


def _c_nested(o):
    if o is None:
        return 'None'
    return '(Some %s)' % kv.clist(
        kv.cpair(kv.cz(k), kv.clist(kv.cpair(kv.cstr(t), kv.clist(kv.cpair(kv.cstr(img), kv.cz(f)) for img, f in l))
                                    for t, l in inner)) for k, inner in o)


def _c_tuples(l):
    return kv.clist(kv.cpair(kv.cz(k), kv.cstr(t), kv.cstr(img), kv.cz(f)) for k, t, img, f in l)


def _c_inputs(inputs):
    return kv.clist(kv.cpair(_c_cloud(x['pts']), _c_nested(x['obs'])) for x in inputs)


def _c_archs(per_input):
    return kv.clist(kv.clist(kv.clist(kv.cpair(kv.cstr(n), kv.copt(None if hx is None else kv.cstr(bytes.fromhex(hx))))
                                      for n, hx in a['members']) for a in archs) for archs in per_input)


def _c_listing(per_input):
    return kv.clist(kv.clist(kv.clist(kv.cpair(kv.cstr(n), kv.cstr(bytes.fromhex(hx))) for n, hx in a['listed'])
                             for a in archs) for archs in per_input)


def _c_sources(per_input):
    def one(e):
        if e['tar']:
            return '(InTar %s %s %s %s)' % (kv.cstr(e['path']), kv.cz(e['unit']), kv.cnat(e['arch']), kv.cstr(e['member']))
        return '(InDir %s %s %s)' % (kv.cstr(e['path']), kv.cz(e['unit']), kv.cstr(bytes.fromhex(e['data'])))
    return kv.clist(kv.clist(one(e) for e in es) for es in per_input)


def encode(case, obs):
    if case['mode'] == 'lib':
        po, p = obs['po'], obs['p']
        c_po = 'None' if 'exc' in po else '(Some %s)' % kv.cpair(kv.cz(po['w']), kv.clist(_c_row(r) for r in po['rows']),
                                                                  _c_tuples(po['obs']))
        c_p = 'None' if 'exc' in p else '(Some %s)' % kv.cpair(kv.cz(p['w']), kv.clist(_c_row(r) for r in p['rows']))
        return '(CaseLib %s %s %s)' % (_c_inputs(obs['inputs']), c_po, c_p)
    if case['mode'] == 'remerge':
        dest = kv.clist(kv.cpair(kv.cstr(p), kv.cstr(bytes.fromhex(b))) for p, b in obs['dest'] if b is not None)
        c_o = 'None' if 'exc' in obs else '(Some %s)' % kv.clist(kv.cpair(kv.cstr(p), kv.cstr(bytes.fromhex(b)))
                                                                 for p, b in obs['out'] if b is not None)
        return '(CaseRemerge %s %s %s %s %s)' % (dest, _c_archs(obs['archs']), _c_listing(obs['archs']), _c_sources(obs['files']), c_o)
    inputs = obs['loaded']
    if 'exc' in obs:
        c_o = 'None'
    else:
        o = obs['out']
        c_pts = 'None' if o['pts'] is None else '(Some %s)' % kv.cpair(kv.cz(o['pts']['w']), kv.clist(_c_row(r) for r in o['pts']['rows']))
        c_obs = 'None' if o['obs'] is None else '(Some %s)' % _c_tuples(o['obs'])
        c_files = kv.clist(kv.cpair(kv.cstr(p), kv.cstr(bytes.fromhex(b))) for p, b in o['files'] if b is not None)
        c_o = '(Some %s)' % kv.cpair(c_pts, c_obs, c_files)
    return '(CaseTool %s %s %s %s %s %s %s)' % (kv.cbool('points3d' in case['skip']), kv.cbool('observations' in case['skip']),
                                                _c_inputs(inputs), _c_archs([x['archs'] for x in inputs]),
                                                _c_listing([x['archs'] for x in inputs]),
                                                _c_sources([x['files'] for x in inputs]), c_o)


# ------------------------------------------------------------------------------------------ evidence
def _overwrites(obs):
    """destination names that the merge must replace: present before, with bytes that are not those of a source"""
    src = {}
    for es in obs['files']:
        for e in es:
            src.setdefault(e['path'], []).append(e['data'])
    return [(p, b or '') for p, b in obs['dest'] if p in src and b not in src[p]]


def _rewrites(per_input_files, per_input_archs):
    """number of merged tar members that have superseded earlier entries with other bytes"""
    n = 0
    for es, archs in zip(per_input_files, per_input_archs):
        for e in es:
            if e['tar']:
                vs = [hx for nm, hx in archs[e['arch']]['members'] if nm == e['member']]
                n += any(v != vs[-1] for v in vs[:-1])
    return n


def nontrivial(case, obs):
    if case['mode'] == 'remerge':
        return bool(_overwrites(obs))
    inputs = obs['inputs'] if case['mode'] == 'lib' else obs['loaded']
    with_pts = [x for x in inputs if x['pts'] is not None and x['pts']['rows']]
    if case['mode'] == 'tool':
        return len(with_pts) >= 2 or any(x['files'] for x in inputs)
    return len(with_pts) >= 2


def classify(case, obs):
    if case['mode'] == 'remerge':
        src = {e['path']: e for es in obs['files'] for e in es}
        ow = _overwrites(obs)
        same = sum(1 for p, b in ow if len(b) == len(src[p]['data']))
        route = {(src[p]['tar']) for p, _ in ow}
        hist = ('prior+stale' if case['prior'] and case['stale'] else 'prior' if case['prior'] else 'stale')
        hist += '/tar-rewrites' if _rewrites(obs['files'], obs['archs']) else ''
        return (f'remerge/n={len(case["inputs"])}/{hist}/same-size-stale={min(same, 3)}/other-stale={min(len(ow) - same, 3)}/'
                f'{"tar+dir" if len(route) == 2 else "tar" if route == {True} else "dir" if route == {False} else "none"}/'
                f'{"raise" if "exc" in obs else "ok"}')
    inputs = obs['inputs'] if case['mode'] == 'lib' else obs['loaded']
    ws = sorted({x['pts']['w'] for x in inputs if x['pts'] is not None and x['pts']['rows']})
    shape = 'mixed' if len(ws) > 1 else ('Nx%d' % ws[0] if ws else 'nopoints')
    if case['mode'] == 'lib':
        out = 'raise' if 'exc' in obs['po'] else 'ok'
        nobs = sum(1 for x in inputs if x['obs'])
        return f'lib/n={len(inputs)}/{shape}/obs_inputs={nobs}/{out}'
    out = 'raise' if 'exc' in obs else 'ok'
    tar = sum(1 for x in inputs for e in x['files'] if e['tar'])
    dirf = sum(1 for x in inputs for e in x['files'] if not e['tar'])
    return (f'tool/{"keep" if case["keep_ids"] else "remap"}/n={len(inputs)}/{shape}/'
            f'{"tar+dir" if tar and dirf else "tar" if tar else "dir" if dirf else "nofiles"}'
            f'{"/tar-rewrites" if _rewrites([x["files"] for x in inputs], [x["archs"] for x in inputs]) else ""}/skip={len(case["skip"])}/{out}')


def describe(case, obs):
    if case['mode'] == 'remerge':
        return {'mode': 'remerge', 'inputs': [{k: {t: ('tar' if d['tar'] else 'dir', len(d['files'])) for t, d in v.items()}
                                               for k, v in x['features'].items() if v} for x in case['inputs']],
                'tar_members': [[len(a['members']) for a in archs] for archs in obs['archs']],
                'prior_merge': bool(case['prior']), 'stale_files': len(case['stale']),
                'destination_before': len(obs['dest']), 'must_be_replaced': len(_overwrites(obs)),
                'observed': obs.get('exc') or f'{len(obs["out"])} files'}
    if case['mode'] == 'lib':
        return {'mode': 'lib', 'inputs': [{'pts': None if x['pts'] is None else f'{len(x["pts"]["rows"])}x{x["pts"]["w"]}',
                                           'obs': None if x['obs'] is None else len(x['obs'])} for x in case['inputs']],
                'observed': {'po': obs['po'].get('exc') or f'{len(obs["po"]["rows"])}x{obs["po"]["w"]}, {len(obs["po"]["obs"])} observations',
                             'p': obs['p'].get('exc') or f'{len(obs["p"]["rows"])}x{obs["p"]["w"]}'}}
    return {'mode': 'tool', 'keep_ids': case['keep_ids'], 'skip': case['skip'],
            'inputs': [{'pts': None if x['pts'] is None else f'{len(x["pts"]["rows"])}x{x["pts"]["w"]}',
                        'obs': None if x['obs'] is None else len(x['obs']),
                        'files': {k: {t: ('tar' if d['tar'] else 'dir', len(d['files'])) for t, d in v.items()}
                                  for k, v in x['features'].items() if v}} for x in case['inputs']],
            'tar_members': [[len(a['members']) for a in x['archs']] for x in obs['loaded']],
            'observed': obs.get('exc') or {'pts': None if obs['out']['pts'] is None else len(obs['out']['pts']['rows']),
                                           'obs': None if obs['out']['obs'] is None else len(obs['out']['obs']),
                                           'files': len(obs['out']['files'])}}


def _shrink_history(case):
    for i, x in enumerate(case['inputs']):
        for kind in KINDS:
            for t, d in (x.get('features') or {}).get(kind, {}).items():
                if d.get('log'):
                    c = copy.deepcopy(case)
                    for k in ('log', 'cuts', 'first', 'dirs', 'dot'):
                        c['inputs'][i]['features'][kind][t].pop(k, None)
                    yield c
                    for j, (n, hx) in enumerate(d['log']):
                        if hx != d['files'].get(n) or any(n2 == n for n2, _ in d['log'][j + 1:]):
                            c = copy.deepcopy(case)
                            del c['inputs'][i]['features'][kind][t]['log'][j]
                            c['inputs'][i]['features'][kind][t]['cuts'] = []
                            yield c


def shrink(case):
    if case['mode'] != 'lib':
        yield from _shrink_history(case)
    if case['mode'] == 'remerge':
        if case['prior'] and case['stale']:
            for k in ('prior', 'stale'):
                c = copy.deepcopy(case)
                c[k] = None if k == 'prior' else {}
                yield c
        if len(case['inputs']) > 1:
            for i in range(len(case['inputs'])):
                c = copy.deepcopy(case)
                del c['inputs'][i]
                if c['prior']:
                    del c['prior'][i]
                yield c
        for i, x in enumerate(case['inputs']):
            for kind in KINDS:
                for t in list(x['features'][kind]):
                    c = copy.deepcopy(case)
                    del c['inputs'][i]['features'][kind][t]
                    if c['prior']:
                        c['prior'][i]['features'][kind].pop(t, None)
                    yield c
        for i, x in enumerate(case['inputs']):
            for kind in KINDS:
                for t, d in x['features'][kind].items():
                    if len(d['files']) > 1:
                        for name in list(d['files']):
                            c = copy.deepcopy(case)
                            del c['inputs'][i]['features'][kind][t]['files'][name]
                            if c['prior'] and t in c['prior'][i]['features'][kind]:
                                c['prior'][i]['features'][kind][t]['files'].pop(name, None)
                            yield c
        for rel in list(case['stale']):
            c = copy.deepcopy(case)
            del c['stale'][rel]
            yield c
        return
    ins = case['inputs']
    if len(ins) > 1:
        for i in range(len(ins)):
            c = copy.deepcopy(case)
            del c['inputs'][i]
            yield c
    for i, x in enumerate(ins):
        if x['obs']:
            for j in range(len(x['obs'])):
                c = copy.deepcopy(case)
                del c['inputs'][i]['obs'][j]
                yield c
        if x['pts'] is not None and len(x['pts']['rows']) > 1:
            n = len(x['pts']['rows'])
            if not any(o[0] >= n - 1 for o in (x['obs'] or [])):
                c = copy.deepcopy(case)
                c['inputs'][i]['pts']['rows'].pop()
                yield c
        if case['mode'] == 'tool':
            for kind in KINDS:
                for t in list(x['features'][kind]):
                    if kind == 'keypoints' and any(o[1] == t for o in (x['obs'] or [])):
                        continue
                    c = copy.deepcopy(case)
                    del c['inputs'][i]['features'][kind][t]
                    yield c
    if case['mode'] == 'tool' and case['skip']:
        for s in case['skip']:
            if s in ('observations',) and ('points3d' in case['skip'] or 'keypoints' in case['skip']):
                continue
            c = copy.deepcopy(case)
            c['skip'] = [y for y in case['skip'] if y != s]
            yield c


TECHNIQUE = ('Coq proofs by induction on the input list (concatenation, index arithmetic, multiset and per-point characterisation of '
             'the observations, first-wins byte-identical file transfer) over an executable Gallina model; differential '
             'correspondence with the real functions and the merge tool evaluated by vm_compute')
LEVEL_TEXT = ('Theorems in coq/Props/C11.v hold for every list of inputs (any length, any sizes): the merged cloud is the concatenation in '
              'input order; point j of input i is point offset_i + j bit for bit; the merged observations are exactly the multiset of '
              'the inputs\' observations shifted by the offset of their own input (nothing lost, added, duplicated, or moved to another '
              'input\'s points), per point and type with order kept; the merge succeeds iff the non-empty clouds agree on 3 or 6 columns and '
              'keeps that column count; inputs without points are neutral; merged feature/match files are byte-identical to the first '
              'source of that name for directory and tar sources, and for a tar source they are the bytes of the LAST member of that name in '
              'the archive (append-only archives with re-written members; directory entries ignored), for every archive and every history '
              'of appends. The model is tied to the code by running both library functions on '
              'generated lists and the merge tool on real directories/tar archives and comparing results inside Coq.')
LEVEL_NOTE = ('Trusted: Coq kernel + vm_compute, harness encoders, numpy vstack/frombuffer/tofile, shutil.copy, tarfile, the dataset '
              'reader used to observe tool inputs/outputs. Mixed Nx3/Nx6 inputs and truncated tar members are modelled (ValueError) but '
              'not judged by the oracle.')
