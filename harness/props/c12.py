"""C12 — a tar-packed feature store equals its directory form; appends are durable.
Implementation under test: kapture.io.tar (TarHandler, TarCollection, retrieve_tar_handler_from_collection),
kapture.io.features (get_*_fullpath, image_*_from_file / _to_file, listing of feature files),
kapture.io.csv (get_all_tar_handlers, kapture_from_dir, *_from_dir).

Three families of cases:
  dataset      a real kapture directory written by kapture's own writers (several feature kinds / types at once),
               its packed twin whose feature files were moved by the harness into <kind>.tar (names as in
               kapture_format.adoc), optional stale loose files, optional appends through kapture's API in
               mode 'a'; both are loaded with get_all_tar_handlers + kapture_from_dir (or *_from_dir) and
               arrays are read with image_*_from_file.
  append       sequences of add_array_to_tar / image_*_to_file on an archive (repeated names, odd spellings),
               one or two writer sessions; a fresh reader opens the archive after every completed append.
  kill sweep   a REAL writer subprocess per crash point k = 0..n: it performs k appends, reports each one,
               is read while alive-and-unclosed, is SIGKILLed, and is read again.
"""
import contextlib
import io
import json
import os
import shutil
import signal
import subprocess
import tarfile

import kv

ID = 'C12'
COQ_MODELS = ['MTar']
COQ_HEADER = 'From KV Require Import Eqb AL Str.\nFrom KV.Model Require Import MTar.'
CASE_TYPE = 'MTar.case'
CHECK_FN = 'MTar.check_case'
SHARD_SIZE = 10
CASE_TIMEOUT = 300
SEARCH_CAP = 200
RULE = ('dataset = 1..4 feature stores (kind in keypoints/descriptors/global_features/matches, type name, dtype, dsize) in '
        'one kapture directory; per store a write history with overwrites, 0-row arrays, nested / spaced / unicode / long '
        'image names, files for images absent from records_camera; packed twin = same history as tar members, packed by '
        'tarfile.add of the really written files (or TarInfo) with mtimes recent / 0 / past / future / mixed and shuffled '
        'mode, uid, pax records, some files being hard links / symlinks of others (LNKTYPE / SYMTYPE members) (plain or '
        '"./" spelling, directory members, GNU or PAX format, shuffled when no duplicates), optional stale loose files, '
        'optional API appends (mostly superseding packed names), handlers passed or not, listing through kapture_from_dir (0, 1 or n recorded images) or *_from_dir with image set None / empty / one / subset, matches optionally restricted by a pairs file (both name orders, repeats, strangers); reads = own '
        'dtype/dsize, wrong dsize, wrong dtype, missing image, a few files with a trailing partial element. '
        'append = 1..8 add_array_to_tar calls with repeated names and odd spellings on no / empty / populated archive, '
        'through TarHandler or get_all_tar_handlers(mode a)+image_*_to_file, 1..3 writer sessions, each closed or abandoned (never '
        'closed, kept referenced, never used again) and then reclaimed (del + gc) at a drawn later point of the history (inside a '
        'later session after its k-th append, after a later session ended) or never; reader after every event. '
        'kill sweep = one writer subprocess per k in 0..n, SIGKILL after the k-th reported append; one append per sweep is '
        '>= io.DEFAULT_BUFFER_SIZE bytes and not a multiple of 16 KiB. '
        'Non-trivial = a store with an archive holding >= 1 member, or an append case with >= 1 append; '
        'distinct = distinct case content.')
TRUSTED = ['CPython tarfile (member iteration order, append mode positions at the end of the last member, a reader stops at '
           'the first short / zero header) and io.BufferedRandom.flush: modelled as "an archive is the list of its file members"',
           'numpy frombuffer / fromfile / reshape / tobytes: modelled by byte length arithmetic (decode_tar, decode_dir)',
           'os.path.normpath behind path_secure: a parameter [norm] of the model, observed per case as a finite table; the '
           'theorems about appending assume it idempotent and the correspondence checks that on every name used',
           'OS semantics: bytes handed to the kernel by flush() are visible to other processes and survive SIGKILL of the writer']
ASSUMPTIONS = ['image and type names contain no backslash, comma, "#" or leading / trailing blank (backslash names make '
               'path_secure non-idempotent on POSIX; the others do not survive records_camera.txt)',
               'feature files carry their extension in the exact case the writers use; a folder is not named like a feature file',
               'links inside a feature folder are hard links / symlinks to regular files of the same folder, made after the '
               'files were written; nothing is written THROUGH a link afterwards (that changes its siblings in a folder but '
               'not in an archive); dangling links, symlink chains and sparse members are not modelled',
               'a reader opens the archive after the append call has returned; a writer killed inside add_array_to_tar, '
               'power loss / OS crash (no fsync is issued) and two writers USED at the same time (an older handle appending or closing '
               'after a newer one appended) are outside the quantifier; an un-closed writer that merely lingers and is reclaimed '
               'later is inside',
               'an archive without end-of-archive block (writer never closed, appends beyond the old padding) cannot be opened '
               'for APPENDING again by tarfile (ReadError): readers are unaffected, the property does not speak of it; such a '
               'history stops there (bucket reopen-refused)',
               'files whose size is not a multiple of the element size are not arrays: np.fromfile truncates, np.frombuffer '
               'raises; modelled and checked, but not judged by the oracle',
               'stale loose files next to an archive, and an archive read without handlers: modelled as the code does '
               '(archive wins iff handlers are passed); the oracle judges pure packings only']
EXHAUSTIVE = {'quick': False, 'thorough': False}
TECHNIQUE = ('Coq proof over an append-only-log model of an archive (last-wins index, appending writer with OS / process-buffer '
             'levels, tar-or-directory resolution, listing and decoding), tables regenerated from the source and the adoc; '
             'differential correspondence by vm_compute against real directories, real tar files and a SIGKILLed writer process')
LEVEL_TEXT = ('Theorems in coq/Props/C12.v hold for every folder, member order and spelling, append history and crash point k: '
              'the index of a packed folder equals the folder (lookup-extensional, same key set), every array reads identically '
              'through archive and directory, the listed image sets / pair sets agree (with and without the records_camera '
              'filter), append makes (n,b) visible and changes nothing else, header fields (mtime, mode, owner, pax) never matter, the latest version wins, a reader after k completed '
              'appends sees exactly view(firstn k), monotone in k, close() adds nothing; for every history of several writer handles '
              '(closed, left un-closed, reclaimed at any later moment, killed) of which one is used at a time the archive is the base '
              'followed by every completed append (a reclaimed handle writes nothing; a closing finaliser is refuted). The model is tied to the code by real '
              'datasets written by kapture writers, packed into tar files, loaded through get_all_tar_handlers/kapture_from_dir, '
              'and by a writer subprocess SIGKILLed after every k. Durability is partial: process kill only.')
LEVEL_NOTE = ('proof (partial for durability): the model states that a completed append has handed all bytes to the OS (flush after '
              'every addfile); survival of those bytes is exercised for SIGKILL / never-closed writers only; power loss, torn '
              'writes inside an append and concurrent writers are not modelled. Trusted: Coq kernel + vm_compute, harness '
              'encoders, tarfile / numpy / normpath behaviour as listed.')

# where the published format (kapture_format.adoc, "Support for tar files") puts the archives
SPEC = {'Keypoints': ('reconstruction/keypoints', 'keypoints.tar'),
        'Descriptors': ('reconstruction/descriptors', 'descriptors.tar'),
        'GlobalFeatures': ('reconstruction/global_features', 'global_features.tar'),
        'Matches': ('reconstruction/matches', 'matches.tar')}
KIND_NAMES = list(SPEC)
DTYPES = {'float32': 4, 'float64': 8, 'int32': 4, 'uint8': 1}
TYPE_NAMES = ['r2d2', 'SIFT', 'd2_net', 'HessianAffine', 'AP-GeM.v2', 'kp_01']
DIR_PARTS = ['cam0', 'sub dir', 'dé', '日本', 'v1.0', 'a.b', 'mapping', 'query', 'Left']
BASE_NAMES = ['a.jpg', '0001.png', 'b c.jpg', 'ü.png', '画像 01.jpg', 'deep.jpeg', 'UPPER.JPG', 'img.001.png',
              'x.kpt.jpg', '.hidden.png', 'noext', 'q.matches.png', 'frame-000123.jpg', 'z.desc.gfeat.png']
ASCII_FILL = b'abcdefghijklmnopqrstuvwxyzABCDEFGHIJKLMNOPQRSTUVWXYZ0123456789 _-'


# ---------------------------------------------------------------------------------------- kapture access
def _kinds():
    import kapture
    import kapture.io.csv as kcsv
    import kapture.io.features as kf
    ext = {n: kf.FEATURE_FILE_EXTENSION[getattr(kapture, n)] for n in KIND_NAMES}
    sep = kf.FEATURE_PAIR_PATH_SEPARATOR[kapture.Matches]
    return {
        'Keypoints': dict(cls=kapture.Keypoints, attr='keypoints', ext=ext['Keypoints'],
                          from_dir=lambda t, root, known, th: kcsv.keypoints_from_dir(t, root, known, th),
                          fullpath=lambda t, root, key, th: kf.get_keypoints_fullpath(t, root, key, th),
                          from_file=kf.image_keypoints_from_file, to_file=kf.image_keypoints_to_file),
        'Descriptors': dict(cls=kapture.Descriptors, attr='descriptors', ext=ext['Descriptors'],
                            from_dir=lambda t, root, known, th: kcsv.descriptors_from_dir(t, root, known, th),
                            fullpath=lambda t, root, key, th: kf.get_descriptors_fullpath(t, root, key, th),
                            from_file=kf.image_descriptors_from_file, to_file=kf.image_descriptors_to_file),
        'GlobalFeatures': dict(cls=kapture.GlobalFeatures, attr='global_features', ext=ext['GlobalFeatures'],
                               from_dir=lambda t, root, known, th: kcsv.global_features_from_dir(t, root, known, th),
                               fullpath=lambda t, root, key, th: kf.get_global_features_fullpath(t, root, key, th),
                               from_file=kf.image_global_features_from_file, to_file=kf.image_global_features_to_file),
        'Matches': dict(cls=kapture.Matches, attr='matches', ext=ext['Matches'], sep=sep,
                        from_dir=lambda t, root, known, th: kcsv.matches_from_dir(t, root, known, None, th),
                        fullpath=lambda t, root, key, th: kf.get_matches_fullpath(tuple(key), t, root, th),
                        from_file=lambda p, dt, ds: kf.image_matches_from_file(p), to_file=kf.image_matches_to_file),
    }


def _fname(K, kind, key):
    """Relative name of the feature file of an image (or image pair) inside the <type> sub-folder."""
    if kind == 'Matches':
        return key[0] + K['Matches']['sep'] + '/' + key[1] + K['Matches']['ext']
    return key + K[kind]['ext']


def _path_secure(n):
    from kapture.utils.paths import path_secure
    return path_secure(n)


def _same_file(n):
    """The harness's own notion of 'the same relative path' (independent of kapture)."""
    return os.path.normpath(n).replace('\\', '/')


# ---------------------------------------------------------------------------------------- generation
def _image_name(rng):
    depth = rng.choice([0, 0, 1, 1, 2, 3])
    parts = [rng.choice(DIR_PARTS) for _ in range(depth)]
    base = rng.choice(BASE_NAMES)
    if rng.random() < 0.04:
        base = 'L' * rng.choice([60, 120]) + base
    return '/'.join(parts + [base])


def _images(rng, n):
    out = []
    while len(out) < n:
        c = _image_name(rng)
        if c not in out:
            out.append(c)
    return out


def _data(rng, dtype, dsize, rows=None):
    if rows is None:
        rows = rng.choice([0, 0, 1, 1, 2, 3, 5])
        if rng.random() < 0.03:
            rows = 1300 // (DTYPES[dtype] * dsize) + 1           # several 512-byte tar blocks
    n = rows * dsize * DTYPES[dtype]
    # contents are opaque to this property (bit identity only): mostly printable bytes keep the Coq shards small,
    # short arrays also take arbitrary bytes (NUL, 0xff, NaN patterns)
    if n > 32 or rng.random() < 0.5:
        return bytes(rng.choice(ASCII_FILL) for _ in range(n))
    return rng.randbytes(n)


SPELLINGS = ('plain', 'dot', 'dslash', 'mid', 'up')


def _pick_spelling(rng, style):
    """style: plain | dot | odd (any spelling a tar tool or a caller may produce) | api (odd + a '..' detour)."""
    if style in ('plain', 'dot'):
        return style
    c = rng.random()
    if c < 0.35:
        return 'dot'
    if c < 0.5:
        return 'dslash'
    if c < 0.65:
        return 'mid'
    if c < 0.8 and style == 'api':
        return 'up'
    return 'plain'


def _spell(name, sp):
    if sp == 'dot':
        return './' + name
    if sp == 'dslash' and '/' in name:
        return name.replace('/', '//', 1)
    if sp == 'mid' and '/' in name:
        return name.replace('/', '/./', 1)
    if sp == 'up':
        return 'tmp/../' + name
    return name


MTIMES = [0, 1, 86400 * 365, 1600000000, 1700000000, 1790000000, 4102444800, 2 ** 33 + 5]   # epoch .. past .. now .. future


def _hdr(rng, profile):
    """Header fields of a packed member.  profile: 'files' = what tar -cf / tarfile.add give for files written over time
    (recent, increasing or not), 'mixed' = anything incl. 0, far past and future, 'zero' = hand-made TarInfo defaults."""
    if profile == 'zero':
        return {'mtime': 0, 'mode': 0o644, 'uid': 0, 'pax': {}}
    mtime = 1700000000 + rng.randint(0, 10 ** 7) if profile == 'files' else rng.choice(MTIMES)
    pax = {}
    if rng.random() < 0.25:
        pax = rng.choice([{'comment': 'packed by the harness'}, {'KAPTURE.origin': 'dé/ü'}, {'comment': 'x', 'SCHILY.xattr.user.k': 'v'}])
    return {'mtime': mtime, 'mode': rng.choice([0o644, 0o600, 0o444, 0o777, 0o755]), 'uid': rng.choice([0, 1000, 65534]),
            'pax': pax}


def _gen_store(rng, images, unknown, kind, ftype):
    if kind == 'Matches':
        dtype, dsize = 'float64', 3
        pool = images + unknown
        keys = []
        for _ in range(rng.choice([0, 1, 2, 3, 5])):
            a, b = rng.choice(pool), rng.choice(pool)
            if a != b and [a, b] not in keys:
                keys.append([a, b])
    else:
        dtype = rng.choice(list(DTYPES))
        dsize = rng.choice([1, 2, 4, 6, 32] if kind != 'GlobalFeatures' else [1, 8, 64])
        keys = [k for k in images + unknown if rng.random() < rng.choice([0.3, 0.7, 1.0])]
    writes = []
    for k in keys:
        for _ in range(rng.choice([1, 1, 1, 2, 3])):
            writes.append({'key': k, 'hex': _data(rng, dtype, dsize).hex(), 'raw': False})
    rng.shuffle(writes)
    malformed = False
    if writes and kind != 'Matches' and DTYPES[dtype] > 1 and rng.random() < 0.08:
        w = rng.choice(writes)
        w['hex'] = (bytes.fromhex(w['hex']) + b'xyz'[:rng.randint(1, DTYPES[dtype] - 1)]).hex()
        w['raw'] = True
        malformed = True
    st = {'fkind': kind, 'ftype': ftype, 'dtype': dtype, 'dsize': dsize, 'writes': writes, 'tar': None,
          'stale': [], 'appends': [], 'reads': [], 'malformed': malformed, 'links': []}
    some_image = (images + unknown)[0]
    if rng.random() < 0.85:
        style = rng.choice(['plain', 'plain', 'dot', 'odd'])
        idx = list(range(len(writes)))
        names = [None] * len(writes)
        keep_dups = rng.random() < 0.5
        if not keep_dups:
            last = {}
            for i, w in enumerate(writes):
                last[json.dumps(w['key'])] = i
            idx = sorted(last.values())
            if rng.random() < 0.6:
                rng.shuffle(idx)
        profile = rng.choice(['files', 'files', 'mixed', 'mixed', 'zero'])
        members = [[i, None, _hdr(rng, profile)] for i in idx]
        # how: 'add' = the feature files are really written, then tarfile.add()ed (as `tar -cf` does) and removed;
        #      'info' = members made from TarInfo objects
        st['tar'] = {'members': members, 'style': style, 'dirs': style == 'dot' or rng.random() < 0.3,
                     'format': rng.choice(['gnu', 'pax']), 'how': rng.choice(['add', 'add', 'info'])}
        # a de-duplicated folder: some feature files are hard links (or symlinks) of others; tarfile.add then stores
        # LNKTYPE / SYMTYPE members.  Link entries are members [-(j+1), spelling, header] for link j.
        linked = []
        if keys and not malformed and rng.random() < 0.3:
            st['tar']['how'] = 'add'
            for j in range(rng.choice([1, 1, 2, 3])):
                target = rng.choice(keys)
                fresh = [k for k in images + unknown if k not in keys and k not in [l[0] for l in st['links']]]
                name = rng.choice(fresh) if fresh and rng.random() < 0.7 else 'dedup/copy %d of %s' % (j, rng.choice(BASE_NAMES))
                new = [target[0], name] if kind == 'Matches' else name
                if new in keys or new in [l[0] for l in st['links']] or new == target:
                    continue
                st['links'].append([new, target, rng.choice(['hard', 'hard', 'sym'])])
                linked += [new, target]
                entry = [-len(st['links']), None, _hdr(rng, profile)]
                if keep_dups or rng.random() < 0.5:
                    members.append(entry)
                else:
                    members.insert(rng.randrange(len(members) + 1), entry)     # may precede its target: roles swap
        if rng.random() < 0.2 and writes and not linked:
            w = rng.choice(writes)
            st['stale'].append({'key': w['key'], 'hex': _data(rng, dtype, dsize).hex()})
            if rng.random() < 0.5:
                st['stale'].append({'key': (['zz/only-loose.jpg', some_image] if kind == 'Matches' else 'zz/only-loose.jpg'),
                                    'hex': _data(rng, dtype, dsize).hex()})
        if rng.random() < 0.45:
            for _ in range(rng.randint(1, 3)):
                if keys and rng.random() < 0.65:
                    k = rng.choice(keys)                       # supersede a packed member
                elif kind == 'Matches':
                    k = [rng.choice(images + unknown), rng.choice(images + unknown)]
                else:
                    k = rng.choice(images + unknown)
                if k in linked:
                    continue      # writing through a hard link changes its siblings in a folder, not in an archive: out of scope
                st['appends'].append({'key': k, 'hex': _data(rng, dtype, dsize).hex()})
    allkeys = []
    for w in writes + st['appends'] + st['stale']:
        if w['key'] not in allkeys:
            allkeys.append(w['key'])
    rng.shuffle(allkeys)
    for l in st['links']:
        st['reads'].append([l[0], dtype, dsize])
    for k in allkeys[:5]:
        st['reads'].append([k, dtype, dsize])
    if kind != 'Matches':
        if allkeys:
            st['reads'].append([allkeys[0], dtype, dsize + 1])
            other = rng.choice([d for d in DTYPES if d != dtype])
            st['reads'].append([allkeys[-1], other, dsize])
        st['reads'].append(['not/there.jpg', dtype, dsize])
    else:
        st['reads'].append([['not/there.jpg', some_image], dtype, dsize])
    return st


def _gen_dataset(rng):
    images = _images(rng, rng.choice([0, 1, 1, 2, 3, 4, 6]))       # 0 = records_camera.txt with no record at all
    unknown = [n for n in _images(rng, rng.choice([0, 0, 1, 2]) if images else rng.choice([1, 2, 3])) if n not in images]
    stores, used = [], set()
    for _ in range(rng.choice([1, 1, 2, 3, 4])):
        kind, ftype = rng.choice(KIND_NAMES), rng.choice(TYPE_NAMES)
        if (kind, ftype) in used:
            continue
        used.add((kind, ftype))
        stores.append(_gen_store(rng, images, unknown, kind, ftype))
    for st in stores:
        if st['tar']:
            for m in st['tar']['members']:
                m[1] = _pick_spelling(rng, st['tar']['style'])
    # how the stores are listed: through kapture_from_dir (image set = records_camera), or through the per-store loaders
    # with an explicit image set: None (everything), set() (nothing), {one image}, a subset with strangers
    use_known = rng.random() < 0.6
    direct = None
    if not use_known:
        c = rng.random()
        pool = images + unknown
        if c < 0.3:
            direct = None
        elif c < 0.55:
            direct = []
        elif c < 0.8:
            direct = [rng.choice(pool)]
        else:
            direct = [x for x in pool if rng.random() < 0.6] + ['never/seen.jpg']
    # a pairs file restricting the load of the matches: lines in either order of the two names, repeated lines, pairs
    # that are not stored, images nobody knows, with and without a score
    pairsfile = None
    mstores = [st for st in stores if st['fkind'] == 'Matches']
    if mstores and rng.random() < 0.6:
        stored = [w['key'] for st in mstores for w in st['writes'] + st['appends']] + [l[0] for st in mstores for l in st['links']]
        pool = images + unknown + ['never/seen.jpg']
        pairsfile = []
        for key in stored:
            if rng.random() < 0.75:
                q, m = key if rng.random() < 0.5 else key[::-1]
                pairsfile.append([q, m, rng.choice(['0.9', '1', '', '0.25'])])
        for _ in range(rng.randint(0, 3)):
            pairsfile.append([rng.choice(pool), rng.choice(pool), rng.choice(['0.5', ''])])
        if pairsfile and rng.random() < 0.5:
            pairsfile.append(list(rng.choice(pairsfile)))
        rng.shuffle(pairsfile)
    return {'kind': 'dataset', 'images': images, 'stores': stores, 'pairsfile': pairsfile,
            'handlers': rng.random() < 0.85, 'use_known': use_known, 'direct_known': direct}


def _gen_append(rng, mode):
    api = rng.choice(['handler', 'handler', 'collection'])
    kind = rng.choice(KIND_NAMES)
    images = _images(rng, rng.choice([1, 2, 3]))
    n_ops = rng.choice([1, 2, 3, 4, 5, 8]) if mode == 'inproc' else rng.choice([2, 3, 4])
    base_kind = rng.choice(['none', 'empty', 'members', 'members']) if api == 'handler' else rng.choice(['empty', 'members'])
    dtype = 'float64' if kind == 'Matches' else rng.choice(list(DTYPES))
    dsize = 3 if kind == 'Matches' else rng.choice([1, 2, 4])

    link_keys = []

    def key():
        if link_keys and rng.random() < 0.25:
            return rng.choice(link_keys)           # an append that supersedes a link member
        if kind == 'Matches':
            a = rng.choice(images)
            return [a, rng.choice(images + ['other/x.png'])]
        return rng.choice(images)
    base = None
    if base_kind != 'none':
        members = []
        if base_kind == 'members':
            for _ in range(rng.randint(1, 4)):
                members.append([key(), _data(rng, dtype, dsize).hex(), rng.choice(['plain', 'plain', 'dot']),
                                _hdr(rng, rng.choice(['files', 'files', 'mixed', 'zero']))])
            if rng.random() < 0.3:
                # a member that is a hard link (or symlink) to an earlier regular member, as tar stores de-duplicated files
                to = rng.randrange(len(members))
                lk = [members[to][0][0], 'lnk/dup.png'] if kind == 'Matches' else 'lnk/dup of ' + rng.choice(BASE_NAMES)
                members.append([lk, {'link': rng.choice(['hard', 'hard', 'sym']), 'to': to}, 'plain', _hdr(rng, 'files')])
                link_keys.append(lk)
        base = {'members': members, 'dirs': rng.random() < 0.3, 'format': rng.choice(['gnu', 'pax'])}
    ops = []
    # every kill sweep holds one array of at least io.DEFAULT_BUFFER_SIZE bytes (not a multiple of 16 KiB): since every k
    # is swept, it is the LAST completed append before one of the SIGKILLs; a write-through of such a payload leaves its
    # tail in the process buffer unless the writer flushes
    big_at = rng.randrange(n_ops) if mode == 'kill' else (rng.randrange(n_ops) if rng.random() < 0.06 else -1)
    for j in range(n_ops):
        spelling = _pick_spelling(rng, rng.choice(['plain', 'plain', 'api'])) if api == 'handler' else 'plain'
        rows = None
        if j == big_at:
            row = DTYPES[dtype] * dsize
            rows = -(-rng.choice([8192, 8200, 9000, 12345, 13001]) // row)
        ops.append([key(), _data(rng, dtype, dsize, rows=rows).hex(), spelling])
    sessions = [n_ops]
    if mode == 'inproc' and n_ops >= 2 and rng.random() < 0.5:
        parts = 2 if n_ops < 3 or rng.random() < 0.6 else 3
        cuts = sorted(rng.sample(range(1, n_ops), parts - 1))
        sessions = [b - a for a, b in zip([0] + cuts, cuts + [n_ops])]
    case = {'kind': 'append', 'mode': mode, 'api': api, 'fkind': kind, 'ftype': rng.choice(TYPE_NAMES), 'dtype': dtype,
            'dsize': dsize, 'base': base, 'ops': ops, 'sessions': sessions, 'close_last': rng.random() < 0.7}
    if mode == 'inproc':
        # how every writer session ends: 'close', or 'abandon' = the handle is never closed ("even if the writer is never
        # closed") and stays referenced while later sessions work; an abandoned handle is reclaimed (del + gc, what leaving a
        # scope or interpreter exit do) at some later point of the history ('s', j, k = during session j after its k-th
        # append; 'e', j = after session j has ended), or only after the last observation.  Abandoned handles are never USED
        # again (that would be two concurrent writers).
        ends = ['close' if rng.random() < 0.5 else 'abandon' for _ in sessions[:-1]] + ['close' if case['close_last'] else 'abandon']
        if base is None and len(ends) > 1 and rng.random() < 0.8:
            ends[0] = 'close'       # tarfile cannot re-open for appending a NEW archive whose only writer was never closed
        drops = []
        for i, e in enumerate(ends):
            if e == 'abandon' and rng.random() < 0.85:
                points = [['e', j] for j in range(i, len(sessions))]
                points += [['s', j, k] for j in range(i + 1, len(sessions)) for k in range(sessions[j] + 1)]
                drops.append([i] + rng.choice(points))
        case['ends'], case['drops'] = ends, drops
    return case


def gen_cases(rng, tier):
    n_ds, n_app, n_kill = (100, 40, 10) if tier == 'quick' else (1000, 400, 60)
    cases = []
    for i in range(max(n_ds, n_app)):
        if i < n_ds:
            cases.append(_gen_dataset(rng))
        if i < n_app:
            cases.append(_gen_append(rng, 'inproc'))
        if i < n_kill:
            cases.append(_gen_append(rng, 'kill'))
    return cases


# ---------------------------------------------------------------------------------------- building real stores
def _tar_format(name):
    return {'gnu': tarfile.GNU_FORMAT, 'pax': tarfile.PAX_FORMAT}[name]


def _apply_hdr(ti, h):
    ti.mtime = h['mtime']
    ti.mode = h['mode']
    ti.uid = ti.gid = h['uid']
    ti.uname = ti.gname = 'u%d' % h['uid']
    ti.pax_headers = dict(h['pax'])
    return ti


def _write_tar(path, members, dirs, fmt, real=None):
    """members: [(name as spelled, header fields, payload)] in archive order, payload = bytes, or ('h', linkname) /
    ('s', linkname) for a hard / symbolic link member made by hand; dirs: also add directory members first.
    real: None (members made from TarInfo objects) or a function i -> path of a real file (or link) that stands for
    member i right now; it is given the member's mtime and added with tarfile.add, the way `tar -cf` packs a folder
    (so files sharing an inode become LNKTYPE members, symlinks SYMTYPE members)."""
    os.makedirs(os.path.dirname(path), exist_ok=True)
    with tarfile.open(path, 'w', format=_tar_format(fmt)) as t:
        if dirs:
            seen = []
            for n, _, _ in members:
                d = os.path.dirname(_same_file(n))
                while d and d not in seen:
                    seen.append(d)
                    d = os.path.dirname(d)
            for d in ['.'] + sorted(seen):
                ti = tarfile.TarInfo('./' + d if d != '.' else '.')
                ti.type = tarfile.DIRTYPE
                ti.mode = 0o755
                ti.mtime = 1700000000
                t.addfile(ti)
        for i, (n, h, b) in enumerate(members):
            if real is not None:
                src = real(i)
                try:
                    os.utime(src, (h['mtime'], h['mtime']), follow_symlinks=False)
                except (OSError, OverflowError, NotImplementedError):
                    pass
                t.add(src, arcname=n, recursive=False, filter=lambda ti, h=h: _apply_hdr(ti, h))
            elif isinstance(b, (bytes, bytearray)):
                ti = tarfile.TarInfo(n)
                ti.size = len(b)
                t.addfile(_apply_hdr(ti, h), io.BytesIO(b))
            else:
                ti = tarfile.TarInfo(n)
                ti.type = tarfile.LNKTYPE if b[0] == 'h' else tarfile.SYMTYPE
                ti.linkname = b[1]
                t.addfile(_apply_hdr(ti, h))


def _phys(path):
    """Physical log of an archive read with plain tarfile: [(member name, header fields, payload)] of the regular files
    and links, payload = ('b', bytes) | ('h', linkname) | ('s', archive path the symlink points at); None if no archive."""
    if not os.path.isfile(path) or os.path.getsize(path) == 0:
        return None
    out = []
    with tarfile.open(path, 'r') as t:
        for m in t.getmembers():
            if m.isfile():
                pay = ('b', t.extractfile(m).read())
            elif m.islnk():
                pay = ('h', m.linkname)
            elif m.issym():
                pay = ('s', os.path.normpath('/'.join(filter(None, (os.path.dirname(m.name), m.linkname)))))
            else:
                continue
            out.append((m.name, {'mtime': int(m.mtime), 'mode': m.mode, 'uid': m.uid,
                                 'pax': {str(k): str(v) for k, v in m.pax_headers.items()}}, pay))
    return out


def _jpay(pay):
    return {pay[0]: pay[1].hex() if pay[0] == 'b' else pay[1]}


def _resolve(members):
    """The harness's own reading of an archive as a folder: {path: bytes}; a hard link has the bytes of the last earlier
    member under its target path, a symlink those of the last member of the whole archive under its target path.
    members: [(name, payload)] with payload ('b', bytes|hex) | ('h', target) | ('s', target path)."""
    out, solid = {}, {}
    for n, pay in members:
        k = _same_file(n)
        if pay[0] == 'b':
            out[k] = solid[k] = pay[1]
        elif pay[0] == 'h':
            if _same_file(pay[1]) in solid:
                out[k] = solid[k] = solid[_same_file(pay[1])]
        else:
            out[k] = ('->', _same_file(pay[1]))          # still a symlink unless a later member takes the name
    for k, v in list(out.items()):
        if isinstance(v, tuple):
            if v[1] in solid:
                out[k] = solid[v[1]]
            else:
                del out[k]
    return out


def _arr(b, dtype, dsize):
    import numpy as np
    return np.frombuffer(b, dtype=getattr(np, dtype)).reshape((-1, dsize))      # native = little-endian here


def _make_root(root, images, stores, K):
    """sensors, records_camera and the feature config files, written by kapture_to_dir."""
    import numpy as np
    import kapture
    import kapture.io.csv as kcsv
    kd = kapture.Kapture()
    kd.sensors = kapture.Sensors()
    kd.sensors['cam0'] = kapture.Camera(kapture.CameraType.UNKNOWN_CAMERA, [640, 480])
    kd.records_camera = kapture.RecordsCamera()
    for i, im in enumerate(images):
        kd.records_camera[i, 'cam0'] = im
    for st in stores:
        kind, t = st['fkind'], st['ftype']
        dt = getattr(np, st['dtype'])
        if kind == 'Keypoints':
            kd.keypoints = kd.keypoints or {}
            kd.keypoints[t] = kapture.Keypoints(t, dt, st['dsize'])
        elif kind == 'Descriptors':
            kd.descriptors = kd.descriptors or {}
            kd.descriptors[t] = kapture.Descriptors(t, dt, st['dsize'], t, 'L2')
        elif kind == 'GlobalFeatures':
            kd.global_features = kd.global_features or {}
            kd.global_features[t] = kapture.GlobalFeatures(t, dt, st['dsize'], 'L2')
    kcsv.kapture_to_dir(root, kd)
    for st in stores:
        os.makedirs(os.path.join(root, SPEC[st['fkind']][0], st['ftype']), exist_ok=True)


def _write_loose(root, st, K, key, b, raw):
    """One feature file in directory form, through kapture's writer (raw = bytes that are not an array dump)."""
    k = K[st['fkind']]
    p = k['fullpath'](st['ftype'], root, key, None)
    assert isinstance(p, str)
    if raw:
        os.makedirs(os.path.dirname(p), exist_ok=True)
        with open(p, 'wb') as f:
            f.write(b)
    else:
        k['to_file'](p, _arr(b, st['dtype'], st['dsize']))
    return p


def _members_of(st, K):
    """[(spelled member name, header fields, bytes)] of the archive the harness builds for a store."""
    out = []
    for i, sp, h in st['tar']['members']:
        if i < 0:
            out.append((_spell(_fname(K, st['fkind'], st['links'][-i - 1][0]), sp), h, None))     # made by tarfile.add
        else:
            w = st['writes'][i]
            out.append((_spell(_fname(K, st['fkind'], w['key']), sp), h, bytes.fromhex(w['hex'])))
    return out


def _make_link(root, st, K, link):
    """The link as a user's de-duplication tool makes it in a feature folder: os.link / relative os.symlink."""
    new, target, how = link
    k = K[st['fkind']]
    src, dst = k['fullpath'](st['ftype'], root, target, None), k['fullpath'](st['ftype'], root, new, None)
    os.makedirs(os.path.dirname(dst), exist_ok=True)
    if not os.path.lexists(dst):
        if how == 'hard':
            os.link(src, dst)
        else:
            os.symlink(os.path.relpath(src, os.path.dirname(dst)), dst)
    return dst


def _observe(root, case, K, handlers, pairsfile=None):
    """Load the dataset and read arrays the way a user does (pairsfile: path of a pairs file restricting the matches)."""
    import numpy as np
    import kapture.io.csv as kcsv
    obs = []
    th = None
    try:
        if handlers:
            th = kcsv.get_all_tar_handlers(root)
        kd = None
        if case['use_known']:
            kd = kcsv.kapture_from_dir(root, matches_pairs_file_path=pairsfile, tar_handlers=th)
        for st in case['stores']:
            k = K[st['fkind']]
            o = {'listing': None, 'reads': [], 'error': None}
            try:
                if kd is not None:
                    part = getattr(kd, k['attr'])
                    feats = part[st['ftype']]
                else:
                    dk = case.get('direct_known')
                    if st['fkind'] == 'Matches':
                        feats = kcsv.matches_from_dir(st['ftype'], root, None if dk is None else set(dk), pairsfile, th)
                    else:
                        feats = k['from_dir'](st['ftype'], root, None if dk is None else set(dk), th)
                if st['fkind'] == 'Matches':
                    o['listing'] = sorted([a, b] for a, b in feats)
                else:
                    o['listing'] = sorted(feats)
            except Exception as e:
                o['error'] = f'{type(e).__name__}: {e}'[:200]
            for key, dtype, dsize in st['reads']:
                try:
                    p = k['fullpath'](st['ftype'], root, key, th)
                    with contextlib.redirect_stdout(io.StringIO()):
                        a = k['from_file'](p, getattr(np, dtype), dsize)
                    if a.dtype != np.dtype(dtype) or a.ndim != 2 or a.shape[1] != dsize:
                        o['reads'].append(['other', f'dtype {a.dtype} shape {a.shape}'])
                    else:
                        o['reads'].append(['arr', int(a.shape[0]), a.tobytes().hex()])
                except (KeyError, FileNotFoundError):
                    o['reads'].append(['missing'])
                except ValueError:
                    o['reads'].append(['bad'])
                except Exception as e:
                    o['reads'].append(['other', f'{type(e).__name__}: {e}'[:120]])
            obs.append(o)
    except Exception as e:
        return {'load_error': f'{type(e).__name__}: {e}'[:300]}
    finally:
        if th is not None:
            th.close()
    return {'stores': obs}


def _run_dataset(case, ctx):
    import kapture
    import kapture.io.csv as kcsv
    K = _kinds()
    base = os.path.join(ctx['tmp'], 'ds')
    shutil.rmtree(base, ignore_errors=True)
    D, P = os.path.join(base, 'dir'), os.path.join(base, 'packed')
    try:
        # directory twin: every write and every append as a file, in order, through kapture's writers
        _make_root(D, case['images'], case['stores'], K)
        for st in case['stores']:
            for w in st['writes']:
                _write_loose(D, st, K, w['key'], bytes.fromhex(w['hex']), w['raw'])
            for l in st['links']:
                _make_link(D, st, K, l)
            for a in st['appends']:
                _write_loose(D, st, K, a['key'], bytes.fromhex(a['hex']), False)
        # packed twin
        phys = []
        _make_root(P, case['images'], case['stores'], K)
        for st in case['stores']:
            sub = os.path.join(P, SPEC[st['fkind']][0], st['ftype'])
            if st['tar'] is None:
                for w in st['writes']:
                    _write_loose(P, st, K, w['key'], bytes.fromhex(w['hex']), w['raw'])
                phys.append(None)
                continue
            real, written = None, set()
            if st['tar']['how'] == 'add':
                def real(i, st=st, written=written):
                    wi = st['tar']['members'][i][0]
                    if wi < 0:
                        link = st['links'][-wi - 1]
                        tgt = K[st['fkind']]['fullpath'](st['ftype'], P, link[1], None)
                        if not os.path.lexists(tgt):          # the link is packed before its target: write the target now
                            w = [x for x in st['writes'] if x['key'] == link[1]][-1]
                            written.add(_write_loose(P, st, K, w['key'], bytes.fromhex(w['hex']), w['raw']))
                        f = _make_link(P, st, K, link)
                    else:
                        w = st['writes'][wi]
                        f = _write_loose(P, st, K, w['key'], bytes.fromhex(w['hex']), w['raw'])
                    written.add(f)
                    return f
            _write_tar(os.path.join(sub, SPEC[st['fkind']][1]), _members_of(st, K), st['tar']['dirs'], st['tar']['format'], real)
            for f in written:
                os.unlink(f)
            phys.append([[n, h, _jpay(pay)] for n, h, pay in _phys(os.path.join(sub, SPEC[st['fkind']][1]))])
            for s in st['stale']:
                _write_loose(P, st, K, s['key'], bytes.fromhex(s['hex']), False)
        append_error = None
        if any(st['appends'] for st in case['stores']):
            mode = {getattr(kapture, st['fkind']): 'a' for st in case['stores'] if st['appends']}
            try:
                with kcsv.get_all_tar_handlers(P, mode=mode) as th:
                    for st in case['stores']:
                        k = K[st['fkind']]
                        for a in st['appends']:
                            p = k['fullpath'](st['ftype'], P, a['key'], th)
                            if isinstance(p, str) and not st['stale']:
                                append_error = 'append went to a loose file although the archive exists'
                            k['to_file'](p, _arr(bytes.fromhex(a['hex']), st['dtype'], st['dsize']))
            except Exception as e:
                append_error = f'{type(e).__name__}: {e}'[:200]
        pf = None
        if case.get('pairsfile') is not None:
            # "name1, name2, score" lines, the layout of the pairs files used by kapture_export_colmap & co
            pf = os.path.join(base, 'pairs.txt')
            with open(pf, 'w') as f:
                f.write('# query_image, map_image, score\n')
                for i, (q, m, sc) in enumerate(case['pairsfile']):
                    f.write(f'{q}, {m}, {sc}\n' if i % 3 else f'{q},{m},{sc}\n')
                    if i == 1:
                        f.write('\n')
        obs_p = _observe(P, case, K, case['handlers'], pf)
        obs_d = _observe(D, case, K, True, pf)
        # what path_secure does to every name the model will normalise
        norm = {}
        for st in case['stores']:
            names = [_fname(K, st['fkind'], r[0]) for r in st['reads']]
            names += [_fname(K, st['fkind'], w['key']) for w in st['writes'] + st['appends'] + st['stale']]
            names += [_fname(K, st['fkind'], l[0]) for l in st['links']]
            if st['fkind'] == 'Matches' and case.get('pairsfile') is not None:
                names += [_fname(K, 'Matches', [q, m] if q < m else [m, q]) for q, m, _ in case['pairsfile']]
            if st['tar']:
                for n, _, pay in phys[case['stores'].index(st)]:
                    names += [n] + [v for k, v in pay.items() if k != 'b']
            if st['fkind'] != 'Matches':
                names += [i + K[st['fkind']]['ext'] for i in case['images'] + (case.get('direct_known') or [])]
            for n in names:
                m = _path_secure(n)
                while m != n and n not in norm:
                    norm[n] = m
                    n, m = m, _path_secure(m)
        return {'packed': obs_p, 'dir': obs_d, 'append_error': append_error, 'norm': sorted(norm.items()), 'phys': phys}
    finally:
        shutil.rmtree(base, ignore_errors=True)


# ---------------------------------------------------------------------------------------- append cases
WRITER_SRC = r'''
import sys, json
import numpy as np
spec = json.loads(sys.stdin.readline())
import kapture
import kapture.io.csv as kcsv
import kapture.io.features as kf
from kapture.io.tar import TarHandler
try:
    if spec['api'] == 'handler':
        h = TarHandler(spec['path'], 'a')
        def add(op):
            h.add_array_to_tar(op['name'], np.frombuffer(bytes.fromhex(op['hex']), dtype=op['dtype']).reshape((-1, op['dsize'])))
    else:
        kind = getattr(kapture, spec['fkind'])
        th = kcsv.get_all_tar_handlers(spec['root'], mode={kind: 'a'})
        fp = {'Keypoints': lambda k: kf.get_keypoints_fullpath(spec['ftype'], spec['root'], k, th),
              'Descriptors': lambda k: kf.get_descriptors_fullpath(spec['ftype'], spec['root'], k, th),
              'GlobalFeatures': lambda k: kf.get_global_features_fullpath(spec['ftype'], spec['root'], k, th),
              'Matches': lambda k: kf.get_matches_fullpath(tuple(k), spec['ftype'], spec['root'], th)}[spec['fkind']]
        wr = {'Keypoints': kf.image_keypoints_to_file, 'Descriptors': kf.image_descriptors_to_file,
              'GlobalFeatures': kf.image_global_features_to_file, 'Matches': kf.image_matches_to_file}[spec['fkind']]
        def add(op):
            p = fp(op['key'])
            assert not isinstance(p, str), 'no archive handler for this feature type'
            wr(p, np.frombuffer(bytes.fromhex(op['hex']), dtype=op['dtype']).reshape((-1, op['dsize'])))
    sys.stdout.write('open\n'); sys.stdout.flush()
    for i, op in enumerate(spec['ops']):
        if not sys.stdin.readline():
            break
        add(op)
        sys.stdout.write('done %d\n' % (i + 1)); sys.stdout.flush()
    sys.stdin.readline()      # stay alive, never close: the harness kills this process
except BaseException as e:
    sys.stdout.write('error %s: %s\n' % (type(e).__name__, e)); sys.stdout.flush()
'''


def _op_names(case, K):
    """Member name handed to the API per op (odd spellings only with the raw TarHandler API)."""
    return [_spell(_fname(K, case['fkind'], key), sp) for key, _, sp in case['ops']]


def _base_members(case, K):
    out = []
    for key, hx, sp, h in case['base']['members']:
        n = _spell(_fname(K, case['fkind'], key), sp)
        if isinstance(hx, dict):             # {'link': 'hard'|'sym', 'to': index of an earlier member}
            tgt = out[hx['to']][0]
            if hx['link'] == 'hard':
                out.append((n, h, ('h', tgt)))
            else:
                out.append((n, h, ('s', os.path.relpath(_same_file(tgt), os.path.dirname(_same_file(n)) or '.'))))
        else:
            out.append((n, h, bytes.fromhex(hx)))
    return out


def _reader_view(case, K, path, root):
    """What a fresh reader sees: {member name in the handler's index: bytes}, through kapture's API."""
    import numpy as np
    import kapture.io.csv as kcsv
    from kapture.io.tar import TarHandler
    th = h = None
    try:
        if case['api'] == 'collection':
            th = kcsv.get_all_tar_handlers(root)
            h = getattr(th, K[case['fkind']]['attr']).get(case['ftype'])
            if h is None:
                return {'open': False, 'exc': 'no archive found by get_all_tar_handlers'}
        else:
            h = TarHandler(path, 'r')
    except Exception as e:
        return {'open': False, 'exc': type(e).__name__}
    try:
        items = []
        for n, m in h.content.items():
            if m.isfile() or m.islnk() or m.issym():
                with contextlib.redirect_stdout(io.StringIO()):
                    items.append([n, h.get_array_from_tar(n, np.uint8, 1).tobytes().hex()])
        return {'open': True, 'items': items}
    except Exception as e:
        return {'open': False, 'exc': 'reading a member failed: ' + type(e).__name__}
    finally:
        (th or h).close()


def _prepare_archive(case, K, where):
    """Creates the place where the archive lives (a kapture directory for the collection API); returns (path, root)."""
    os.makedirs(where)
    if case['api'] == 'collection':
        root = os.path.join(where, 'k')
        st = {'fkind': case['fkind'], 'ftype': case['ftype'], 'dtype': case['dtype'], 'dsize': case['dsize']}
        _make_root(root, ['a.jpg'], [st], K)
        path = os.path.join(root, SPEC[case['fkind']][0], case['ftype'], SPEC[case['fkind']][1])
    else:
        root, path = None, os.path.join(where, 'archive.tar')
    if case['base'] is not None:
        _write_tar(path, _base_members(case, K), case['base']['dirs'], case['base']['format'])
    return path, root


def _has_end_marker(path):
    """Does the archive end with an end-of-archive (zero) block after its last member?  An archive whose writer was
    never closed has none once the appended members have used up the padding of the archive they were appended to."""
    try:
        with tarfile.open(path, 'r') as t:
            t.getmembers()
            end = t.offset
        with open(path, 'rb') as f:
            f.seek(end)
            block = f.read(512)
        return len(block) == 512 and not any(block)
    except (OSError, tarfile.TarError):
        return False


def _session_plan(case):
    """(ends, drops) of an in-process append case; cases recorded before sessions could be abandoned have neither."""
    ends = case.get('ends')
    if ends is None:
        ends = ['close'] * (len(case['sessions']) - 1) + ['close' if case.get('close_last', True) else 'abandon']
    return ends, [list(d) for d in case.get('drops', [])]


def _run_inproc(case, ctx):
    import gc
    import numpy as np
    import kapture
    import kapture.io.csv as kcsv
    from kapture.io.tar import TarHandler
    K = _kinds()
    where = os.path.join(ctx['tmp'], 'ap')
    shutil.rmtree(where, ignore_errors=True)
    ends, drops = _session_plan(case)
    abandoned = {}             # session -> [collection or None, handler]: un-closed writer objects that are still referenced
    try:
        path, root = _prepare_archive(case, K, where)
        names = _op_names(case, K)
        k = K[case['fkind']]
        sessions, pos, stopped = [], 0, None
        base0 = _phys(path)
        # the whole history, one reader observation after every event: [events done, what a fresh reader saw]
        hist = {'base': None if base0 is None else [[a, h, _jpay(pay)] for a, h, pay in base0], 'events': [], 'obs': []}

        def look(s, kk, ending):
            seen = _reader_view(case, K, path, root)
            s['obs'].append([kk, ending, seen])
            hist['obs'].append([len(hist['events']), seen])

        def reclaim(point, s, kk, ending):
            for d in drops:
                if d[1:] == point and d[0] in abandoned:
                    abandoned.pop(d[0]).clear()            # the last reference goes away without close()
                    gc.collect()
                    hist['events'].append(['drop', d[0]])
                    look(s, kk, ending)

        for si, n in enumerate(case['sessions']):
            base = _phys(path)
            s = {'base': None if base is None else [[a, h, _jpay(pay)] for a, h, pay in base], 'ops': [], 'obs': [], 'windex': [],
                 'error': None}
            th = h = None
            try:
                marker = base is None or _has_end_marker(path)
                try:
                    if case['api'] == 'collection':
                        th = kcsv.get_all_tar_handlers(root, mode={getattr(kapture, case['fkind']): 'a'})
                        h = getattr(th, k['attr'])[case['ftype']]
                    else:
                        h = TarHandler(path, 'a')
                except tarfile.ReadError:
                    if marker:
                        raise
                    # BOUNDARY (not part of the property, which speaks of readers): tarfile refuses to open for APPENDING an
                    # archive that has no end-of-archive block, i.e. one left by a writer that was never closed (or killed)
                    # after its appends used up the padding.  Readers are fine.  The history stops here.
                    stopped = 'reopen-refused: no end-of-archive block (earlier writer never closed)'
                    break
                hist['events'].append(['open', si])
                s['windex'].append([0, [x for x, m in h.content.items() if m.isfile() or m.islnk() or m.issym()]])
                look(s, 0, 'alive')
                reclaim(['s', si, 0], s, 0, 'alive')
                for j in range(pos, pos + n):
                    key, hx, _ = case['ops'][j]
                    arr = _arr(bytes.fromhex(hx), case['dtype'], case['dsize'])
                    if case['api'] == 'collection':
                        k['to_file'](k['fullpath'](case['ftype'], root, key, th), arr)
                    else:
                        h.add_array_to_tar(names[j], arr)
                    s['ops'].append([names[j], hx])
                    hist['events'].append(['append', si, names[j], hx])
                    s['windex'].append([j - pos + 1, [x for x, m in h.content.items() if m.isfile() or m.islnk() or m.issym()]])
                    look(s, j - pos + 1, 'alive')
                    reclaim(['s', si, j - pos + 1], s, j - pos + 1, 'alive')
                if ends[si] == 'close':
                    (th or h).close()
                    th = h = None
                    hist['events'].append(['close', si])
                    look(s, n, 'closed')
                else:
                    abandoned[si] = [th, h]
                    th = h = None
                reclaim(['e', si], s, n, 'closed' if ends[si] == 'close' else 'alive')
            except Exception as e:
                s['error'] = f'{type(e).__name__}: {e}'[:200]
            finally:
                if (th or h) is not None:
                    try:
                        (th or h).close()
                    except Exception:
                        pass
                th = h = None
            sessions.append(s)
            pos += n
        multi = len(case['sessions']) > 1 or any(e == 'abandon' for e in ends[:-1]) or bool(drops)
        return {'sessions': sessions, 'norm': _norm_table(sessions), 'history': hist if multi else None, 'stopped': stopped}
    finally:
        for v in abandoned.values():
            v.clear()
        abandoned.clear()
        gc.collect()
        shutil.rmtree(where, ignore_errors=True)


def _norm_table(sessions):
    norm = {}
    for s in sessions:
        for n in [x for m in (s['base'] or []) for x in [m[0]] + [v for k, v in m[2].items() if k != 'b']] + [o[0] for o in s['ops']]:
            m = _path_secure(n)
            while m != n and n not in norm:
                norm[n] = m
                n, m = m, _path_secure(m)
    return sorted(norm.items())


def _run_kill(case, ctx):
    K = _kinds()
    where = os.path.join(ctx['tmp'], 'kill')
    shutil.rmtree(where, ignore_errors=True)
    os.makedirs(where)
    script = os.path.join(where, 'c12_writer.py')
    with open(script, 'w') as f:
        f.write(WRITER_SRC)
    names = _op_names(case, K)
    ops = [{'name': names[j], 'key': case['ops'][j][0], 'hex': case['ops'][j][1], 'dtype': case['dtype'],
            'dsize': case['dsize']} for j in range(len(names))]
    procs = []
    session = {'base': None, 'ops': [[names[j], case['ops'][j][1]] for j in range(len(names))], 'obs': [], 'windex': [],
               'error': None}
    try:
        for kpt in range(len(ops) + 1):
            path, root = _prepare_archive(case, K, os.path.join(where, f'k{kpt}'))
            if kpt == 0:
                base = _phys(path)
                session['base'] = None if base is None else [[a, h, _jpay(pay)] for a, h, pay in base]
            p = subprocess.Popen([kv.PY, '-B', script], stdin=subprocess.PIPE, stdout=subprocess.PIPE,
                                 stderr=subprocess.DEVNULL, env=kv.impl_env(), text=True)
            p.stdin.write(json.dumps({'api': case['api'], 'path': path, 'root': root, 'fkind': case['fkind'],
                                      'ftype': case['ftype'], 'ops': ops}) + '\n')
            p.stdin.flush()
            procs.append((kpt, p, path, root))
        for kpt, p, path, root in procs:
            line = p.stdout.readline().strip()
            if line != 'open':
                session['error'] = f'writer k={kpt}: {line or "died before opening the archive"}'
                continue
            ok = True
            for i in range(kpt):
                p.stdin.write('go\n')
                p.stdin.flush()
                line = p.stdout.readline().strip()
                if line != f'done {i + 1}':
                    session['error'] = f'writer k={kpt}: append {i + 1}: {line or "died"}'
                    ok = False
                    break
            if not ok:
                continue
            session['obs'].append([kpt, 'alive', _reader_view(case, K, path, root)])
            p.send_signal(signal.SIGKILL)
            p.wait()
            session['obs'].append([kpt, 'killed', _reader_view(case, K, path, root)])
        return {'sessions': [session], 'norm': _norm_table([session])}
    finally:
        for _, p, _, _ in procs:
            if p.poll() is None:
                p.kill()
                p.wait()
            for s in (p.stdin, p.stdout):
                try:
                    s.close()
                except Exception:
                    pass
        shutil.rmtree(where, ignore_errors=True)


def run_impl(case, ctx):
    if case['kind'] == 'dataset':
        return _run_dataset(case, ctx)
    if case['mode'] == 'kill':
        return _run_kill(case, ctx)
    return _run_inproc(case, ctx)


# ---------------------------------------------------------------------------------------- oracle
def _truth(case, st, K):
    """Latest bytes per feature file of a store (writes then appends), by the harness's own notion of path identity."""
    d = {}
    for w in st['writes']:
        d[_same_file(_fname(K, st['fkind'], w['key']))] = bytes.fromhex(w['hex'])
    for new, target, _ in st.get('links', []):          # a link reads as the file it was made from
        d[_same_file(_fname(K, st['fkind'], new))] = d[_same_file(_fname(K, st['fkind'], target))]
    for w in st['appends']:
        d[_same_file(_fname(K, st['fkind'], w['key']))] = bytes.fromhex(w['hex'])
    return d


def _known(case):
    """The image set the listing is restricted to: records_camera, an explicit set, or None = no restriction."""
    if case['use_known']:
        return set(case['images'])
    dk = case.get('direct_known')
    return None if dk is None else set(dk)


def _oracle_dataset(case, obs):
    K = _kinds()
    if obs.get('append_error'):
        return 'appending to the packed store through the API failed: ' + obs['append_error'].split(':')[0]
    for side in ('packed', 'dir'):
        if 'load_error' in obs[side]:
            return f'{side} dataset does not load: ' + obs[side]['load_error'].split(':')[0]
    for st, op, od in zip(case['stores'], obs['packed']['stores'], obs['dir']['stores']):
        pure = (st['tar'] is None) or (case['handlers'] and not st['stale'])
        if not pure:
            continue
        kind = st['fkind']
        if op['error'] or od['error']:
            return f'listing the {kind} of a store failed: ' + str(op['error'] or od['error']).split(':')[0]
        truth = _truth(case, st, K)
        known = _known(case)
        exp = []
        seen = set()
        for key in [w['key'] for w in st['writes']] + [l[0] for l in st.get('links', [])] + [w['key'] for w in st['appends']]:
            tk = json.dumps(key)
            if tk in seen:
                continue
            seen.add(tk)
            if known is not None and not (set(key) <= known if kind == 'Matches' else key in known):
                continue
            if kind == 'Matches' and case.get('pairsfile') is not None:
                # the file denotes a set of unordered pairs; a stored pair is loaded iff it is in (smaller, larger) name
                # order and belongs to that set
                if not (key[0] <= key[1] and any({q, m} == set(key) for q, m, _ in case['pairsfile'])):
                    continue
            exp.append(key)
        exp = sorted(exp)
        if op['listing'] != od['listing']:
            return f'packed {kind} store lists other images than its directory twin'
        if op['listing'] != exp:
            return f'{kind} store does not list exactly the images that have a feature file'
        for (key, dtype, dsize), rp, rd in zip(st['reads'], op['reads'], od['reads']):
            b = truth.get(_same_file(_fname(K, kind, key)))
            own = (dtype == st['dtype'] and dsize == st['dsize'])
            if b is None:
                if rp != ['missing'] or rd != ['missing']:
                    return f'reading a {kind} file that does not exist did not fail as "missing"'
                continue
            if len(b) % DTYPES[dtype] != 0:
                continue            # not the dump of an array of that dtype: outside the property
            if rp != rd:
                return f'{kind} array read through the archive differs from the directory twin'
            if own and rp != ['arr', len(b) // (DTYPES[dtype] * dsize), b.hex()]:
                return f'{kind} array read back is not the latest version written under its name'
    return None


def _oracle_append(case, obs):
    for s in obs['sessions']:
        if s['error']:
            return ('writer process failed or died before completing its appends' if case['mode'] == 'kill'
                    else 'appending through the API raised ' + s['error'].split(':')[0])
    hist = obs.get('history')
    if hist:
        # the whole history: whatever happened to the writers (closed, left un-closed, reclaimed later), a reader sees the
        # archive as it was before the first writer plus every append completed so far, latest version per name
        base = [(n, list(pay.items())[0]) for n, _, pay in (hist['base'] or [])]
        for done, seen in hist['obs']:
            evs = hist['events'][:done]
            apps = [(e[2], ('b', e[3])) for e in evs if e[0] == 'append']
            if hist['base'] is None and not apps:
                continue
            how = 'right after an un-closed earlier writer was reclaimed' if evs and evs[-1][0] == 'drop' else 'several writer sessions'
            if not seen['open']:
                return f'reader cannot open the archive after completed appends ({how})'
            if dict((n, hx) for n, hx in seen['items']) != _resolve(base + apps):
                return f'a completed append is no longer visible / no longer the latest version under its name ({how})'
    for s in obs['sessions']:
        base = [(n, list(pay.items())[0]) for n, _, pay in (s['base'] or [])]
        for k, ending, seen in s['obs']:
            exp = _resolve(base + [(n, ('b', hx)) for n, hx in s['ops'][:k]])
            if s['base'] is None and k == 0:
                continue                     # nothing was promised before the first append of a new archive
            if not seen['open']:
                return f'reader cannot open the archive after completed appends (writer {ending})'
            got = {}
            for n, hx in seen['items']:
                if n in got:
                    return 'reader index lists a name twice'
                got[n] = hx
            if got != exp:
                return f'reader does not see exactly the first k completed appends, latest version per name (writer {ending})'
        for k, keys in s['windex']:
            exp = set(_resolve(base + [(n, ('b', hx)) for n, hx in s['ops'][:k]]))
            if set(keys) != exp:
                return "the appending handler's own index differs from the archive content"
    return None


def oracle(case, obs):
    if case['kind'] == 'dataset':
        return _oracle_dataset(case, obs)
    return _oracle_append(case, obs)


# ---------------------------------------------------------------------------------------- Coq encoding
def _cb(b):
    return kv.cstr(b if isinstance(b, bytes) else bytes.fromhex(b))


def _clog(items):
    return kv.clist(kv.cpair(kv.cstr(n), _cb(b)) for n, b in items)


def _chdr(h):
    return '{| h_mtime := %s; h_mode := %s; h_uid := %s; h_pax := %s |}' % (
        kv.cz(h['mtime']), kv.cn(h['mode']), kv.cn(h['uid']),
        kv.clist(kv.cpair(kv.cstr(k), kv.cstr(v)) for k, v in sorted(h['pax'].items())))


def _cpay(pay):
    """pay: {'b': hex} | {'h': linkname} | {'s': target path}"""
    if 'b' in pay:
        return '(PBytes %s)' % _cb(pay['b'])
    return '(PHard %s)' % kv.cstr(pay['h']) if 'h' in pay else '(PSym %s)' % kv.cstr(pay['s'])


def _cmembers(items):
    return kv.clist(kv.cpair(kv.cstr(n), _chdr(h), _cpay(pay)) for n, h, pay in items)


def _crd(r):
    if r[0] == 'arr':
        return f'(RArr {kv.cn(r[1])} {_cb(r[2])})'
    return {'missing': 'RMissing', 'bad': 'RBad'}.get(r[0], 'ROther')


def _encode_store(case, st, o, K, norm, packed, phys=None):
    kind = st['fkind']
    files, tar, appends = {}, None, []
    if packed and st['tar'] is not None:
        tar = phys                       # what plain tarfile finds in the archive the harness built
        for s in st['stale']:
            files[_same_file(_fname(K, kind, s['key']))] = bytes.fromhex(s['hex'])
        appends = [(_fname(K, kind, a['key']), bytes.fromhex(a['hex'])) for a in st['appends']]
    elif st['tar'] is None:
        for w in st['writes']:
            files[_same_file(_fname(K, kind, w['key']))] = bytes.fromhex(w['hex'])
    else:
        files = _truth(case, st, K)      # the directory twin: a hard / symbolic link is just another path with content
    handlers = case['handlers'] if packed else True
    kn = _known(case)
    known = 'None' if kn is None else kv.copt(kv.clist(kv.cstr(i) for i in (case['images'] if case['use_known'] else case['direct_known'])))
    if o['error'] or o['listing'] is None:
        images, pairs = kv.clist([kv.cstr('<listing failed>')]), kv.clist([kv.cpair(kv.cstr('<listing failed>'), kv.cstr(''))])
    elif kind == 'Matches':
        images, pairs = '[]', kv.clist(kv.cpair(kv.cstr(a), kv.cstr(b)) for a, b in o['listing'])
    else:
        images, pairs = kv.clist(kv.cstr(i) for i in o['listing']), '[]'
    reads = kv.clist(kv.cpair(kv.cstr(_fname(K, kind, key)), kv.cn(DTYPES[dt]), kv.cn(ds)) for key, dt, ds in st['reads'])
    pfile = 'None'
    if kind == 'Matches' and case.get('pairsfile') is not None:
        pfile = kv.copt(kv.clist(kv.cpair(kv.cstr(q), kv.cstr(m)) for q, m, _ in case['pairsfile']))
    return ('CStore {| sc_norm := %s; sc_kind := %s; sc_files := %s; sc_tar := %s; sc_appends := %s; sc_handlers := %s; '
            'sc_known := %s; sc_pairsfile := %s; sc_reads := %s; so_images := %s; so_pairs := %s; so_reads := %s |}' % (
                norm, kv.cstr(kind), _clog(files.items()), kv.copt(_cmembers(tar)) if tar is not None else 'None',
                _clog(appends), kv.cbool(handlers), known, pfile, reads, images, pairs, kv.clist(_crd(r) for r in o['reads'])))


def _copened(seen):
    if not seen['open']:
        return 'OpenFails'
    return '(Opened %s)' % _clog(seen['items'])


def encode(case, obs):
    norm = kv.clist(kv.cpair(kv.cstr(a), kv.cstr(b)) for a, b in obs['norm'])
    out = []
    if case['kind'] == 'dataset':
        K = _kinds()
        for side in ('packed', 'dir'):
            if 'load_error' in obs[side] or obs.get('append_error'):
                return '[CStore {| sc_norm := []; sc_kind := "load failed"%string; sc_files := []; sc_tar := None; sc_appends := []; ' \
                       'sc_handlers := true; sc_known := None; sc_pairsfile := None; sc_reads := []; so_images := ["x"%string]; so_pairs := []; so_reads := [] |}]'
        for st, op, od in zip(case['stores'], obs['packed']['stores'], obs['dir']['stores']):
            out.append(_encode_store(case, st, op, K, norm, True, obs['phys'][case['stores'].index(st)]))
            if st['tar'] is not None:
                out.append(_encode_store(case, st, od, K, norm, False))
        return kv.clist(out)
    E = {'alive': 'EAlive', 'killed': 'EKilled', 'closed': 'EClosed'}
    for s in obs['sessions']:
        if s['error']:
            out.append('CAppend {| ac_norm := []; ac_base := None; ac_ops := []; ac_obs := [(1%nat, EKilled, OpenFails)]; ac_windex := [] |}')
            continue
        out.append('CAppend {| ac_norm := %s; ac_base := %s; ac_ops := %s; ac_obs := %s; ac_windex := %s |}' % (
            norm, 'None' if s['base'] is None else kv.copt(_cmembers(s['base'])), _clog(s['ops']),
            kv.clist(kv.cpair(kv.cnat(k), E[e], _copened(seen)) for k, e, seen in s['obs']),
            kv.clist(kv.cpair(kv.cnat(k), kv.clist(kv.cstr(x) for x in keys)) for k, keys in s['windex'])))
    hist = obs.get('history')
    if hist and not any(s['error'] for s in obs['sessions']):
        def cev(e):
            if e[0] == 'append':
                return '(HAppend %s %s %s)' % (kv.cnat(e[1]), kv.cstr(e[2]), _cb(e[3]))
            return '(%s %s)' % ({'open': 'HOpen', 'close': 'HClose', 'drop': 'HDrop'}[e[0]], kv.cnat(e[1]))
        out.append('CHistory {| hc_norm := %s; hc_base := %s; hc_events := %s; hc_obs := %s |}' % (
            norm, 'None' if hist['base'] is None else kv.copt(_cmembers(hist['base'])), kv.clist(cev(e) for e in hist['events']),
            kv.clist(kv.cpair(kv.cnat(d), _copened(seen)) for d, seen in hist['obs'])))
    return kv.clist(out)


# ---------------------------------------------------------------------------------------- evidence helpers
def nontrivial(case, obs):
    if case['kind'] == 'dataset':
        return any(st['tar'] and st['tar']['members'] for st in case['stores'])
    return len(case['ops']) >= 1


def classify(case, obs):
    if case['kind'] == 'dataset':
        tars = sum(1 for st in case['stores'] if st['tar'])
        dups = any(st['tar'] and len([m for m in st['tar']['members'] if m[0] >= 0]) >
                   len({json.dumps(st['writes'][m[0]]['key']) for m in st['tar']['members'] if m[0] >= 0}) for st in case['stores'])
        if case['use_known']:
            how = 'records=%s' % (len(case['images']) if len(case['images']) < 2 else 'n')
        else:
            dk = case.get('direct_known')
            how = 'set=%s' % ('None' if dk is None else 'empty' if not dk else 'one' if len(dk) == 1 else 'some')
        flags = [f for f, on in (('overwrites', dups), ('appends', any(st['appends'] for st in case['stores'])),
                                 ('stale', any(st['stale'] for st in case['stores'])),
                                 ('links', any(st.get('links') for st in case['stores'])),
                                 ('pairsfile', case.get('pairsfile') is not None),
                                 ('malformed', any(st['malformed'] for st in case['stores']))) if on]
        return 'dataset/stores=%d/tars=%d/%s/%s%s' % (
            len(case['stores']), tars, 'handlers' if case['handlers'] else 'nohandlers', how,
            ''.join('/' + f for f in flags))
    names = [json.dumps(o[0]) for o in case['ops']]
    return 'append/%s/%s/base=%s%s%s' % (
        case['mode'], case['api'], 'none' if case['base'] is None else ('empty' if not case['base']['members'] else 'members'),
        '/repeats' if len(set(names)) < len(names) else '',
        ('/%dsessions' % len(case['sessions']) if len(case['sessions']) > 1 else '') +
        ('/abandoned' if 'abandon' in (case.get('ends') or [])[:-1] else '') +
        ('/reclaimed-later' if any(d[1] == 's' or d[2] > d[0] for d in case.get('drops', [])) else '') +
        ('/reopen-refused' if (obs or {}).get('stopped') else ''))


def describe(case, obs):
    if case['kind'] == 'dataset':
        return {'kind': 'dataset', 'images': case['images'], 'handlers': case['handlers'], 'use_known': case['use_known'],
                'direct_known': case.get('direct_known'), 'pairsfile': case.get('pairsfile'),
                'stores': [{'kind': st['fkind'], 'type': st['ftype'], 'dtype': st['dtype'], 'dsize': st['dsize'],
                            'writes': [w['key'] for w in st['writes']], 'tar': st['tar'] and {k: v for k, v in st['tar'].items() if k != 'members'},
                            'appends': [a['key'] for a in st['appends']], 'stale': [s['key'] for s in st['stale']],
                            'links': st.get('links', [])}
                           for st in case['stores']],
                'observed_packed': [{'listing': o['listing'], 'reads': [r[:2] for r in o['reads']]}
                                    for o in obs.get('packed', {}).get('stores', [])][:2]}
    return {'kind': 'append', 'mode': case['mode'], 'api': case['api'], 'feature': case['fkind'], 'base': case['base'] and len(case['base']['members']),
            'ops': [o[0] for o in case['ops']], 'sessions': case['sessions'], 'ends': case.get('ends'), 'drops': case.get('drops'),
            'observed': [[k, e, (sorted(n for n, _ in seen['items']) if seen['open'] else seen.get('exc'))]
                         for s in obs.get('sessions', []) for k, e, seen in s['obs']][:8]}


def _drop_write(st, i):
    st = json.loads(json.dumps(st))
    del st['writes'][i]
    if st['tar']:
        st['tar']['members'] = [[m[0] - (m[0] > i)] + m[1:] for m in st['tar']['members'] if m[0] != i]
    return st


def _drop_link(st, j):
    st = json.loads(json.dumps(st))
    del st['links'][j]
    st['tar']['members'] = [[m[0] + (m[0] < -(j + 1))] + m[1:] for m in st['tar']['members'] if m[0] != -(j + 1)]
    st['reads'] = [r for r in st['reads'] if r[0] in [w['key'] for w in st['writes'] + st['appends'] + st['stale']] + [l[0] for l in st['links']]]
    return st


def shrink(case):
    if case['kind'] == 'dataset':
        if len(case['stores']) > 1:
            for i in range(len(case['stores'])):
                c = dict(case)
                c['stores'] = case['stores'][:i] + case['stores'][i + 1:]
                yield c
        for i in range(len(case.get('pairsfile') or [])):
            c = dict(case)
            c['pairsfile'] = case['pairsfile'][:i] + case['pairsfile'][i + 1:]
            yield c
        for si, st in enumerate(case['stores']):
            for field in ('appends', 'stale', 'reads'):
                for i in range(len(st[field])):
                    s2 = dict(st)
                    s2[field] = st[field][:i] + st[field][i + 1:]
                    c = dict(case)
                    c['stores'] = case['stores'][:si] + [s2] + case['stores'][si + 1:]
                    yield c
            for j in range(len(st.get('links', []))):
                c = dict(case)
                c['stores'] = case['stores'][:si] + [_drop_link(st, j)] + case['stores'][si + 1:]
                yield c
            for i in range(len(st['writes'])):
                key = st['writes'][i]['key']
                if any(l[1] == key for l in st.get('links', [])) and sum(1 for w in st['writes'] if w['key'] == key) == 1:
                    continue          # the only version of a link's target
                c = dict(case)
                c['stores'] = case['stores'][:si] + [_drop_write(st, i)] + case['stores'][si + 1:]
                yield c
        if len(case['images']) > 1:
            for i in range(len(case['images'])):
                im = case['images'][i]
                if any(im == w['key'] or (isinstance(w['key'], list) and im in w['key'])
                       for st in case['stores'] for w in st['writes'] + st['appends'] + st['stale']):
                    continue
                c = dict(case)
                c['images'] = case['images'][:i] + case['images'][i + 1:]
                yield c
    else:
        if len(case['sessions']) > 1:
            # drop one append but keep the sessions, how they end and when abandoned handles are reclaimed
            start = 0
            for j, n in enumerate(case['sessions']):
                for i in range(start, start + n if n > 1 else start):
                    c = dict(case)
                    c['ops'] = case['ops'][:i] + case['ops'][i + 1:]
                    c['sessions'] = case['sessions'][:j] + [n - 1] + case['sessions'][j + 1:]
                    c['drops'] = [[d[0], 's', j, d[3] - 1] if d[1] == 's' and d[2] == j and d[3] > i - start else list(d)
                                  for d in case.get('drops', [])]
                    yield c
                start += n
            for i in range(len(case.get('drops', []))):
                c = dict(case)
                c['drops'] = case['drops'][:i] + case['drops'][i + 1:]
                yield c
        if len(case['ops']) > 1:
            for i in range(len(case['ops'])):
                c = dict(case)
                c['ops'] = case['ops'][:i] + case['ops'][i + 1:]
                c['sessions'] = [len(c['ops'])]
                if 'ends' in case:
                    c['ends'], c['drops'] = case['ends'][-1:], []
                yield c
        if case['base'] and case['base']['members'] and not any(isinstance(m[1], dict) for m in case['base']['members']):
            for i in range(len(case['base']['members'])):
                c = dict(case)
                c['base'] = dict(case['base'])
                c['base']['members'] = case['base']['members'][:i] + case['base']['members'][i + 1:]
                yield c
