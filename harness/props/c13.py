"""C13 — COLMAP export then import preserves cameras, poses, features and structure.
Implementation under test: kapture.converter.colmap.export_colmap.export_colmap (database + text reconstruction) followed
by kapture.converter.colmap.import_colmap.import_colmap (database + text reconstruction), and the pair-id arithmetic of
kapture.converter.colmap.database."""
import json
import logging
import math
import os
import shutil
import subprocess
import sys
from fractions import Fraction

sys.path.insert(0, os.path.dirname(os.path.dirname(os.path.abspath(__file__))))   # harness/: this file is also the history worker
import kv  # noqa: E402

ID = 'C13'
COQ_MODELS = ['MQV', 'MPose', 'MRigs', 'MColmap']
COQ_HEADER = ('From KV Require Import Eqb AL Str.\nFrom KV.Model Require Import MQV MPose MRigs MColmap.\n'
              'Local Open Scope string_scope.\nLocal Open Scope list_scope.')
CASE_TYPE = 'MColmap.case'
CHECK_FN = 'MColmap.check_case'
SHARD_SIZE = 4
CASE_TIMEOUT = 120
SEARCH_CAP = 200
RULE = ('a case = one dataset built with the real kapture classes and written by kapture_to_dir: 1..3 cameras of random COLMAP '
        'models (integral image size, parameters from {integers, decimals, tiny, negative, -0.0}) plus optionally an unused camera '
        'and a lidar; 1..7 images whose names are drawn so that the id order (timestamp, sensor) differs from the lexical order '
        '(sub-folders, upper case, non-ASCII, an interior blank, two or three blanks in a row, a tab, two names that differ only by the number of blanks), several images per camera; rigs: none / flat / nested to depth '
        '2..3 / present without any trajectory; trajectories: none / some images unposed / all posed, unit, non-unit and '
        'near-180-degree quaternions, translations to 1e5; one keypoints type with 2, 4 or 6 float32 columns (0..5 rows, half-pixel '
        'values), uint8 descriptors, matches on a random subset of pairs incl. index 2^32-1, 0..14 points with 3 or 6 columns, '
        'observations incl. points with empty tracks and observations in unposed images. A second stream leaves the range on purpose '
        '(UNKNOWN_CAMERA, 3-column keypoints, fractional colours, an image taken by a lidar, a rig chain of depth 11): only the '
        'correspondence is checked there. A third stream are HISTORIES: 2..3 export/import round trips of different (mostly rich) datasets made one '
        'after the other in ONE python process of their own, each import with its own options (database + text / database only / text only, '
        'skip_reconstruction, no_geometric_filtering); fixed patterns light>full, full>text-only, db>full>text, text-skip>db-skip>full plus random '
        'ones; a fourth stream RE-USES the export target (same database path and reconstruction directory, force overwrite) for a rich dataset '
        'followed by one lacking points+observations / trajectories / keypoints / matches / descriptors; '
        'every call is judged by the oracle for its options and compared with the model of that call alone. Every case also feeds 12 random (a, b) with 0 <= a, b < MAX_IMAGE_ID through the real '
        'image_ids_to_pair_id / pair_id_to_image_ids, and gives 2 images.txt FILES (1..4 images each) to the real import_from_colmap_images_txt: one written the way the exporter '
        'writes (single blanks; names with blanks in a row, tabs, \\x1c, a leading #, digits only), judged by the oracle (names / ids / poses read back = written), and one free-form '
        '(runs of blanks, commas and tabs between the fields, blanks before the first field and after the name, commas inside names, header present or not, last empty line missing; '
        '1 in 5: a line with fewer than 9 fields -> must raise), compared with MColmap.parse_images_txt inside Coq. Non-trivial = in-range dataset with at least two images and at least one '
        'of {pose, keypoints, matches, points}; distinct = distinct dataset content.')
TRUSTED = ['sqlite3 and the numpy blobs (float64 / float32 / uint8 / uint32 arrays are modelled as lists of exact numbers)',
           'CPython float printing and parsing in cameras.txt / images.txt / points3D.txt: contract read (show x) = x (Section hypothesis)',
           'the lexing of cameras.txt and points3D.txt (numbers only): fields are modelled as records; images.txt IS modelled at character level (ASCII blanks and commas; '
           'the non-ASCII blanks of Python \\s, U+0085 / U+00A0 / U+2000.., are outside the model and never generated)',
           'get_camera_kapture_id_from_colmap_id is assumed injective (checked on a sample of ids inside Coq)',
           'kapture_to_dir / kapture_from_dir: the dataset export_colmap loads is read by the harness with the same kapture_from_dir and taken as the input',
           'COLMAP num_params per camera model: reference constants in harness/tables/colmap.py',
           'rigs_remove_inplace is Model/MRigs.remove_inplace (property C06 characterises it)']
ASSUMPTIONS = ['a database-only import gives an image without pose the all-zero prior the exporter wrote (COLMAP has no "no prior" but NULL): modelled, not judged',
               'a text-only import cannot name an observation in an image without pose (images.txt lists posed images only): such observations are not judged for text-only calls',
               'matches are stored in lexical order of the two image names (kapture_format.adoc); other layouts are outside the model',
               'poses are full (rotation and translation); partial poses are outside COLMAP\'s range and are not generated',
               'colours of 3-D points are compared only when they are integers (COLMAP stores bytes); an XYZ-only cloud comes back with black points',
               'an image name is any string kapture\'s csv files can hold (no comma, no blank at either end): names with several blanks in a row or tabs are inside the judged range; '
               'the unrepaired importer squeezed them to single blanks',
               'an observation in an image without pose is inside the judged range (the statement lists no such exclusion): the unrepaired importer returns the image name "unknown"']
EXHAUSTIVE = {'quick': False, 'thorough': False}
NOTES = []

KP, DS = 'kpt', 'dsc'
MODELS = [('SIMPLE_PINHOLE', 3), ('PINHOLE', 4), ('SIMPLE_RADIAL', 4), ('RADIAL', 5), ('OPENCV', 8), ('OPENCV_FISHEYE', 8),
          ('FULL_OPENCV', 12), ('FOV', 5), ('SIMPLE_RADIAL_FISHEYE', 4), ('RADIAL_FISHEYE', 5), ('THIN_PRISM_FISHEYE', 12)]
NAME_POOL = ['z/last.jpg', 'a/first.jpg', 'm.jpg', 'B.png', 'b.png', 'a.jpg', 'a/a.jpg', 'cam1/000010.jpg', 'cam1/000002.jpg',
             'cam0/000010.jpg', 'Z.JPG', 'img 01.jpg', 'été.jpg', '0.jpg', '10.jpg', '9.jpg', 'zz/zz/z.jpg', 'a.jpg.png',
             'img  02.jpg', 'two  blanks/b   3.jpg', 'tab\there.jpg', 'a x.jpg', 'a  x.jpg']


# ------------------------------------------------------------------------------------------ generation
def _f32(x):
    import numpy as np
    return float(np.float32(x))


def _quat(rng):
    kind = rng.choice(['unit', 'unit', 'unit', 'axis', 'near_pi', 'scaled', 'identity'])
    if kind == 'identity':
        return [1.0, 0.0, 0.0, 0.0]
    if kind == 'axis':
        q = [0.0, 0.0, 0.0, 0.0]
        q[rng.randrange(4)] = rng.choice([1.0, -1.0])
        return q
    v = [rng.gauss(0, 1) for _ in range(4)]
    if kind == 'near_pi':
        v[0] = rng.choice([1e-9, -1e-9, 1e-12, 0.0])
    n = math.sqrt(sum(c * c for c in v)) or 1.0
    s = rng.choice([0.5, 2.0, 10.0]) if kind == 'scaled' else 1.0
    return [c / n * s for c in v]


def _trans(rng):
    m = rng.choice([1.0, 1.0, 10.0, 1e3, 1e5])
    return [round(rng.uniform(-m, m), rng.choice([0, 2, 6])) for _ in range(3)]


def _param(rng):
    return rng.choice([float(rng.randint(1, 2000)), round(rng.uniform(-1, 1), 4), rng.uniform(100, 1500), 1e-5, -0.0, 0.0,
                       -float(rng.randint(1, 9)), 1e7, 0.1])


def _camera(rng, model=None):
    name, n = rng.choice(MODELS) if model is None else next(m for m in MODELS if m[0] == model)
    return [name, [float(rng.choice([640, 800, 1024, 1920, 1])), float(rng.choice([480, 600, 768, 1080, 1]))]
            + [_param(rng) for _ in range(n)]]


def _gen_dataset(rng, tier, flavour):
    ncam = rng.choice([1, 1, 2, 2, 3])
    cams = [f'cam{i}' if rng.random() < 0.7 else rng.choice(['zcam', 'Acam', 'cam_00001', 'c']) + str(i) for i in range(ncam)]
    rng.shuffle(cams)
    sensors = [[c, 'camera'] + _camera(rng) for c in cams]
    if rng.random() < 0.3:
        sensors.insert(rng.randrange(len(sensors) + 1), ['unused', 'camera'] + _camera(rng))
    if rng.random() < 0.3:
        sensors.insert(rng.randrange(len(sensors) + 1), ['lidar0', 'lidar'])
    nimg = rng.choice([1, 2, 3, 3, 4, 5, 6, 7])
    names = rng.sample(NAME_POOL, nimg)
    # timestamps: several cameras at one timestamp happen often (rigs)
    stamps = sorted(rng.sample([0, 1, 2, 5, 9, 10, 11, 100, 1000000007, 1600000000000000000], rng.randint(1, min(nimg, 5))))
    images, used = [], set()
    for n in names:
        for _ in range(50):
            ts, c = rng.choice(stamps), rng.choice(cams)
            if (ts, c) not in used:
                break
        else:
            ts, c = max(stamps) + len(used) + 1, cams[0]
        used.add((ts, c))
        images.append([ts, c, n])
    # rigs
    rig_kind = rng.choice(['none', 'none', 'flat', 'flat', 'nested', 'no_traj'] if flavour == 'in' else ['none', 'flat'])
    rigs, rig_of = None, {}
    if rig_kind != 'none':
        rigs = []
        members = [c for c in cams if rng.random() < 0.8] or cams[:1]
        if rig_kind == 'nested' or (rig_kind == 'no_traj' and rng.random() < 0.5):
            depth = rng.choice([2, 2, 3])
            chain = [f'rig{i}' for i in range(depth)]            # rig0 is the top
            for a, b in zip(chain, chain[1:]):
                rigs.append([a, b, _quat(rng), _trans(rng)])
            for c in members:
                r = rng.choice(chain)
                rigs.append([r, c, _quat(rng), _trans(rng)])
                rig_of[c] = r
            top = {r: 'rig0' for r in chain}
        else:
            nr = rng.choice([1, 1, 2])
            for c in members:
                r = f'rig{rng.randrange(nr)}'
                rigs.append([r, c, _quat(rng), _trans(rng)])
                rig_of[c] = r
            top = {r: r for r in set(rig_of.values())}
        if rng.random() < 0.3:
            rigs.append([rng.choice(sorted(set(rig_of.values()))), 'lidar0', _quat(rng), _trans(rng)])
    # trajectories: each (timestamp, camera) of an image gets its pose from at most one source
    traj = None
    if rig_kind != 'no_traj' and rng.random() < 0.9:
        traj, posed_top = [], set()
        p_pose = rng.choice([0.5, 0.8, 1.0])
        for ts, c, n in images:
            if rng.random() > p_pose:
                continue
            if c in rig_of:
                t = top[rig_of[c]]
                if (ts, t) not in posed_top:
                    posed_top.add((ts, t))
                    traj.append([ts, t, _quat(rng), _trans(rng)])
            else:
                traj.append([ts, c, _quat(rng), _trans(rng)])
        if rng.random() < 0.2:
            traj.append([123456, cams[0], _quat(rng), _trans(rng)])        # a pose without image
        rng.shuffle(traj)
    # features
    kp = desc = matches = None
    with_kp = []
    if rng.random() < 0.85:
        cols = rng.choice([2, 4, 6])
        kp = {'cols': cols, 'files': {}}
        for _, _, n in images:
            if rng.random() < 0.85:
                nr = rng.choice([0, 1, 2, 3, 5])
                kp['files'][n] = [[_f32(rng.choice([rng.uniform(0, 2000), rng.randint(0, 2000) + 0.5, float(rng.randint(0, 2000))]))
                                   for _ in range(cols)] for _ in range(nr)]
                with_kp.append(n)
        if rng.random() < 0.8:
            dcols = rng.choice([1, 4, 8])
            desc = {'cols': dcols, 'files': {n: [[rng.randint(0, 255) for _ in range(dcols)] for _ in range(len(kp['files'][n]))]
                                             for n in kp['files'] if rng.random() < 0.9}}
        if rng.random() < 0.85 and len(names) >= 1:
            matches = []
            pairs = [(a, b) for a in names for b in names if a < b]
            rng.shuffle(pairs)
            for a, b in pairs[:rng.choice([0, 1, 2, 3, 6, 21])]:
                rows = [[float(rng.choice([rng.randint(0, 5), rng.randint(0, 5), rng.randint(0, 100000), 4294967295])),
                         float(rng.randint(0, 5)), round(rng.random(), 3)] for _ in range(rng.choice([0, 1, 2, 4]))]
                matches.append([a, b, rows])
    points = obs = None
    if rng.random() < 0.8:
        pc = rng.choice([3, 6, 6])
        npts = rng.choice([0, 1, 2, 3, 5, 11, 14])
        points = [[round(rng.uniform(-100, 100), rng.choice([1, 3, 6])) for _ in range(3)]
                  + ([float(rng.randint(0, 255)) for _ in range(3)] if pc == 6 else []) for _ in range(npts)]
        if with_kp and npts and rng.random() < 0.9:
            obs = []
            for i in range(npts):
                if rng.random() < 0.3:
                    continue                                        # a point with an empty track
                for n in rng.sample(with_kp, rng.randint(1, min(3, len(with_kp)))):
                    obs.append([i, n, rng.randint(0, 7)])
    return {'sensors': sensors, 'rigs': rigs, 'traj': traj, 'images': images, 'kp': kp, 'desc': desc, 'matches': matches,
            'points': points, 'obs': obs, 'in_range': True, 'tag': 'in/' + rig_kind}


def _out_of_range(rng, tier):
    """Datasets that leave COLMAP's range in one way: the oracle does not judge them, the model must still agree."""
    d = _gen_dataset(rng, tier, 'out')
    d['in_range'] = False
    kind = rng.choice(['unknown_camera', 'kp3', 'float_colours', 'lidar_image', 'deep_rig', 'frac_size'])
    d['tag'] = 'out/' + kind
    cams = [s for s in d['sensors'] if s[1] == 'camera' and any(im[1] == s[0] for im in d['images'])]
    if kind == 'unknown_camera':
        s = cams[0]
        s[2], s[3] = 'UNKNOWN_CAMERA', s[3][:2]
    elif kind == 'frac_size':
        cams[0][3][0] += 0.5
    elif kind == 'kp3':
        if d['kp'] is None:
            d['kp'] = {'cols': 3, 'files': {}}
        d['kp']['cols'] = 3
        d['kp']['files'] = {n: [r[:2] + [7.25] for r in rows] if rows else [] for n, rows in d['kp']['files'].items()}
        if not d['kp']['files']:
            d['kp']['files'] = {d['images'][0][2]: [[1.5, 2.5, 7.25]]}
        d['desc'] = None
    elif kind == 'float_colours':
        d['points'] = [[1.0, 2.0, 3.0, 10.75, -3.5, 255.9], [0.5, 0.25, 0.125, 0.0, 1.0, 2.0]]
        d['obs'] = None
    elif kind == 'lidar_image':
        if not any(s[0] == 'lidar0' for s in d['sensors']):
            d['sensors'].append(['lidar0', 'lidar'])
        d['images'][0][1] = 'lidar0'
    elif kind == 'deep_rig':
        depth = rng.choice([10, 11, 12])
        chain = [f'deep{i}' for i in range(depth)]
        c = d['images'][0][1]
        d['rigs'] = [[a, b, _quat(rng), _trans(rng)] for a, b in zip(chain, chain[1:])] + [[chain[-1], c, _quat(rng), _trans(rng)]]
        d['traj'] = [[d['images'][0][0], chain[0], _quat(rng), _trans(rng)]]
    return d


FULL = {'src': 'both', 'skip': False, 'nogeom': False}
PATTERNS = [
    [{'src': 'both', 'skip': True, 'nogeom': False}, FULL],                                   # light import, then a full one
    [FULL, {'src': 'txt', 'skip': False, 'nogeom': False}],                                    # database with keypoints, then text only
    [{'src': 'db', 'skip': False, 'nogeom': True}, FULL, {'src': 'txt', 'skip': False, 'nogeom': False}],
    [{'src': 'txt', 'skip': True, 'nogeom': False}, {'src': 'db', 'skip': True, 'nogeom': False},
     {'src': 'both', 'skip': False, 'nogeom': True}],
]


def _rich_dataset(rng, tier):
    """an in-range dataset with poses, keypoints, points and observations (so that every import option has something to lose)"""
    for _ in range(60):
        d = _gen_dataset(rng, tier, 'in')
        if d['traj'] and d['kp'] and d['kp']['files'] and d['points'] and d['obs'] and len(d['images']) >= 2:
            return d
    return d


STRIP = ['points', 'traj', 'kp', 'matches', 'desc']


def _stripped_dataset(rng, tier, what):
    """a rich dataset without one of the parts an earlier export to the same target may have written"""
    d = _rich_dataset(rng, tier)
    if what == 'points':
        d['points'] = d['obs'] = None
    elif what == 'traj':
        d['traj'] = None
    elif what == 'kp':
        d['kp'] = d['desc'] = d['matches'] = d['obs'] = None
    elif what == 'matches':
        d['matches'] = None
    elif what == 'desc':
        d['desc'] = None
    return d


def _shared_history(rng, tier, k):
    """round trips that RE-USE the export target (same database path, same reconstruction directory, force overwrite): the second
    dataset lacks a part the first one had, so anything the exporter leaves behind is imported as if it belonged to it"""
    what = STRIP[k % len(STRIP)]
    steps = [_rich_dataset(rng, tier), _stripped_dataset(rng, tier, what)]
    if rng.random() < 0.3:
        steps.append(_stripped_dataset(rng, tier, rng.choice(STRIP)))
    for d in steps:
        d['opts'] = dict(FULL)
    return {'history': steps, 'shared_target': True, 'in_range': True, 'tag': 'reuse/full>full-without-' + what}


def _history(rng, tier, pattern):
    steps = []
    for o in pattern:
        d = _rich_dataset(rng, tier) if rng.random() < 0.8 else _gen_dataset(rng, tier, 'in')
        d['opts'] = dict(o)
        steps.append(d)
    return {'history': steps, 'in_range': True, 'tag': 'hist/' + '>'.join(
        o['src'] + ('-skip' if o['skip'] else '') for o in pattern)}


def gen_cases(rng, tier):
    n_in, n_out, n_hist, n_reuse = (44, 12, 9, 5) if tier == 'quick' else (500, 90, 80, 40)
    cases = []
    for _ in range(n_in):
        cases.append(_gen_dataset(rng, tier, 'in'))
    for _ in range(n_out):
        cases.append(_out_of_range(rng, tier))
    # histories: 2..3 export/import round trips of different datasets with different import options, one python process each
    for k in range(n_hist):
        if k < 2 * len(PATTERNS) or rng.random() < 0.3:
            pattern = PATTERNS[k % len(PATTERNS)]
        else:
            pattern = [{'src': rng.choice(['both', 'both', 'db', 'txt']), 'skip': rng.random() < 0.3, 'nogeom': rng.random() < 0.5}
                       for _ in range(rng.choice([2, 3]))]
        cases.append(_history(rng, tier, pattern))
    for k in range(n_reuse):
        cases.append(_shared_history(rng, tier, k))
    m = _max_image_id()
    for c in cases:
        c['pairs'] = [[rng.choice([rng.randrange(m), rng.randrange(10), m - 1 - rng.randrange(3)]),
                       rng.choice([rng.randrange(m), rng.randrange(10), m - 1 - rng.randrange(3)])] for _ in range(12)]
        c['txt'] = [_gen_images_txt(rng, 'canon'), _gen_images_txt(rng, rng.choice(['free', 'free', 'free', 'canon', 'short']))]
    return cases


# images.txt files for the lexing model (MColmap.parse_images_txt): names kapture can hold, incl. blanks in a row and tabs
LINE_NAMES = ['a.jpg', 'img 01.jpg', 'a  x.jpg', 'two  blanks/b   3.jpg', 'tab\there.jpg', 'été  1.jpg', 'dir/sub dir/i.png',
              '#hash.jpg', '12', '1.5 2.5', 'a\t \tb.jpg', 'x \x1c y.jpg']
LINE_NAMES_FREE = LINE_NAMES + ['c,d.jpg', 'x , y.jpg', 'e,,f  g.jpg']
LINE_FLOATS = [0.5, -0.5, 1.0, 0.0, -0.0, 1e-05, -2.25, 3.0, 123456.789, 0.1, 1e+22, -7.0, 0.7071067811865476]


def _gen_images_txt(rng, kind):
    """kind: 'canon' = as export_to_colmap_images_txt writes (single blanks), 'free' = any runs of blanks and commas
    between the fields, blanks before the first field and after the name, 'short' = one line has fewer than 9 fields"""
    recs = []
    for _ in range(rng.randint(1, 4)):
        fields = ([str(rng.choice([1, 2, 3, 7, 10, 99, 2147483646]))] + [repr(rng.choice(LINE_FLOATS)) for _ in range(7)]
                  + [str(rng.choice([1, 2, 3, 12, 100000]))])
        name = rng.choice(LINE_NAMES if kind == 'canon' else LINE_NAMES_FREE)
        second = rng.choice(['', '', '1.5 2.5 -1', '1.5 2.5 -1 3.0 4.0 0'])
        recs.append([fields, name, second])
    # distinct ids: images[timestamp, camera] would overwrite
    seen = set()
    recs = [r for r in recs if not (r[0][0] in seen or seen.add(r[0][0]))]
    lines = ['# Image list with two lines of data per image:', '#   IMAGE_ID, QW, QX, QY, QZ, TX, TY, TZ, CAMERA_ID, NAME',
             '#   POINTS2D[] as (X, Y, POINT3D_ID)', '# NB IMAGES : %d' % len(recs)][:rng.choice([4, 4, 0, 1])]
    bad = rng.randrange(len(recs)) if kind == 'short' else None
    for i, (fields, name, second) in enumerate(recs):
        if kind == 'canon':
            line = ' '.join(fields + [name])
        else:
            seps = [rng.choice([' ', ' ', '  ', ', ', ',', '\t', ' , ', ' \t ']) for _ in range(9)]
            fs = fields[:rng.choice([0, 1, 4, 8])] if i == bad else fields
            line = rng.choice(['', '', ' ', '\t', ', ']) + ''.join(f + sp for f, sp in zip(fs, seps))
            line = (line.rstrip(', \t') if i == bad else line + name) + rng.choice(['', '', ' ', '  ', '\t'])
        lines += [line, second]
    if rng.random() < 0.2 and lines and lines[-1] == '':
        lines.pop()                                   # the last image without its (empty) second line
    return {'kind': kind, 'lines': lines, 'recs': [[f, n] for f, n, _ in recs]}


def _max_image_id():
    import kapture.converter.colmap.database as cdb
    return int(cdb.MAX_IMAGE_ID)


# ------------------------------------------------------------------------------------------ running the implementation
def _build(case, kdir):
    import numpy as np
    import kapture
    import kapture.io.csv as kcsv
    import kapture.io.features as kfeat
    k = kapture.Kapture()
    k.sensors = kapture.Sensors()
    for s in case['sensors']:
        if s[1] == 'camera':
            k.sensors[s[0]] = kapture.Camera(s[2], list(s[3]))
        else:
            k.sensors[s[0]] = kapture.Sensor(s[1], [])
    if case['rigs'] is not None:
        k.rigs = kapture.Rigs()
        for r, dev, q, t in case['rigs']:
            k.rigs[r, dev] = kapture.PoseTransform(q, t)
    if case['traj'] is not None:
        k.trajectories = kapture.Trajectories()
        for ts, dev, q, t in case['traj']:
            k.trajectories[ts, dev] = kapture.PoseTransform(q, t)
    k.records_camera = kapture.RecordsCamera()
    for ts, c, n in case['images']:
        k.records_camera[ts, c] = n
    if case['kp'] is not None:
        k.keypoints = {KP: kapture.Keypoints(KP, np.float32, case['kp']['cols'])}
        for n, rows in case['kp']['files'].items():
            arr = np.array(rows, dtype=np.float32).reshape((-1, case['kp']['cols']))
            kfeat.image_keypoints_to_file(kfeat.get_keypoints_fullpath(KP, kdir, n), arr)
            k.keypoints[KP].add(n)
    if case['desc'] is not None:
        k.descriptors = {DS: kapture.Descriptors(DS, np.uint8, case['desc']['cols'], KP, 'L2')}
        for n, rows in case['desc']['files'].items():
            arr = np.array(rows, dtype=np.uint8).reshape((-1, case['desc']['cols']))
            kfeat.image_descriptors_to_file(kfeat.get_descriptors_fullpath(DS, kdir, n), arr)
            k.descriptors[DS].add(n)
    if case['matches'] is not None:
        k.matches = {KP: kapture.Matches()}
        for a, b, rows in case['matches']:
            arr = np.array(rows, dtype=np.float64).reshape((-1, 3))
            kfeat.image_matches_to_file(kfeat.get_matches_fullpath((a, b), KP, kdir), arr)
            k.matches[KP].add(a, b)
    if case['points'] is not None:
        w = len(case['points'][0]) if case['points'] else 6
        k.points3d = kapture.Points3d(np.array(case['points'], dtype=np.float64).reshape((-1, w)))
    if case['obs'] is not None:
        k.observations = kapture.Observations()
        for i, n, j in case['obs']:
            k.observations.add(int(i), KP, n, int(j))
    kcsv.kapture_to_dir(kdir, k)


def _pose(p):
    return {'q': [float(v) for v in p.r_raw], 't': [float(v) for v in p.t_raw]}


def _read_dataset(k, kdir, kp_type, ds_type):
    """A loaded kapture object + its directory -> plain values (dict orders kept)."""
    import kapture
    import kapture.io.features as kfeat
    out = {}
    out['sensors'] = []
    for sid, s in (k.sensors or {}).items():
        if isinstance(s, kapture.Camera):
            out['sensors'].append([sid, 'camera', s.camera_type.name, [float(v) for v in s.camera_params]])
        else:
            out['sensors'].append([sid, 'other'])
    out['rigs'] = None if k.rigs is None else [[r, [[dev, _pose(p)] for dev, p in m.items()]] for r, m in k.rigs.items()]
    out['traj'] = None if k.trajectories is None else [[int(ts), [[dev, _pose(p)] for dev, p in m.items()]]
                                                       for ts, m in k.trajectories.items()]
    out['images'] = [[int(ts), [[c, n] for c, n in m.items()]] for ts, m in (k.records_camera or {}).items()]
    out['kp'] = out['desc'] = out['matches'] = None
    if k.keypoints is not None and kp_type in k.keypoints:
        f = k.keypoints[kp_type]
        out['kp'] = {'cols': int(f.dsize), 'dtype': str(getattr(f.dtype, '__name__', f.dtype)),
                     'files': [[n, kfeat.image_keypoints_from_file(kfeat.get_keypoints_fullpath(kp_type, kdir, n), f.dtype, f.dsize).tolist()]
                               for n in sorted(f)]}
    if k.descriptors is not None and ds_type in k.descriptors:
        f = k.descriptors[ds_type]
        out['desc'] = {'cols': int(f.dsize), 'dtype': str(getattr(f.dtype, '__name__', f.dtype)),
                       'files': [[n, kfeat.image_descriptors_from_file(kfeat.get_descriptors_fullpath(ds_type, kdir, n), f.dtype, f.dsize).tolist()]
                                 for n in sorted(f)]}
    if k.matches is not None and kp_type in k.matches:
        out['matches'] = []
        for a, b in sorted(k.matches[kp_type]):
            arr = kfeat.image_matches_from_file(kfeat.get_matches_fullpath((a, b), kp_type, kdir))
            out['matches'].append([a, b, [[float(r[0]), float(r[1])] for r in arr.tolist()]])
    out['points'] = [] if k.points3d is None else [[float(v) for v in row] for row in k.points3d.as_array().tolist()]
    out['obs'] = []
    if k.observations is not None:
        for i, per_type in k.observations.items():
            if kp_type in per_type:
                out['obs'].append([int(i), [[n, int(j)] for n, j in per_type[kp_type]]])
    return out


def _run_step(ds, opts, base, target=None):
    """one export_colmap + import_colmap of one dataset with the given import options, in this process; [target]: a directory
    that already holds the database and reconstruction of earlier exports and is re-used (force_overwrite_existing=True)"""
    import kapture.io.csv as kcsv
    from kapture.converter.colmap.export_colmap import export_colmap
    from kapture.converter.colmap.import_colmap import import_colmap
    shutil.rmtree(base, ignore_errors=True)
    kdir, cdir, odir = os.path.join(base, 'kapture'), target or os.path.join(base, 'colmap'), os.path.join(base, 'imported')
    os.makedirs(kdir)
    os.makedirs(cdir, exist_ok=True)
    try:
        _build(ds, kdir)
        loaded = _read_dataset(kcsv.kapture_from_dir(kdir), kdir, KP, DS)
        obs = {'loaded': loaded, 'opts': dict(opts), 'class': 'ok', 'exc': None, 'result': None}
        db, rec = os.path.join(cdir, 'colmap.db'), os.path.join(cdir, 'reconstruction')
        try:
            export_colmap(kdir, db, rec, None, None, None, True)
        except Exception as e:       # an outcome of the implementation, reported as such
            obs['class'], obs['exc'] = 'export_raises', f'{type(e).__name__}: {e}'[:300]
        if obs['class'] == 'ok':
            try:
                k2 = import_colmap(odir, db if opts['src'] != 'txt' else None, rec if opts['src'] != 'db' else None, None, None,
                                   KP, DS, bool(opts['nogeom']), bool(opts['skip']), True)
                r = _read_dataset(k2, odir, KP, DS)
                # by image name
                by_name = []
                for ts, m in r['images']:
                    for c, n in m:
                        cam = next((s for s in r['sensors'] if s[0] == c), None)
                        pose = None
                        for ts2, m2 in (r['traj'] or []):
                            if ts2 == ts:
                                for dev, p in m2:
                                    if dev == c:
                                        pose = p
                        by_name.append({'name': n, 'camera': cam[1:] if cam else None, 'pose': pose})
                obs['result'] = {'images': by_name, 'kp': r['kp'], 'desc': r['desc'], 'matches': r['matches'] or [],
                                 'points': r['points'], 'obs': r['obs']}
            except Exception as e:
                obs['class'], obs['exc'] = 'import_raises', f'{type(e).__name__}: {e}'[:300]
        return obs
    finally:
        shutil.rmtree(base, ignore_errors=True)


def _run_history(steps, base, shared_target=False):
    logging.disable(logging.CRITICAL)
    target = os.path.join(base, 'target') if shared_target else None
    try:
        return [_run_step(ds, ds.get('opts', FULL), os.path.join(base, f's{i}'), target) for i, ds in enumerate(steps)]
    finally:
        logging.disable(logging.NOTSET)
        if target:
            shutil.rmtree(target, ignore_errors=True)


def _read_images_txt(lines, fpath):
    """the real import_from_colmap_images_txt on a file with these lines; what it read, re-printed canonically:
    [[id, qw, qx, qy, qz, tx, ty, tz, camera id], name] per image, or None when it raised"""
    import re
    import kapture
    from kapture.converter.colmap.import_colmap_reconstruction import import_from_colmap_images_txt
    with open(fpath, 'w', encoding='utf-8', newline='\n') as f:
        f.write(''.join(line + '\n' for line in lines))
    try:
        images, trajectories, _ = import_from_colmap_images_txt(fpath)
    except (IndexError, ValueError, KeyError, AssertionError, TypeError) as e:
        return {'raised': type(e).__name__, 'recs': None}
    finally:
        os.remove(fpath)
    recs = []
    for ts, cam, name in kapture.flatten(images):
        pose = trajectories[ts, cam]
        camid = re.search(r'(\d+)$', cam)
        recs.append([[str(int(ts))] + [repr(float(v)) for v in list(pose.r_raw) + list(pose.t_raw)]
                     + [str(int(camid.group(1))) if camid else cam], name])
    return {'raised': None, 'recs': recs}


def run_impl(case, ctx):
    import kapture.converter.colmap.database as cdb
    base = os.path.join(ctx['tmp'], 'c')
    shutil.rmtree(base, ignore_errors=True)
    os.makedirs(base)
    try:
        if 'history' in case:
            # a history is ONE python process of its own: whatever a call leaves behind is seen by the next calls of the
            # history and by nothing else, so a failing history fails again when replayed alone
            fin, fout = os.path.join(base, 'history.json'), os.path.join(base, 'observed.json')
            with open(fin, 'w') as f:
                json.dump({'steps': case['history'], 'shared_target': bool(case.get('shared_target'))}, f)
            p = subprocess.run([kv.PY, '-B', os.path.abspath(__file__), fin, fout, os.path.join(base, 'w')], env=kv.impl_env(),
                               stdout=subprocess.PIPE, stderr=subprocess.STDOUT, text=True, timeout=CASE_TIMEOUT - 10)
            if p.returncode != 0 or not os.path.exists(fout):
                raise RuntimeError('history worker failed: ' + p.stdout[-600:])
            steps = json.load(open(fout))
        else:
            steps = _run_history([case], os.path.join(base, 'w'))
        obs = {'steps': steps, 'pairs': []}
        for a, b in case.get('pairs', []):
            pid = cdb.image_ids_to_pair_id(a, b)
            x, y = cdb.pair_id_to_image_ids(pid)
            obs['pairs'].append([int(a), int(b), int(pid), int(x), int(y)])
        obs['txt'] = [_read_images_txt(t['lines'], os.path.join(base, 'images.txt')) for t in case.get('txt', [])]
        return obs
    finally:
        shutil.rmtree(base, ignore_errors=True)


# ------------------------------------------------------------------------------------------ the property, stated directly
def _fr(x):
    return Fraction(*float(x).as_integer_ratio())


def _rot(q):
    w, x, y, z = q
    n = w * w + x * x + y * y + z * z
    return [[1 - 2 * (y * y + z * z) / n, 2 * (x * y - z * w) / n, 2 * (x * z + y * w) / n],
            [2 * (x * y + z * w) / n, 1 - 2 * (x * x + z * z) / n, 2 * (y * z - x * w) / n],
            [2 * (x * z - y * w) / n, 2 * (y * z + x * w) / n, 1 - 2 * (x * x + y * y) / n]]


def _compose(a, b):
    """a after b on exact rationals: x -> R(a) (R(b) x + tb) + ta."""
    (qa, ta), (qb, tb) = a, b
    w1, x1, y1, z1 = qa
    w2, x2, y2, z2 = qb
    q = [w1 * w2 - x1 * x2 - y1 * y2 - z1 * z2, w1 * x2 + x1 * w2 + y1 * z2 - z1 * y2,
         w1 * y2 - x1 * z2 + y1 * w2 + z1 * x2, w1 * z2 + x1 * y2 - y1 * x2 + z1 * w2]
    R = _rot(qa)
    t = [sum(R[i][j] * tb[j] for j in range(3)) + ta[i] for i in range(3)]
    return q, t


def _expected_world_poses(loaded):
    """(timestamp, camera) -> pose implied by trajectories and rigs, computed here on exact rationals: the pose of a device
    mounted on a rig is (device from rig) o (rig from world), recursively."""
    if loaded['traj'] is None:
        return {}
    parent = {}
    for r, members in (loaded['rigs'] or []):
        for dev, p in members:
            parent.setdefault(dev, []).append((r, ([_fr(v) for v in p['q']], [_fr(v) for v in p['t']])))
    rig_ids = {r for r, _ in (loaded['rigs'] or [])}
    out = {}
    for ts, m in loaded['traj']:
        direct = {dev: ([_fr(v) for v in p['q']], [_fr(v) for v in p['t']]) for dev, p in m}

        def world(dev, depth=0):
            if dev in direct:
                return direct[dev]
            if depth > 12:
                return None
            for r, g in parent.get(dev, []):
                w = world(r, depth + 1)
                if w is not None:
                    return _compose(g, w)
            return None
        devices = set(parent) | set(direct)
        for dev in devices:
            if dev in rig_ids:
                continue
            w = world(dev)
            if w is not None:
                out[(ts, dev)] = w
    return out


def _same_motion(exp, got, tol=1e-9):
    (qe, te), (qg, tg) = exp, got
    qg = [_fr(v) for v in qg]
    tg = [_fr(v) for v in tg]
    if sum(c * c for c in qg) == 0:
        return False
    Re, Rg = _rot(qe), _rot(qg)
    if any(abs(Re[i][j] - Rg[i][j]) > Fraction(tol) for i in range(3) for j in range(3)):
        return False
    scale = max([Fraction(1)] + [abs(c) for c in te])
    return all(abs(a - b) <= Fraction(tol) * scale for a, b in zip(te, tg))


def _is_int_rows(rows):
    return all(float(v).is_integer() for r in rows for v in r)


def _oracle_step(obs):
    """One export + import, judged on what the import was asked to bring back.  With database + reconstruction and nothing
    skipped this is the whole statement of C13; with the other options, the part of it the given artefacts carry:
      database only : every image, its camera, the pose of posed images, keypoints / descriptors / matches
      text only     : the posed images (images.txt lists no other), their cameras and poses, the x, y of their keypoints when
                      the exporter wrote them (keypoints, points and observations all present), points, observations in posed images
      skip_reconstruction : images, cameras and poses only."""
    o = obs['opts']
    src_kind, skip = o['src'], o['skip']
    where = '' if (src_kind == 'both' and not skip) else f' [import {src_kind}{", skip_reconstruction" if skip else ""}]'
    if obs['class'] != 'ok':
        return f'the round trip of an in-range dataset raised: {obs["class"]} {obs["exc"]}' + where
    src, res = obs['loaded'], obs['result']
    src_images = [(ts, c, n) for ts, m in src['images'] for c, n in m]
    world = _expected_world_poses(src)
    posed = {n for ts, c, n in src_images if (ts, c) in world}
    expected_images = [im for im in src_images if src_kind != 'txt' or im[2] in posed]
    got = {im['name']: im for im in res['images']}
    if sorted(n for _, _, n in expected_images) != sorted(im['name'] for im in res['images']):
        return 'the set of image names changed' + where
    sensors = {s[0]: s for s in src['sensors']}
    for ts, c, n in expected_images:
        cam, g = sensors[c], got[n]
        if g['camera'] is None or g['camera'][0] != 'camera' or g['camera'][1] != cam[2]:
            return 'camera model of an image changed' + where
        if len(g['camera'][2]) != len(cam[3]) or any(a != b for a, b in zip(g['camera'][2], cam[3])):
            return 'camera parameters of an image changed' + where
        exp = world.get((ts, c))
        if exp is None and src_kind == 'db':
            continue          # the database stores an all-zero prior for an image without pose: not judged
        if (exp is None) != (g['pose'] is None):
            return ('an image lost its pose' if g['pose'] is None else 'an image without pose got one') + where
        if exp is not None and not _same_motion(exp, (g['pose']['q'], g['pose']['t'])):
            return ('the pose of an image changed (rig-mounted camera)' if any(c == dev for _, ms in (src['rigs'] or []) for dev, _ in ms)
                    else 'the pose of an image changed') + where
    if skip:
        return None
    if src_kind in ('both', 'db'):
        for part, what in (('kp', 'keypoints'), ('desc', 'descriptors')):
            s = dict((n, rows) for n, rows in (src[part]['files'] if src[part] else []))
            r = dict((n, rows) for n, rows in (res[part]['files'] if res[part] else []))
            if set(s) != set(r):
                return f'the set of images with {what} changed' + where
            for n in s:
                if [list(map(float, row)) for row in s[n]] != [list(map(float, row)) for row in r[n]]:
                    return f'{what} of an image changed' + where
        sm = {(a, b): [[int(x), int(y)] for x, y in rows] for a, b, rows in (src['matches'] or [])}
        rm = {(a, b): [[int(x), int(y)] for x, y in rows] for a, b, rows in res['matches']}
        if set(sm) != set(rm):
            return 'the set of matched image pairs changed' + where
        for p in sm:
            if sm[p] != rm[p]:
                return 'match index pairs of an image pair changed' + (' (columns swapped)' if sm[p] == [[y, x] for x, y in rm[p]] else '') + where
    else:
        # images.txt carries x, y of the keypoints of posed images when keypoints, points and observations are all there
        s = {}
        if src['kp'] is not None and src['points'] and src['obs']:
            s = {n: [[float(v) for v in row[:2]] for row in rows] for n, rows in src['kp']['files'] if n in posed and rows}
        r = dict((n, [[float(v) for v in row] for row in rows]) for n, rows in (res['kp']['files'] if res['kp'] else []))
        if set(s) != set(r):
            return 'the set of images with keypoints changed' + where
        if any(s[n] != r[n] for n in s):
            return 'keypoints of an image changed' + where
    if src_kind == 'db':
        return None
    sp, rp = src['points'], res['points']
    if len(sp) != len(rp):
        return 'the number of 3-D points changed' + where
    # the relation (coordinates, image name, feature index), and the coordinates themselves as a multiset

    def rel(points, observations, keep):
        out = []
        for i, lst in observations:
            if 0 <= i < len(points):
                for n, j in lst:
                    if keep(n):
                        out.append((tuple(points[i][:3]), n, j))
        return sorted(out)
    if sorted(tuple(p[:3]) for p in sp) != sorted(tuple(p[:3]) for p in rp):
        return 'coordinates of 3-D points changed' + where
    if sp and len(sp[0]) == 6 and _is_int_rows([p[3:] for p in sp]):
        if sorted(tuple(p) for p in sp) != sorted(tuple(p) for p in rp):
            return 'colours of 3-D points changed' + where
    if src_kind == 'both':
        a, b = rel(sp, src['obs'], lambda n: True), rel(rp, res['obs'], lambda n: True)
    else:   # without the database an observation in an image without pose cannot be named: only posed images are judged
        a, b = rel(sp, src['obs'], lambda n: n in posed), rel(rp, res['obs'], lambda n: n != 'unknown')
    if a != b:
        if any(n == 'unknown' for _, n, _ in b) and not any(n == 'unknown' for _, n, _ in a):
            return 'observations changed: an observed image came back as "unknown"' + where
        return 'the observation relation (coordinates, image name, feature index) changed' + where
    return None


def oracle(case, obs):
    """export then import gives back, by image name, the same cameras, poses, features, matches, points and observations --
    for every call of a history, whatever was imported before in the same process."""
    # the text the exporter writes for an image is read back with the same image name (any name kapture can hold)
    for t, o in zip(case.get('txt', []), obs.get('txt', [])):
        if t['kind'] == 'canon':
            if o['recs'] is None:
                return 'an images.txt as export writes it is not read back (%s)' % o['raised']
            if sorted(n for _, n in o['recs']) != sorted(n for _, n in t['recs']):
                return 'image names read back from images.txt differ from the names written'
            if sorted(map(tuple, (f for f, _ in o['recs']))) != sorted(map(tuple, (f for f, _ in t['recs']))):
                return 'ids / poses read back from images.txt differ from what was written'
    if not case.get('in_range'):
        return None
    for k, st in enumerate(obs['steps']):
        sig = _oracle_step(st)
        if sig:
            if len(obs['steps']) > 1:
                before = '>'.join(s['opts']['src'] + ('-skip' if s['opts']['skip'] else '') for s in obs['steps'][:k]) or 'nothing'
                return f'{sig} (call {k + 1} of a history{" re-using the export target" if case.get("shared_target") else ""}, after: {before})'
            return sig
    return None


# ------------------------------------------------------------------------------------------ Coq encoding
def _cpose(p):
    q, t = p['q'], p['t']
    return '(mkP (mkQ %s %s %s %s) (mkV %s %s %s))' % tuple(kv.cq(float(v)) for v in list(q) + list(t))


def _crows(rows):
    return kv.clist(kv.clist(kv.cq(float(v)) for v in r) for r in rows)


def _cmap2(entries, ckey, cval):
    return kv.clist(kv.cpair(ckey(k), kv.clist(kv.cpair(kv.cstr(dev), cval(v)) for dev, v in inner)) for k, inner in entries)


def _cfeats(f):
    if f is None:
        return 'None'
    return '(Some (mkF %s %s))' % (kv.cz(f['cols']), kv.clist(kv.cpair(kv.cstr(n), _crows(rows)) for n, rows in f['files']))


def _cmrows(rows):
    return kv.clist(kv.cpair(kv.cz(int(r[0])), kv.cz(int(r[1]))) for r in rows)


def _cdataset(d):
    sensors = kv.clist(kv.cpair(kv.cstr(s[0]), '(Cam %s %s)' % (kv.cstr(s[2]), kv.clist(kv.cq(v) for v in s[3]))
                                if s[1] == 'camera' else 'Other') for s in d['sensors'])
    rigs = 'None' if d['rigs'] is None else '(Some %s)' % _cmap2(d['rigs'], kv.cstr, _cpose)
    traj = 'None' if d['traj'] is None else '(Some %s)' % _cmap2(d['traj'], kv.cz, _cpose)
    images = _cmap2(d['images'], kv.cz, kv.cstr)
    matches = 'None' if d['matches'] is None else '(Some %s)' % kv.clist(
        kv.cpair(kv.cpair(kv.cstr(a), kv.cstr(b)), _cmrows(rows)) for a, b, rows in d['matches'])
    obs = kv.clist(kv.cpair(kv.cz(i), kv.clist(kv.cpair(kv.cstr(n), kv.cz(j)) for n, j in lst)) for i, lst in d['obs'])
    return '(mkD %s %s %s %s %s %s %s %s %s)' % (sensors, rigs, traj, images, _cfeats(d['kp']), _cfeats(d['desc']), matches,
                                                 _crows(d['points']), obs)


def _cstep(st):
    loaded = st['loaded']
    for a, b, rows in (loaded['matches'] or []):
        if not _is_int_rows(rows):
            raise ValueError('non-integral match index: outside the model')
    cls = {'ok': 'OOk', 'export_raises': 'OExportRaises', 'import_raises': 'OImportRaises'}[st['class']]
    if st['result'] is None:
        o = f'(mkO {cls} [] [] [] [])'
    else:
        r = st['result']
        kp = dict((n, rows) for n, rows in (r['kp']['files'] if r['kp'] else []))
        ds = dict((n, rows) for n, rows in (r['desc']['files'] if r['desc'] else []))
        ims = []
        for im in r['images']:
            cam = im['camera']
            model, params = (cam[1], cam[2]) if cam and cam[0] == 'camera' else ('?', [])
            ims.append('(mkOI %s %s %s %s %s %s)' % (
                kv.cstr(im['name']), kv.cstr(model), kv.clist(kv.cq(v) for v in params),
                kv.copt(_cpose(im['pose']) if im['pose'] else None),
                kv.copt(_crows(kp[im['name']]) if im['name'] in kp else None),
                kv.copt(_crows(ds[im['name']]) if im['name'] in ds else None)))
        matches = kv.clist(kv.cpair(kv.cpair(kv.cstr(a), kv.cstr(b)), _cmrows(rows)) for a, b, rows in r['matches'])
        oo = kv.clist(kv.cpair(kv.cz(i), kv.clist(kv.cpair(kv.cstr(n), kv.cz(j)) for n, j in lst)) for i, lst in r['obs'])
        o = '(mkO %s %s %s %s %s)' % (cls, kv.clist(ims), matches, _crows(r['points']), oo)
    op = st['opts']
    opts = '(mkIO %s %s %s)' % ({'both': 'SBoth', 'db': 'SDb', 'txt': 'STxt'}[op['src']], kv.cbool(op['skip']), kv.cbool(op['nogeom']))
    return '(mkStep %s %s %s)' % (_cdataset(loaded), opts, o)


def encode(case, obs):
    pairs = kv.clist(kv.cpair(*(kv.cz(v) for v in t)) for t in obs['pairs'])
    txt = kv.clist(kv.cpair(kv.clist(kv.cstr(line) for line in t['lines']),
                            kv.copt(None if o['recs'] is None else
                                    kv.clist(kv.cpair(kv.clist(kv.cstr(x) for x in f), kv.cstr(n)) for f, n in o['recs'])))
                   for t, o in zip(case.get('txt', []), obs.get('txt', [])))
    return '(mkCase %s %s %s)' % (kv.clist(_cstep(st) for st in obs['steps']), pairs, txt)


# ------------------------------------------------------------------------------------------ evidence helpers
def _datasets(case):
    return case['history'] if 'history' in case else [case]


def nontrivial(case, obs):
    return bool(case.get('in_range')) and all(len(d['images']) >= 2 and any(d[k] for k in ('traj', 'kp', 'matches', 'points'))
                                              for d in _datasets(case))


def classify(case, obs):
    d = _datasets(case)[-1]
    n = len(d['images'])
    txt = '+'.join(t['kind'] + ('!' if o['recs'] is None else '') for t, o in zip(case.get('txt', []), obs.get('txt', [])))
    return '%s/%s/img=%s/%s%s%s%s/txt=%s' % (case.get('tag', '?'), '+'.join(st['class'] for st in obs['steps']),
                                      '1' if n == 1 else ('2-3' if n <= 3 else '4+'),
                                      'T' if d['traj'] else '-', 'K' if d['kp'] else '-',
                                      'M' if d['matches'] else '-', 'P' if d['points'] else '-', txt or '-')


def describe(case, obs):
    out = []
    for d, st in zip(_datasets(case), obs['steps']):
        out.append({'opts': st['opts'], 'images': d['images'], 'rigs': d['rigs'], 'n_traj': len(d['traj'] or []),
                    'kp_cols': d['kp']['cols'] if d['kp'] else None, 'matches': [m[:2] for m in (d['matches'] or [])],
                    'n_points': len(d['points'] or []), 'n_obs': len(d['obs'] or []),
                    'observed': {'class': st['class'], 'exc': st['exc'],
                                 'images': [(im['name'], im['camera'][1] if im['camera'] else None, im['pose'] is not None)
                                            for im in (st['result'] or {}).get('images', [])],
                                 'n_points': len((st['result'] or {}).get('points', []))}})
    return {'tag': case.get('tag'), 'calls': out}


def _shrink_dataset(case):
    def without(**kw):
        c = dict(case)
        c.update(kw)
        return c
    for key in ('desc', 'matches', 'obs', 'points', 'kp', 'traj', 'rigs'):
        if case.get(key) is not None:
            if key == 'points' and case.get('obs'):
                continue
            if key == 'kp' and (case.get('desc') or case.get('obs') or case.get('matches')):
                continue
            yield without(**{key: None})
    if len(case['images']) > 1:
        for ts, c, n in case['images']:
            keep = [im for im in case['images'] if im[2] != n]
            kw = {'images': keep}
            for part in ('kp', 'desc'):
                if case.get(part):
                    kw[part] = dict(case[part], files={k: v for k, v in case[part]['files'].items() if k != n})
            if case.get('matches'):
                kw['matches'] = [m for m in case['matches'] if n not in m[:2]]
            if case.get('obs'):
                kw['obs'] = [o for o in case['obs'] if o[1] != n]
            yield without(**kw)
    for key in ('matches', 'obs', 'traj', 'rigs', 'points'):
        lst = case.get(key)
        if lst and len(lst) > 1:
            if key == 'points' and case.get('obs'):
                continue
            for i in range(len(lst)):
                yield without(**{key: lst[:i] + lst[i + 1:]})
    unused = [s for s in case['sensors'] if not any(im[1] == s[0] for im in case['images'])
              and not any(r[1] == s[0] for r in (case.get('rigs') or []))]
    for s in unused:
        yield without(sensors=[x for x in case['sensors'] if x is not s])


def shrink(case):
    if 'history' not in case:
        yield from _shrink_dataset(case)
        return
    h = case['history']
    if len(h) > 1:
        for i in range(len(h)):
            yield dict(case, history=h[:i] + h[i + 1:])
    for i, d in enumerate(h):
        for k, d2 in enumerate(_shrink_dataset(d)):
            if k >= 12:
                break
            yield dict(case, history=h[:i] + [d2] + h[i + 1:])


TECHNIQUE = ('Coq proof over a Gallina model of export (database + text reconstruction) and import: induction over the image, '
             'match, point and observation lists, Z arithmetic (div/mod) for pair ids, finite camera-model tables regenerated from '
             'the source; differential correspondence of the whole round trip by vm_compute, by image name')
LEVEL_TEXT = ('Theorems in coq/Props/C13.v hold for every dataset inside COLMAP\'s range (boolean in_range: known camera models, '
              'integral image sizes, unique image names, fewer than MAX_IMAGE_ID images, one keypoints type on 2/4/6 columns, matches '
              'in lexical order, observations of existing points in known images, rigs that flatten within max_depth): the round trip '
              'never raises and, by image name, returns the same camera model and parameters, exactly the pose the (rig-flattened) '
              'trajectories hold, the same keypoints and descriptors, the same match rows for every image pair and no other pair, the '
              'same point coordinates and the same observation lists; pair ids decode to (min, max) for all ids below MAX_IMAGE_ID; the '
              'column swap is involutive; the camera-model table is a bijection with parameter counts 2 + COLMAP\'s. The model is tied to '
              'the code by running export_colmap + import_colmap on generated datasets and comparing the re-imported dataset inside Coq, '
              'single round trips as well as histories of 2-3 round trips with different import options made in one process (the model of a '
              'call depends on that call only: C13_history_independent). The text of images.txt is modelled at character level: for every nine clean fields and every '
              'image name kapture can hold (blanks in a row, tabs, commas inside) the line / the file the exporter writes is read back as exactly these fields and this name '
              '(C13_image_line_roundtrip, C13_images_txt_roundtrip, C13_exported_images_txt_parses), compared with the real import_from_colmap_images_txt on generated files.')
LEVEL_NOTE = ('partial: SQLite, numpy blobs, the lexing of cameras.txt / points3D.txt, float printing/parsing (contract read(show x)=x) and the quaternion library are '
              'trusted and only exercised; rig flattening is Model/MRigs.remove_inplace, whose characterisation (world pose = composition '
              'along the rig chain) is property C06; float rounding of the rig composition is compared within 1e-9.')


if __name__ == '__main__':
    # history worker: python c13.py <history.json> <observed.json> <scratch dir>  -- all calls of one history in THIS process
    _job = json.load(open(sys.argv[1]))
    _out = _run_history(_job['steps'], sys.argv[3], _job['shared_target'])
    with open(sys.argv[2], 'w') as _f:
        json.dump(_out, _f)
