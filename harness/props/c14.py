"""C14 — OpenMVG export then import preserves images, poses, intrinsics, structure and matches.
Implementation under test: kapture.converter.openmvg.export_openmvg.export_openmvg followed by
kapture.converter.openmvg.import_openmvg.import_openmvg (real files in scratch directories)."""
import json
import logging
import os
import shutil
import struct
from fractions import Fraction

import kv

ID = 'C14'
COQ_MODELS = ['MQV', 'MPose', 'MOpenmvg']
COQ_HEADER = ('From Coq Require Import QArith.\nFrom KV Require Import Eqb Str.\n'
              'From KV.Model Require Import MQV MPose MOpenmvg.\nImport MOpenmvg.')
CASE_TYPE = 'MOpenmvg.case'
CHECK_FN = 'MOpenmvg.check_case'
SHARD_SIZE = 8
CASE_TIMEOUT = 60
SEARCH_CAP = 150
RULE = ('one case = a kapture dataset built with the real kapture classes (1-6 images in 10 directory layouts, 1-3 cameras of every '
        'kapture model, poses from 9 quaternion families incl. exact and near 180 degree turns, non-unit and integer quaternions, '
        '0-13 points, observations (a third of the tracks see a point 2-3 times in one image), matches in both orientations, keypoints (0, 1 or 2-6 rows of 4-6 float32 columns incl. rounding ties)/descriptors files) + a configuration (flatten, '
        'intrinsics layout v1/v2, image transfer actions); the real export_openmvg then import_openmvg run in scratch '
        'directories; the exported sfm_data / regions (every .feat line) / matches file AND the re-imported dataset (as loaded by '
        'kapture_from_dir, keypoint arrays included) are compared with the Coq model. Non-trivial = at least 2 images and (points or matches); distinct = distinct case JSON.')
TRUSTED = ['numpy-quaternion from_rotation_matrix: Section variable from_matrix with contract  rot (from_matrix M) == M  for '
           'M*M^T == I, det M == 1 (Proofs/POpenmvg.v, Section Roundtrip); sampled on every posed image of every case '
           '(check_case compares rot(observed quaternion) with the exported matrix to 1e-9)',
           'numpy-quaternion as_rotation_matrix and PoseTransform.inverse are modelled by MQV.rot / MPose.inverse over Q (their '
           '1e-14 unit-norm shortcut is inside the 1e-9 tolerance); IEEE rounding is not modelled',
           'printf %10.5f is modelled as round-half-even of the exact value to 5 decimals (MOpenmvg.round5); reading a decimal back as '
           'a double is not modelled (1e-9)',
           'json, numpy savetxt/loadtxt, kapture csv layer (kapture_to_dir / kapture_from_dir) and the file system are exercised, '
           'not modelled; os.path.commonpath/relpath/basename/splitext are modelled on path components / byte strings']
ASSUMPTIONS = ['in range = every image has a pose with a non-zero quaternion, its camera is SIMPLE_PINHOLE / SIMPLE_RADIAL / RADIAL, '
               'or PINHOLE / OPENCV with fx = fy, or FULL_OPENCV with fx = fy and k4 = k5 = k6 = 0, integral width/height; image '
               'names are distinct clean relative paths; with flattening the flattened names are distinct; region file stems '
               '(basename without extension of the exported view) are distinct; observations refer to existing points, images '
               'with keypoints and existing features; keypoints have at least 4 columns (x, y, scale, orientation); an image pair is matched in one orientation only; regions and matches are '
               'exported and imported together with sfm_data',
               'point colours are not representable in sfm_data JSON (only X is written): only coordinates are compared',
               'the keypoints type name changes to the OpenMVG region type name (SIFT_Regions); not judged',
               'the re-imported dataset is observed the way a user reads it: kapture_from_dir on the output directory',
               'rigs are flattened by rigs_remove_inplace before anything else (property C06); the generator produces no rigs']
EXHAUSTIVE = {'quick': False, 'thorough': False}
TOL = Fraction(1, 10 ** 9)

REPRESENTABLE = ('SIMPLE_PINHOLE', 'PINHOLE', 'SIMPLE_RADIAL', 'RADIAL', 'OPENCV', 'FULL_OPENCV')
PARAM_COUNT = {'SIMPLE_PINHOLE': 5, 'PINHOLE': 6, 'SIMPLE_RADIAL': 6, 'RADIAL': 7, 'OPENCV': 10, 'OPENCV_FISHEYE': 10,
               'FULL_OPENCV': 14, 'FOV': 7, 'SIMPLE_RADIAL_FISHEYE': 6, 'RADIAL_FISHEYE': 7, 'THIN_PRISM_FISHEYE': 14,
               'UNKNOWN_CAMERA': 2}


# ------------------------------------------------------------------------------------------ generator
def _gen_names(rng, n, layout):
    exts = rng.choice([['.jpg'], ['.jpg'], ['.png'], ['.jpg', '.png']])

    def fn(i, width=None):
        stem = rng.choice(['%d', '%04d', 'img%d', 'f.%d', 'frame %d'])
        return (stem % i) + rng.choice(exts)
    order = list(range(n))
    rng.shuffle(order)        # names deliberately not in id order
    if layout == 'top':
        return [fn(i) for i in order]
    if layout == 'one_dir':
        d = rng.choice(['cam0', 'seq/left', 'a/b/c', 'my images'])
        return [d + '/' + fn(i) for i in order]
    if layout == 'two_dirs_common':
        p = rng.choice(['a', 'run1/db', 'x'])
        ds = rng.choice([['b', 'c'], ['left', 'right'], ['b', 'b/deep'], ['0', '1', '10']])
        return [p + '/' + ds[k % len(ds)] + '/' + fn(i) for k, i in enumerate(order)]
    if layout == 'two_dirs_nocommon':
        ds = rng.choice([['left', 'right'], ['db', 'query'], ['a', 'b/c']])
        return [ds[k % len(ds)] + '/' + fn(i) for k, i in enumerate(order)]
    if layout == 'same_basename':          # region files collide unless the paths are flattened
        ds = ['left', 'right', 'mid']
        return [ds[i % 3] + '/' + ('%d.jpg' % (i // 3)) for i in order]
    if layout == 'mixed_top_sub':
        return [(fn(i) if k % 2 == 0 else 'sub/' + fn(i)) for k, i in enumerate(order)]
    if layout == 'prefix_trap':            # common string prefix that is not a common directory
        ds = rng.choice([['ab', 'abc'], ['d/ab', 'd/abc'], ['a/bc', 'a/bd']])
        return [ds[k % 2] + '/' + fn(i) for k, i in enumerate(order)]
    if layout == 'order_flip':             # flattening changes the lexical order: '/' < '0' < '_'
        base = ['d/a/b.jpg', 'd/a0.jpg', 'd/a/c.jpg', 'd/a1.jpg', 'd/a/0.jpg', 'd/a00.jpg']
        return [base[i] for i in order]
    if layout == 'weird':
        base = ['r/x.y.jpg', 'r/sub dir/z z.jpg', 'r/été/ça.png', 'r/noext', 'r/UP/Case.JPG', 'r/.hidden.jpg']
        return [base[i] for i in order]
    if layout == 'flat_collision':         # out of range when flattened
        base = ['a/b_1.jpg', 'a_b/1.jpg', 'a/b/1.jpg', 'a/c.jpg', 'a_c.jpg', 'a/b_2.jpg']
        return [base[i] for i in order]
    raise ValueError(layout)


LAYOUTS = ['top', 'one_dir', 'two_dirs_common', 'two_dirs_nocommon', 'same_basename', 'mixed_top_sub', 'prefix_trap',
           'order_flip', 'weird']


def _gen_quat(rng, fam):
    import math
    g = rng.gauss
    if fam == 'unit':
        q = [g(0, 1) for _ in range(4)]
        n = math.sqrt(sum(x * x for x in q)) or 1.0
        return [x / n for x in q]
    if fam == 'scaled':
        q = [g(0, 1) for _ in range(4)]
        s = rng.choice([1e-3, 0.5, 2.0, 37.0, 1e3])
        return [x * s for x in q]
    if fam == 'near_pi':
        v = [g(0, 1) for _ in range(3)]
        n = math.sqrt(sum(x * x for x in v)) or 1.0
        return [rng.choice([0.0, 1e-12, -1e-12, 1e-9, -1e-7, 1e-5, 1e-3])] + [x / n for x in v]
    if fam == 'axis_pi':
        return rng.choice([[0.0, 1.0, 0.0, 0.0], [0.0, 0.0, 1.0, 0.0], [0.0, 0.0, 0.0, -1.0], [0.0, 0.6, 0.8, 0.0],
                           [0.0, 1.0, 1.0, 1.0], [1e-9, 0.0, 0.0, 2.0]])
    if fam == 'identity':
        return rng.choice([[1.0, 0.0, 0.0, 0.0], [-1.0, 0.0, 0.0, 0.0], [5.0, 0.0, 0.0, 0.0]])
    if fam == 'tiny':
        return [1.0, rng.choice([1e-9, -1e-6, 1e-12]), rng.choice([0.0, 1e-8]), rng.choice([0.0, -1e-10])]
    if fam == 'integer':
        return [float(rng.randint(-9, 9)) for _ in range(3)] + [float(rng.randint(1, 9))]
    if fam == 'almost_unit':      # inside the 1e-14 "already normalised" band of the matrix code
        q = [g(0, 1) for _ in range(4)]
        n = math.sqrt(sum(x * x for x in q)) or 1.0
        return [x / n * (1 + rng.choice([1e-16, -2e-16, 3e-15])) for x in q]
    if fam == 'half_turns':
        s = math.sqrt(0.5)
        return rng.choice([[s, s, 0.0, 0.0], [s, 0.0, -s, 0.0], [0.5, 0.5, 0.5, 0.5], [0.5, -0.5, 0.5, -0.5]])
    raise ValueError(fam)


QFAMS = ['unit', 'scaled', 'near_pi', 'axis_pi', 'identity', 'tiny', 'integer', 'almost_unit', 'half_turns']


def _gen_t(rng):
    m = rng.choice([0.0, 1e-3, 1.0, 1.0, 50.0, 1e4])
    if m == 0.0:
        return [0.0, 0.0, 0.0]
    return [rng.gauss(0, 1) * m for _ in range(3)]


def _gen_cam(rng, kind):
    w, h = rng.choice([(640, 480), (1920, 1080), (64, 48), (1, 1), (4000, 3000)])
    f = rng.choice([500.0, 1234.5678, float(max(w, h)) * 1.2, rng.uniform(10, 3000)])
    cx, cy = rng.choice([(w / 2, h / 2), (w / 2 + rng.uniform(-5, 5), h / 2 + rng.uniform(-5, 5)), (0.0, 0.0)])
    k = lambda: rng.choice([0.0, rng.uniform(-0.3, 0.3), rng.uniform(-1e-3, 1e-3)])  # noqa: E731
    nz = lambda: rng.choice([-1, 1]) * rng.uniform(1e-4, 0.3)  # noqa: E731
    if kind == 'SIMPLE_PINHOLE':
        return [kind, [w, h, f, cx, cy]]
    if kind == 'PINHOLE':
        return [kind, [w, h, f, f, cx, cy]]
    if kind == 'PINHOLE_fxfy':                # not representable
        return ['PINHOLE', [w, h, f, f * rng.choice([1.01, 0.5, 1 + 1e-12]), cx, cy]]
    if kind == 'SIMPLE_RADIAL':
        return [kind, [w, h, f, cx, cy, k()]]
    if kind == 'RADIAL':
        return [kind, [w, h, f, cx, cy, k(), k()]]
    if kind == 'OPENCV':
        return [kind, [w, h, f, f, cx, cy, k(), k(), k(), k()]]
    if kind == 'OPENCV_fxfy':
        return ['OPENCV', [w, h, f, f + 1.5, cx, cy, k(), k(), k(), k()]]
    if kind == 'FULL_OPENCV':                 # k3 != 0
        return [kind, [w, h, f, f, cx, cy, k(), k(), k(), k(), nz(), 0.0, 0.0, 0.0]]
    if kind == 'FULL_OPENCV_k3zero':          # comes back as OPENCV: same projection
        return ['FULL_OPENCV', [w, h, f, f, cx, cy, k(), k(), k(), k(), 0.0, 0.0, 0.0, 0.0]]
    if kind == 'FULL_OPENCV_k456':            # not representable
        return ['FULL_OPENCV', [w, h, f, f, cx, cy, k(), k(), k(), k(), k(), nz(), k(), k()]]
    if kind == 'OPENCV_FISHEYE':
        return [kind, [w, h, f, f, cx, cy, k(), k(), k(), k()]]
    if kind == 'RADIAL_FISHEYE':
        return [kind, [w, h, f, cx, cy, k(), k()]]
    if kind == 'SIMPLE_RADIAL_FISHEYE':
        return [kind, [w, h, f, cx, cy, k()]]
    if kind == 'UNKNOWN_CAMERA':
        return [kind, [w, h]]
    if kind == 'FOV':                         # the exporter refuses it
        return [kind, [w, h, f, f, cx, cy, 0.5]]
    if kind == 'fractional_size':             # int() truncates width/height
        return ['SIMPLE_PINHOLE', [w + 0.5, h + 0.25, f, cx, cy]]
    raise ValueError(kind)


CAMS_IN = ['SIMPLE_PINHOLE', 'PINHOLE', 'SIMPLE_RADIAL', 'RADIAL', 'OPENCV', 'FULL_OPENCV', 'FULL_OPENCV_k3zero']
CAMS_OUT = ['PINHOLE_fxfy', 'OPENCV_fxfy', 'FULL_OPENCV_k456', 'OPENCV_FISHEYE', 'RADIAL_FISHEYE', 'SIMPLE_RADIAL_FISHEYE',
            'UNKNOWN_CAMERA', 'fractional_size']


def _f32(x):
    return struct.unpack('f', struct.pack('f', x))[0]


def _gen_kp_row(rng, i, dsize):
    """one keypoint of image number i as float32 values: the integer part of the first column tells the image;
    values include exact ties of the 5-decimal rounding (odd multiples of 1/64), negative and large numbers"""
    def val():
        kind = rng.choice(['tie', 'gauss', 'gauss', 'int', 'small', 'big'])
        if kind == 'tie':
            return rng.choice([-1, 1]) * (2 * rng.randrange(0, 2000) + 1) / 64.0
        if kind == 'int':
            return float(rng.randint(-2000, 4000))
        if kind == 'small':
            return rng.uniform(-1e-4, 1e-4)
        if kind == 'big':
            return rng.uniform(-1, 1) * 1e5
        return rng.gauss(0, 300)
    first = i + rng.choice([0.0, 0.5, 1 / 64.0, 33 / 64.0, rng.uniform(0, 0.9)])
    return [_f32(first)] + [_f32(val()) for _ in range(dsize - 1)]


def _kps_of(case):
    """keypoint rows of every image (cases recorded before the rows were generated: the former fixed pattern)"""
    if 'kps' in case:
        return case['kps'], case.get('kp_dsize', 4)
    return [[[i + 0.5, float(r), 0.0, 0.0] for r in range(case['nkp'][i])] for i in range(len(case['images']))], 4


def _gen_case(rng, stream):
    layout = rng.choice(LAYOUTS)
    if stream == 'collision':
        layout = 'flat_collision'
    n = rng.choice([1, 2, 3, 3, 4, 5, 6])
    names = _gen_names(rng, n, layout)
    while len(set(names)) != n:
        names = _gen_names(rng, n, layout)
    ncam = rng.randint(1, min(3, n))
    cam_ids = rng.sample(['cam0', 'camB', '7', 'left', 'zz'], ncam)
    kinds = [rng.choice(CAMS_IN) for _ in range(ncam)]
    if stream == 'cams_out':
        kinds[rng.randrange(ncam)] = rng.choice(CAMS_OUT)
    if stream == 'refused':
        kinds[rng.randrange(ncam)] = 'FOV'
    cams = [[cid] + _gen_cam(rng, kd) for cid, kd in zip(cam_ids, kinds)]
    if rng.random() < 0.3:    # a camera no image uses: must be skipped by the exporter
        cams.insert(rng.randrange(len(cams) + 1), ['unused'] + _gen_cam(rng, rng.choice(CAMS_IN + ['OPENCV_FISHEYE'])))
    images = []
    ts_pool = rng.sample(range(1, 60), n)
    share_ts = rng.random() < 0.3
    used = set()
    for i, nm in enumerate(names):
        cam = cam_ids[i % ncam] if i < ncam else rng.choice(cam_ids)
        ts = ts_pool[i]
        if share_ts and i > 0 and (images[0]['ts'], cam) not in used:
            ts = images[0]['ts']       # two cameras shooting at the same timestamp
        used.add((ts, cam))
        images.append({'name': nm, 'cam': cam, 'ts': ts, 'q': _gen_quat(rng, rng.choice(QFAMS)), 't': _gen_t(rng)})
    if stream == 'unposed' and n >= 1:
        k = rng.randrange(n)
        if sum(1 for im in images if im['ts'] == images[k]['ts']) == 1:
            images[k]['q'] = None      # whole timestamp absent from the trajectories
            images[k]['t'] = None
    # keypoints: 0, 1 (a one-line .feat file) or several per image; 4 columns (SIFT) or more (only the first four are
    # exported); stream 'kp_narrow': fewer than four columns (not SIFT-like: out of range, the importer refuses)
    sparse = rng.random() < 0.5         # half of the datasets have images with no or a single keypoint
    nkp = [rng.choice([0, 1, 1, 2, 4, 5, 6] if sparse else [2, 3, 4, 5, 6]) for i in range(n)]
    kp_dsize = rng.choice([4, 4, 4, 5, 6])
    if stream == 'kp_narrow':
        kp_dsize = rng.choice([2, 3])
        nkp = [max(1, k) for k in nkp]
    kps = [[_gen_kp_row(rng, i, kp_dsize) for _ in range(nkp[i])] for i in range(n)]
    pts_mode = rng.choice(['none', 'empty', 'few', 'few', 'many'])
    if pts_mode == 'none':
        points = None
    elif pts_mode == 'empty':
        points = []
    else:
        npts = rng.randint(1, 4) if pts_mode == 'few' else rng.randint(11, 13)
        points = [[rng.randint(-10 ** 7, 10 ** 7) / 1024.0 for _ in range(3)] + [float(rng.randint(0, 255)) for _ in range(3)]
                  for _ in range(npts)]
    obs = []
    if points:
        for p in range(len(points)):
            if rng.random() < 0.75:
                for i in rng.sample(range(n), rng.randint(1, n)):
                    if nkp[i] == 0:
                        continue
                    # a point may be observed several times in ONE image (a kapture observation list is a
                    # multiset of (image, feature)): 2-3 distinct features of the same image for ~1/3 of the tracks
                    k = min(nkp[i], rng.choice([1, 1, 2, 3]))
                    for f in rng.sample(range(nkp[i]), k):
                        obs.append([p, i, f])
    matches = []
    if n >= 2:
        pairs = [(a, b) for a in range(n) for b in range(a + 1, n)]
        rng.shuffle(pairs)
        for a, b in pairs[:rng.choice([0, 1, 2, 3, 6])]:
            lo, hi = (a, b) if names[a] < names[b] else (b, a)
            if rng.random() < 0.25:
                lo, hi = hi, lo        # stored against the lexical convention
            npairs = rng.randint(0, 4) if nkp[lo] and nkp[hi] else 0
            matches.append([lo, hi, [[rng.randrange(nkp[lo]), rng.randrange(nkp[hi])] for _ in range(npairs)]])
    cfg = {'flatten': rng.random() < 0.5, 'v2': rng.random() < 0.5,
           'exp_action': rng.choice(['skip', 'skip', 'copy', 'link_absolute', 'link_relative']),
           'imp_action': rng.choice(['skip', 'skip', 'copy', 'link_absolute', 'link_relative']),
           'root': rng.choice(['images', 'img root', 'openmvg_imgs'])}
    if stream == 'collision':
        cfg['flatten'] = True
        matches = matches[:1]          # which of two merged pairs survives depends on set iteration order
    if cfg['exp_action'] == 'skip' and cfg['flatten']:
        cfg['imp_action'] = 'skip'     # nothing was materialised under the flattened names
    return {'stream': stream, 'layout': layout, 'cams': cams, 'images': images, 'nkp': nkp, 'kp_dsize': kp_dsize, 'kps': kps,
            'points': points, 'obs': obs, 'matches': matches, 'cfg': cfg}


def gen_cases(rng, tier):
    n_main, n_side = (100, 8) if tier == 'quick' else (900, 60)
    cases = []
    # a fixed grid first: every layout x flatten, so that each directory shape is always exercised
    for layout in LAYOUTS:
        for flatten in (False, True):
            c = _gen_case(rng, 'main')
            while c['layout'] != layout or len(c['images']) < 2:
                c = _gen_case(rng, 'main')
            c['cfg']['flatten'] = flatten
            if c['cfg']['exp_action'] == 'skip' and flatten:
                c['cfg']['imp_action'] = 'skip'
            cases.append(c)
    for _ in range(n_main - len(cases) if tier == 'quick' else n_main):
        cases.append(_gen_case(rng, 'main'))
    for stream in ('cams_out', 'unposed', 'collision', 'refused', 'kp_narrow'):
        for _ in range(n_side if stream not in ('refused', 'kp_narrow') else max(3, n_side // 3)):
            cases.append(_gen_case(rng, stream))
    return cases


# ------------------------------------------------------------------------------------------ implementation runner
def _build_dataset(case, root):
    import numpy as np
    import kapture
    import kapture.io.csv as kcsv
    from kapture.io.features import (get_keypoints_fullpath, get_descriptors_fullpath, get_matches_fullpath,
                                     image_keypoints_to_file, image_descriptors_to_file, image_matches_to_file)
    from kapture.io.records import get_image_fullpath
    k = kapture.Kapture()
    k.sensors = kapture.Sensors()
    for cid, ctype, params in case['cams']:
        k.sensors[cid] = kapture.Camera(ctype, list(params))
    k.records_camera = kapture.RecordsCamera()
    k.trajectories = kapture.Trajectories()
    kps, dsize = _kps_of(case)
    k.keypoints = {'sift': kapture.Keypoints('SIFT', np.float32, dsize)}
    k.descriptors = {'sift': kapture.Descriptors('SIFT', np.uint8, 128, 'sift', 'L2')}
    for i, im in enumerate(case['images']):
        k.records_camera[(im['ts'], im['cam'])] = im['name']
        if im['q'] is not None:
            k.trajectories[(im['ts'], im['cam'])] = kapture.PoseTransform(r=list(im['q']), t=list(im['t']))
        p = get_image_fullpath(root, im['name'])
        os.makedirs(os.path.dirname(p), exist_ok=True)
        with open(p, 'wb') as f:
            f.write(b'image-bytes-of:' + im['name'].encode('utf-8'))
        nkp = case['nkp'][i]
        k.keypoints['sift'].add(im['name'])
        k.descriptors['sift'].add(im['name'])
        kp = np.array(kps[i], dtype=np.float32).reshape(nkp, dsize)   # integer part of column 0 = image number
        image_keypoints_to_file(get_keypoints_fullpath('sift', root, im['name']), kp)
        image_descriptors_to_file(get_descriptors_fullpath('sift', root, im['name']),
                                  np.full((nkp, 128), i, dtype=np.uint8))
    if case['points'] is not None:
        k.points3d = kapture.Points3d(np.array(case['points'], dtype=np.float64).reshape(-1, 6))
        k.observations = kapture.Observations()
        for p, i, f in case['obs']:
            k.observations.add(p, 'sift', case['images'][i]['name'], f)
    k.matches = {'sift': kapture.Matches()}
    for a, b, pairs in case['matches']:
        na, nb = case['images'][a]['name'], case['images'][b]['name']
        k.matches['sift'].add(na, nb)
        arr = np.array([[x, y, 0.5] for x, y in pairs], dtype=np.float64).reshape(-1, 3)
        image_matches_to_file(get_matches_fullpath((na, nb), 'sift', root), arr)
    kcsv.kapture_to_dir(root, k)


def _read_sfm(mvg):
    """Semantic content of what the exporter wrote (cereal pointer bookkeeping ignored)."""
    import numpy as np
    with open(os.path.join(mvg, 'sfm_data.json')) as f:
        sfm = json.load(f)
    names = {}
    intr = []
    for e in sfm['intrinsics']:
        v = e['value']
        if 'polymorphic_name' in v:
            names[v['polymorphic_id'] & 0x7fffffff] = v['polymorphic_name']
        model = names[v['polymorphic_id'] & 0x7fffffff]
        data = v['ptr_wrapper']['data']
        layout = 'value0' if 'value0' in data else 'flat'
        common = data['value0'] if layout == 'value0' else data
        disto = None
        for key in ('disto_k1', 'disto_k3', 'disto_t2', 'fisheye'):
            if key in data:
                disto = data[key]
        intr.append({'key': e['key'], 'model': model, 'layout': layout, 'width': common['width'], 'height': common['height'],
                     'focal': common['focal_length'], 'pp': common['principal_point'], 'disto': disto or []})
    views = []
    for e in sfm['views']:
        d = e['value']['ptr_wrapper']['data']
        views.append({'key': e['key'], 'id_view': d['id_view'], 'id_intrinsic': d['id_intrinsic'], 'id_pose': d['id_pose'],
                      'local_path': d['local_path'], 'filename': d['filename'], 'width': d['width'], 'height': d['height'],
                      'center': d.get('center'), 'rotation': d.get('rotation')})
    ext = [{'key': e['key'], 'center': e['value']['center'], 'rotation': e['value']['rotation']} for e in sfm['extrinsics']]
    structure = None
    if sfm['structure'] is not None:
        structure = [{'key': e['key'], 'X': e['value']['X'],
                      'obs': [[o['key'], o['value']['id_feat']] for o in e['value']['observations']]}
                     for e in sfm['structure']]
    regions, feats = {}, {}
    rdir = os.path.join(mvg, 'regions')
    if os.path.isdir(rdir):
        for fn in sorted(os.listdir(rdir)):
            if fn.endswith('.feat'):
                with open(os.path.join(rdir, fn)) as f:
                    rows = [[float(x) for x in ln.split()] for ln in f.read().split('\n') if ln.strip()]
                feats[fn[:-5]] = rows
                regions[fn[:-5]] = int(rows[0][0]) if rows else -1
    matches = []
    mfile = os.path.join(mvg, 'matches', 'matches.f.txt')
    if os.path.isfile(mfile):
        lines = open(mfile).read().split('\n')
        p = 0
        while p < len(lines) and lines[p].strip():
            i, j = [int(x) for x in lines[p].split()]
            cnt = int(lines[p + 1])
            matches.append([i, j, [[int(x) for x in lines[p + 2 + r].split()] for r in range(cnt)]])
            p += 2 + cnt
    return {'root_base': os.path.basename(sfm['root_path']), 'intrinsics': intr, 'views': views, 'extrinsics': ext,
            'structure': structure, 'regions': regions, 'feats': feats, 'matches': matches}


def _read_dataset(out):
    import numpy as np
    import kapture
    import kapture.io.csv as kcsv
    from kapture.io.features import (get_keypoints_fullpath, get_matches_fullpath, image_keypoints_from_file,
                                     image_matches_from_file)
    from kapture.io.records import get_image_fullpath
    k = kcsv.kapture_from_dir(out)
    res = {'images': [], 'cams': {}, 'poses': [], 'points': None, 'obs': [], 'kp': {}, 'kprows': {}, 'matches': [], 'files': {},
           'kp_types': sorted(k.keypoints.keys()) if k.keypoints else []}
    for ts, cid, name in kapture.flatten(k.records_camera or {}, is_sorted=True):
        res['images'].append({'ts': ts, 'cam': cid, 'name': name})
        p = get_image_fullpath(out, name)
        try:
            with open(p, 'rb') as f:
                res['files'][name] = f.read().decode('utf-8', 'replace')
        except OSError:
            res['files'][name] = None
    for cid, cam in (k.cameras or {}).items():
        res['cams'][cid] = {'type': cam.camera_type.name, 'params': [float(x) for x in cam.camera_params]}
    for ts, cid, pose in kapture.flatten(k.trajectories or {}, is_sorted=True):
        res['poses'].append({'ts': ts, 'cam': cid, 'q': [float(x) for x in pose.r_raw], 't': [float(x) for x in pose.t_raw]})
    if k.points3d is not None:
        arr = np.asarray(k.points3d)
        res['points'] = [[float(x) for x in row[:3]] for row in arr]
    if k.observations is not None:
        for pidx, kt in k.observations.key_pairs():
            for name, feat in k.observations[pidx, kt]:
                res['obs'].append([int(pidx), name, int(feat)])
        res['obs'].sort()
    if k.keypoints:
        for kt, kps in k.keypoints.items():
            for name in kps:
                arr = image_keypoints_from_file(get_keypoints_fullpath(kt, out, name), kps.dtype, kps.dsize)
                res['kp'][name] = int(arr[0, 0]) if arr.shape[0] else -1
                res['kprows'][name] = [[float(x) for x in row] for row in arr]
    if k.matches:
        for kt, ms in k.matches.items():
            for a, b in ms:
                arr = image_matches_from_file(get_matches_fullpath((a, b), kt, out))
                res['matches'].append([a, b, [[int(r[0]), int(r[1])] for r in arr]])
        res['matches'].sort()
    return res


def run_impl(case, ctx):
    import warnings
    logging.getLogger('openmvg').setLevel(logging.CRITICAL)
    logging.getLogger('kapture').setLevel(logging.CRITICAL)
    warnings.filterwarnings('ignore', message='.*input contained no data.*')
    from kapture.io.records import TransferAction
    from kapture.converter.openmvg.export_openmvg import export_openmvg
    from kapture.converter.openmvg.import_openmvg import import_openmvg
    base = os.path.join(ctx['tmp'], 'c')
    shutil.rmtree(base, ignore_errors=True)
    os.makedirs(base)
    kroot, mvg, out = os.path.join(base, 'k'), os.path.join(base, 'mvg'), os.path.join(base, 'out')
    cfg = case['cfg']
    obs = {'outcome': 'ok', 'exc': None, 'sfm': None, 'out': None}
    try:
        _build_dataset(case, kroot)
        try:
            export_openmvg(kroot, os.path.join(mvg, 'sfm_data.json'), os.path.join(mvg, cfg['root']),
                           os.path.join(mvg, 'regions'), os.path.join(mvg, 'matches', 'matches.f.txt'),
                           TransferAction[cfg['exp_action']], cfg['flatten'], None, None, cfg['v2'], True)
        except Exception as e:
            obs['outcome'], obs['exc'] = 'export:' + type(e).__name__, str(e)[:300]
            return obs
        obs['sfm'] = _read_sfm(mvg)
        try:
            mfile = os.path.join(mvg, 'matches', 'matches.f.txt')     # absent when the dataset has no matches
            import_openmvg(os.path.join(mvg, 'sfm_data.json'), os.path.join(mvg, 'regions'),
                           mfile if os.path.isfile(mfile) else None, out, TransferAction[cfg['imp_action']], True)
        except Exception as e:
            obs['outcome'], obs['exc'] = 'import:' + type(e).__name__, str(e)[:300]
            return obs
        obs['out'] = _read_dataset(out)
        return obs
    finally:
        shutil.rmtree(base, ignore_errors=True)


# ------------------------------------------------------------------------------------------ oracle
def _fr(x):
    return Fraction(*float(x).as_integer_ratio())


def _rot(q):
    w, x, y, z = [_fr(v) for v in q]
    n = w * w + x * x + y * y + z * z
    return [[1 - 2 * (y * y + z * z) / n, 2 * (x * y - z * w) / n, 2 * (x * z + y * w) / n],
            [2 * (x * y + z * w) / n, 1 - 2 * (x * x + z * z) / n, 2 * (y * z - x * w) / n],
            [2 * (x * z - y * w) / n, 2 * (y * z + x * w) / n, 1 - 2 * (x * x + y * y) / n]]


def _canon_cam(ctype, params):
    """(w, h, fx, fy, cx, cy, k1, k2, p1, p2, k3, k4, k5, k6): the FULL_OPENCV projection every representable
    kapture model is a special case of; None when OpenMVG cannot express the camera."""
    p = [_fr(v) for v in params]
    z = Fraction(0)
    if ctype == 'SIMPLE_PINHOLE':
        c = [p[0], p[1], p[2], p[2], p[3], p[4]] + [z] * 8
    elif ctype == 'PINHOLE':
        c = p[:6] + [z] * 8
    elif ctype == 'SIMPLE_RADIAL':
        c = [p[0], p[1], p[2], p[2], p[3], p[4], p[5]] + [z] * 7
    elif ctype == 'RADIAL':
        c = [p[0], p[1], p[2], p[2], p[3], p[4], p[5], p[6]] + [z] * 6
    elif ctype == 'OPENCV':
        c = p[:10] + [z] * 4
    elif ctype == 'FULL_OPENCV':
        c = p[:14]
    else:
        return None
    if c[2] != c[3] or any(v != 0 for v in c[11:14]) or c[0].denominator != 1 or c[1].denominator != 1:
        return None
    return c


def _strip_common_dir(names):
    """names relative to their longest common directory"""
    dirs = [n.split('/')[:-1] for n in names]
    k = 0
    while dirs and all(len(d) > k for d in dirs) and len({d[k] for d in dirs}) == 1:
        k += 1
    return ['/'.join(n.split('/')[k:]) for n in names]


def in_range(case):
    """the quantifier of the property, decided on the input alone"""
    names = [im['name'] for im in case['images']]
    cams = {c[0]: c for c in case['cams']}
    if any(im['q'] is None or not any(im['q']) for im in case['images']):
        return False
    if any(_canon_cam(cams[im['cam']][1], cams[im['cam']][2]) is None for im in case['images']):
        return False
    rel = _strip_common_dir(names)
    if case['cfg']['flatten']:
        rel = [r.replace('/', '_') for r in rel]
    if len(set(rel)) != len(rel):
        return False
    stems = [os.path.splitext(os.path.basename(r))[0] for r in rel]
    if len(set(stems)) != len(stems):
        return False
    kps, _ = _kps_of(case)
    return all(len(row) >= 4 for rows in kps for row in rows)      # SIFT-like: x, y, scale, orientation


def oracle(case, obs):
    """The property, stated on the original dataset and on the re-imported one (independent of the Coq model)."""
    if not in_range(case):
        return None
    if obs['outcome'] != 'ok':
        return f'round trip raised for an in-range dataset: {obs["outcome"]}'
    out = obs['out']
    names = [im['name'] for im in case['images']]
    rel = _strip_common_dir(names)
    if case['cfg']['flatten']:
        rel = [r.replace('/', '_') for r in rel]
    out_names = [im['name'] for im in out['images']]
    out_rel = _strip_common_dir(out_names)
    if sorted(rel) != sorted(out_rel):
        return 'set of images differs (up to the common image-root prefix)'
    new_of = {}                 # original image index -> re-imported image record
    for i, r in enumerate(rel):
        new_of[i] = out['images'][out_rel.index(r)]
    newname = {i: new_of[i]['name'] for i in new_of}
    poses = {(p['ts'], p['cam']): p for p in out['poses']}
    cams = {c[0]: c for c in case['cams']}
    for i, im in enumerate(case['images']):
        rec = new_of[i]
        p = poses.get((rec['ts'], rec['cam']))
        if p is None:
            return 'an image lost its pose'
        if not any(p['q']):
            return 'zero quaternion after the round trip'
        ra, rb = _rot(im['q']), _rot(p['q'])
        if any(abs(ra[r][c] - rb[r][c]) > TOL for r in range(3) for c in range(3)):
            return 'rotation of an image changed by more than 1e-9'
        scale = max([Fraction(1)] + [abs(_fr(v)) for v in im['t']])
        if any(abs(_fr(a) - _fr(b)) > TOL * scale for a, b in zip(im['t'], p['t'])):
            return 'translation of an image changed by more than 1e-9'
        c0 = _canon_cam(cams[im['cam']][1], cams[im['cam']][2])
        oc = out['cams'].get(rec['cam'])
        if oc is None:
            return 'an image lost its camera'
        c1 = _canon_cam(oc['type'], oc['params'])
        if c1 is None or any(abs(a - b) > TOL * max(Fraction(1), abs(a)) for a, b in zip(c0, c1)):
            return f'intrinsics changed for a {cams[im["cam"]][1]} camera'
        if case['cfg']['exp_action'] != 'skip' and case['cfg']['imp_action'] != 'skip':
            if out['files'].get(rec['name']) != 'image-bytes-of:' + im['name']:
                return 'image file content not transferred to the re-imported dataset'
    kps, _ = _kps_of(case)
    for i in range(len(case['images'])):
        # the feature ids of observations and matches denote the same keypoints: same number, same order, the four
        # OpenMVG columns to the 5 decimals of a regions text file
        rows1 = out.get('kprows', {}).get(newname[i])
        if rows1 is None:
            return 'an image lost its keypoints'
        if len(rows1) != len(kps[i]):
            return 'number of keypoints of an image changed'
        for r0, r1 in zip(kps[i], rows1):
            if len(r1) != 4 or any(abs(_fr(a) - _fr(b)) > Fraction(5, 10 ** 6) + TOL * max(Fraction(1), abs(_fr(a)))
                                   for a, b in zip(r0[:4], r1)):
                return 'keypoint values changed by more than the 5 decimals of a regions file'
    pts0 = [p[:3] for p in (case['points'] or [])]
    pts1 = out['points'] or []
    if pts0 != pts1:
        return '3-D points differ: number of points changed' if len(pts0) != len(pts1) else '3-D point coordinates differ'
    obs0 = sorted([p, newname[i], f] for p, i, f in case['obs'])
    if obs0 != out['obs']:
        return 'observations lost after the round trip' if len(out['obs']) < len(obs0) else 'observations differ'
    def rel_of(ms):     # the matching relation, whatever the orientation a pair is stored in
        d = {}
        for a, b, pairs in ms:
            key, pp = ((a, b), pairs) if a < b else ((b, a), [[y, x] for x, y in pairs])
            d[key] = sorted(pp) if key not in d else None
        return d
    m0 = rel_of([[newname[a], newname[b], pairs] for a, b, pairs in case['matches']])
    if any(v is None for v in m0.values()):
        return None             # a pair matched in both orientations: out of range
    m1 = rel_of(out['matches'])
    if m0 != m1:
        return 'matches differ: set of matched image pairs changed' if set(m0) != set(m1) else 'match index pairs differ'
    return None


# ------------------------------------------------------------------------------------------ Coq encoder
def _cpath(name):
    return kv.clist(kv.cstr(c) for c in name.split('/')) if name != '' else '[]'


def _cvec(v):
    return '(mkV %s %s %s)' % tuple(kv.cq(x) for x in v)


def _cmat(m):
    return '(mkM %s)' % ' '.join(kv.cq(x) for row in m for x in row)


def _cquat(q):
    return '(mkQ %s %s %s %s)' % tuple(kv.cq(x) for x in q)


def _ccam(ctype, params):
    return '(mkCam %s %s)' % (ctype, kv.clist(kv.cq(x) for x in params))


_MODEL = {'pinhole': 'Mpinhole', 'pinhole_radial_k1': 'Mradial_k1', 'pinhole_radial_k3': 'Mradial_k3',
          'pinhole_brown_t2': 'Mbrown_t2', 'fisheye': 'Mfisheye'}


def _cprior(center, rotation):
    if center is None:
        return 'None'
    return '(Some (%s, %s))' % (_cvec(center), _cmat(rotation))


def _group(triples):
    """[[p, x, f]] -> [(p, [(x, f)])] in order of first appearance"""
    out, pos = [], {}
    for p, x, f in triples:
        if p not in pos:
            pos[p] = len(out)
            out.append((p, []))
        out[pos[p]][1].append((x, f))
    return out


def _effective_root(case):
    return 'records_data' if case['cfg']['exp_action'] == 'skip' else case['cfg']['root']


def encode_dataset(case):
    imgs = sorted(case['images'], key=lambda im: (im['ts'], im['cam']))      # order of records_camera.txt
    nm = [im['name'] for im in case['images']]
    cams = kv.clist(kv.cpair(kv.cstr(cid), _ccam(ct, ps)) for cid, ct, ps in case['cams'])
    images = kv.clist('(mkImg %s %s %s)' % (kv.cz(im['ts']), kv.cstr(im['cam']), _cpath(im['name'])) for im in imgs)
    poses = kv.clist('((%s, %s), mkP %s %s)' % (kv.cz(im['ts']), kv.cstr(im['cam']), _cquat(im['q']), _cvec(im['t']))
                     for im in imgs if im['q'] is not None)
    points = 'None' if case['points'] is None else '(Some %s)' % kv.clist(_cvec(p[:3]) for p in case['points'])
    obs = kv.clist('(%s, %s)' % (kv.cz(p), kv.clist('(%s, %s)' % (_cpath(nm[i]), kv.cz(f)) for i, f in l))
                   for p, l in _group(case['obs'])) if case['points'] is not None else '[]'
    kp = kv.clist('(%s, %s)' % (_cpath(n), kv.cz(i if case['nkp'][i] else -1)) for i, n in enumerate(nm))   # token
    ms = kv.clist('((%s, %s), %s)' % (_cpath(nm[a]), _cpath(nm[b]), kv.clist('(%s, %s)' % (kv.cz(x), kv.cz(y)) for x, y in pr))
                  for a, b, pr in case['matches'])
    return '(mkData %s %s %s %s %s %s %s)' % (cams, images, poses, points, obs, kp, ms)


def _encode_sfm(s):
    intr = kv.clist('(%s, mkIntr %s %s %s %s %s %s %s %s)' % (
        kv.cz(e['key']), _MODEL[e['model']], 'Value0' if e['layout'] == 'value0' else 'Flat', kv.cz(e['width']),
        kv.cz(e['height']), kv.cq(e['focal']), kv.cq(e['pp'][0]), kv.cq(e['pp'][1]), kv.clist(kv.cq(x) for x in e['disto']))
        for e in s['intrinsics'])
    views = kv.clist('(mkView %s %s %s %s %s %s %s %s %s)' % (
        kv.cz(v['key']), kv.cz(v['id_view']), kv.cz(v['id_intrinsic']), kv.cz(v['id_pose']), _cpath(v['local_path']),
        kv.cstr(v['filename']), kv.cz(v['width']), kv.cz(v['height']), _cprior(v['center'], v['rotation'])) for v in s['views'])
    ext = kv.clist('(%s, (%s, %s))' % (kv.cz(e['key']), _cvec(e['center']), _cmat(e['rotation'])) for e in s['extrinsics'])
    if s['structure'] is None:
        st = 'None'
    else:
        st = '(Some %s)' % kv.clist('(mkLm %s %s %s)' % (
            kv.cz(l['key']), _cvec(l['X']), kv.clist('(%s, %s)' % (kv.cz(v), kv.cz(f)) for v, f in l['obs'])) for l in s['structure'])
    regions = kv.clist('(%s, %s)' % (kv.cstr(k), kv.cz(t)) for k, t in sorted(s['regions'].items()))
    ms = kv.clist('((%s, %s), %s)' % (kv.cz(i), kv.cz(j), kv.clist('(%s, %s)' % (kv.cz(x), kv.cz(y)) for x, y in pr))
                  for i, j, pr in s['matches'])
    return '(mkSfm %s %s %s %s %s %s %s)' % (kv.cstr(s['root_base']), intr, views, ext, st, regions, ms)


def _encode_out(o):
    def cam_key(cid):
        if str(int(cid)) != cid:
            raise ValueError('sensor id is not the decimal form of an intrinsic key: %r' % cid)
        return kv.cz(int(cid))
    cams = kv.clist('(%s, %s)' % (cam_key(cid), _ccam(c['type'], c['params'])) for cid, c in sorted(o['cams'].items()))
    images = kv.clist('((%s, %s), %s)' % (kv.cz(im['ts']), cam_key(im['cam']), _cpath(im['name'])) for im in o['images'])
    poses = kv.clist('((%s, %s), mkP %s %s)' % (kv.cz(p['ts']), cam_key(p['cam']), _cquat(p['q']), _cvec(p['t']))
                     for p in o['poses'])
    points = 'None' if o['points'] is None else '(Some %s)' % kv.clist(_cvec(p) for p in o['points'])
    obs = kv.clist('(%s, %s)' % (kv.cz(p), kv.clist('(%s, %s)' % (_cpath(n), kv.cz(f)) for n, f in l))
                   for p, l in _group(o['obs']))
    kp = kv.clist('(%s, %s)' % (_cpath(n), kv.cz(t)) for n, t in sorted(o['kp'].items()))
    ms = kv.clist('((%s, %s), %s)' % (_cpath(a), _cpath(b), kv.clist('(%s, %s)' % (kv.cz(x), kv.cz(y)) for x, y in pr))
                  for a, b, pr in o['matches'])
    return '(mkK %s %s %s %s %s %s %s)' % (cams, images, poses, points, obs, kp, ms)


def _crows(rows):
    return kv.clist(kv.clist(kv.cq(x) for x in row) for row in rows)


def encode(case, obs):
    kps, _ = _kps_of(case)
    k_feats = kv.clist('(%s, %s)' % (_cpath(im['name']), _crows(kps[i])) for i, im in enumerate(case['images']))
    o_feats = kv.clist('(%s, %s)' % (kv.cstr(k), _crows(r)) for k, r in sorted(((obs['sfm'] or {}).get('feats') or {}).items()))
    o_kps = kv.clist('(%s, %s)' % (_cpath(n), _crows(r)) for n, r in sorted(((obs['out'] or {}).get('kprows') or {}).items()))
    cfg = '(mkCfg %s %s %s)' % (kv.cbool(case['cfg']['flatten']), kv.cbool(case['cfg']['v2']), kv.cstr(_effective_root(case)))
    return '(mkCase %s %s %s %s %s %s %s %s)' % (
        cfg, encode_dataset(case), k_feats, kv.cbool(model_in_range(case)),
        kv.copt(_encode_sfm(obs['sfm']) if obs['sfm'] is not None else None), o_feats,
        kv.copt(_encode_out(obs['out']) if obs['out'] is not None else None), o_kps)


def model_in_range(case):
    """in_range plus the well-formedness clauses the Coq predicate also states (true of every generated case)"""
    names = [im['name'] for im in case['images']]
    seen = set()
    for a, b, _ in case['matches']:
        if a == b or frozenset((a, b)) in seen:
            return False
        seen.add(frozenset((a, b)))
    return in_range(case) and len(set(names)) == len(names)


# ------------------------------------------------------------------------------------------ evidence helpers
def nontrivial(case, obs):
    return len(case['images']) >= 2 and bool(case['points'] or case['matches']) and obs['outcome'] == 'ok'


def classify(case, obs):
    kps, dsize = _kps_of(case)
    fewest = min(len(r) for r in kps) if kps else 0
    return '%s/%s/%s%s/kp%s-d%d/%s' % (case['stream'], case['layout'], 'flat' if case['cfg']['flatten'] else 'tree',
                                        '-v2' if case['cfg']['v2'] else '-v1', 'min0' if fewest == 0 else 'min1' if fewest == 1 else 'min2+',
                                        dsize, obs['outcome'].split(':')[0])


def describe(case, obs):
    return {'images': [im['name'] for im in case['images']], 'cameras': [c[1] for c in case['cams']], 'cfg': case['cfg'],
            'points': None if case['points'] is None else len(case['points']), 'observations': len(case['obs']),
            'matches': len(case['matches']), 'outcome': obs['outcome'],
            'reimported_images': [im['name'] for im in (obs['out'] or {}).get('images', [])]}


def shrink(case):
    n = len(case['images'])
    for k in range(n):
        if n <= 1:
            break
        keep = [i for i in range(n) if i != k]
        ren = {old: new for new, old in enumerate(keep)}
        c = dict(case)
        c['images'] = [case['images'][i] for i in keep]
        c['nkp'] = [case['nkp'][i] for i in keep]
        if 'kps' in case:
            c['kps'] = [case['kps'][i] for i in keep]
        c['obs'] = [[p, ren[i], f] for p, i, f in case['obs'] if i in ren]
        c['matches'] = [[ren[a], ren[b], pr] for a, b, pr in case['matches'] if a in ren and b in ren]
        usedc = {im['cam'] for im in c['images']}
        c['cams'] = [cm for cm in case['cams'] if cm[0] in usedc]
        yield c
    if case['matches']:
        c = dict(case)
        c['matches'] = []
        yield c
    if case['points'] and len(case['points']) > 1:
        c = dict(case)
        c['points'] = case['points'][:1]
        c['obs'] = [o for o in case['obs'] if o[0] == 0]
        yield c
    if len(case['obs']) > 1:
        c = dict(case)
        c['obs'] = case['obs'][:1]
        yield c


TECHNIQUE = ('Coq proof over Q (field identities of MQV/PQV for t = -R(-R^T t), list/association-list inductions for ids, '
             'renaming, structure and matches) about a Gallina model of export and import; differential correspondence of the '
             'exported files and of the re-imported dataset by vm_compute')
LEVEL_TEXT = ('Theorems in coq/Props/C14.v hold for every dataset and configuration satisfying the boolean in_range: the '
              're-imported image list is the original one renamed (shared directory replaced by the image-root name, optionally '
              'flattened), every image keeps its pose as a rotation and translation, its intrinsics as a projection function, '
              'points, observations, keypoints and the matching relation are preserved; for every list of keypoints the regions file '
              'keeps the rows in order to 5e-6 (any number of rows); the result does not depend on the intrinsics layout. The model is tied to the code by running '
              'the real export_openmvg and import_openmvg and comparing both the exported files and the re-imported dataset with '
              'the model inside Coq.')
LEVEL_NOTE = ('partial: JSON, numpy text I/O, the kapture csv layer and the quaternion library are trusted and only exercised '
              '(from_rotation_matrix is a Section variable whose contract is sampled on every pose); IEEE rounding is not '
              'modelled (1e-9 tolerance); rigs, point colours, descriptor file contents and image file transfer are outside the model.')
