"""C15 — OpenSfM export then import preserves shots, poses, cameras, points, matches.
Implementation under test: kapture.converter.opensfm.export_opensfm.export_opensfm followed by
kapture.converter.opensfm.import_opensfm.import_opensfm, on real directories."""
import gzip
import json
import math
import os
import pickle
import shutil

import kv

ID = 'C15'
COQ_MODELS = ['MQV', 'MOpensfm']
COQ_HEADER = ('From KV Require Import Eqb AL Str.\nFrom KV.Model Require Import MQV MOpensfm.\n'
              'Local Open Scope string_scope.')
CASE_TYPE = 'MOpensfm.case'
CHECK_FN = 'MOpensfm.check_case'
SHARD_SIZE = 8
CASE_TIMEOUT = 120
RULE = ('a case = a kapture dataset built with the real kapture classes and written with kapture_to_dir: 1-3 cameras '
        '(SIMPLE_PINHOLE / SIMPLE_RADIAL / RADIAL, landscape, portrait and odd sizes, centred principal point, some unused or '
        'identical), 1-6 images whose names are in nested folders and in non-lexical order with respect to their timestamps, '
        'every image posed (quaternion classes: identity, random unit, non-unit scale 1e-3..1e3, near half turn, exact half '
        'turn, negative w, tiny angle), points3d absent / empty / 1-10 / 11-30 rows, features none / keypoints only / '
        'keypoints+descriptors / descriptors only on a subset of the images (float32, float64, uint8), matches none / pairs in '
        'both orientations incl. empty pairs, scores 1 / in (0,1) / 0 / negative / above 1; keypoints 2-7 columns; timestamps distinct, huge, '
        'shared between cameras, or per-camera frame counters from 0 (synchronised cameras). One case in six is a HISTORY: an earlier '
        'dataset (subset of the images, other poses / points, features extracted anew with other values, dtype or width, other match '
        'pairs) was exported into the same directory first, the dataset under test is exported over it with '
        'force_overwrite_existing False (60%) or True; judged when every features / matches file of the earlier export is written again '
        '(covered history). A second stream is outside the range (leftover files of an earlier export that the new export does not write again, unsupported camera type, unposed image, '
        'rig-mounted camera, XYZ-only cloud, off-centre principal point, non-integral size): there only the outcome class and the '
        'conversion are compared with the model, the oracle does not judge. Non-trivial = in range and (more than 10 points or '
        'features or matches or a non-identity rotation); distinct = distinct case content.')
TRUSTED = ['numpy-quaternion as_rotation_vector / from_rotation_vector: Section variables to_rotvec / of_rotvec; contract '
           '(only on the quaternions of the dataset) rot (of_rotvec (to_rotvec q)) =m= rot q for n2 q <> 0, sampled on every '
           'exported pose to 1e-9 by reading the written rotation vector back with the rational power series of exp(v/2)',
           'json / numpy savez+load / pickle+gzip / kapture CSV and binary feature files / file copy of the images: exercised, '
           'not modelled (the model works on their content)',
           'IEEE rounding of f / max(w,h) * max(w,h) and of the %.10f points file: outside the model, compared within 1e-9 relative']
ASSUMPTIONS = ['known finding, reported as KNOWN-FINDING and not failing the check: points imported in string order of their ids '
               '(more than 10 points); any other difference of the point sequence is a violation',
               'in range = cameras SIMPLE_PINHOLE / SIMPLE_RADIAL / RADIAL with integral positive width/height and principal point '
               'at (w/2, h/2); unique image names; every image has its own trajectory entry (timestamp, camera id) with a complete, '
               'non-zero pose (the exporter does not flatten rigs); points3d rows have colours (Nx6); a single keypoints type and a '
               'single descriptors type; keypoint indices in match files are integral',
               'timestamps, sensor names, the match score column, GNSS/EXIF and non-camera sensors are not carried by an OpenSfM '
               'project and are not part of the property',
               'the importer is called with the keypoints / descriptors type names of the input dataset',
               'histories: the export directory may hold an earlier export; judged when that export is covered (each of its features / '
               'matches files is written again by the export under test); leftovers of an uncovered history survive in the code as it is '
               '(theorem C15_reexport_leftover_keypoints_as_is, proposed repair in fixes/not-applied/): observed and compared with the '
               'model, not judged']
EXHAUSTIVE = {'quick': False, 'thorough': False}
KP, DS = 'kp', 'ds'
CAMTYPES = ['SIMPLE_PINHOLE', 'SIMPLE_RADIAL', 'RADIAL']
SIZES = [(640, 480), (480, 640), (641, 481), (1, 1), (1920, 1080), (333, 1001), (512, 512)]
FOLDERS = ['', '', 'z/', 'a/b/', 'cam 1/', 'm/n/o/']
STEMS = ['b', 'a', '10', '2', 'img_0009', 'img_0010', 'Z', 'frame', 'c', 'zz', '00', 'x.y']


# ------------------------------------------------------------------ generation
def _quat(rng, cls):
    ax = [rng.gauss(0, 1) for _ in range(3)]
    n = math.sqrt(sum(a * a for a in ax)) or 1.0
    ax = [a / n for a in ax]
    if cls == 'identity':
        return [1.0, 0.0, 0.0, 0.0]
    if cls == 'half':
        q = [0.0] + ax
    elif cls == 'near_half':
        ang = math.pi - rng.choice([-1, 1]) * 10 ** rng.uniform(-12, -3)
        q = [math.cos(ang / 2)] + [math.sin(ang / 2) * a for a in ax]
    elif cls == 'tiny':
        ang = 10 ** rng.uniform(-12, -4)
        q = [math.cos(ang / 2)] + [math.sin(ang / 2) * a for a in ax]
    elif cls == 'negw':
        ang = rng.uniform(math.pi, 2 * math.pi)
        q = [math.cos(ang / 2)] + [math.sin(ang / 2) * a for a in ax]
    else:
        ang = rng.uniform(-math.pi, math.pi)
        q = [math.cos(ang / 2)] + [math.sin(ang / 2) * a for a in ax]
    if cls == 'scaled':
        s = 10 ** rng.uniform(-3, 3)
        q = [s * c for c in q]
    return q


def _dec(rng, lo, hi, nd):
    return round(rng.uniform(lo, hi), nd)


def _camera(rng, cid):
    t = rng.choice(CAMTYPES)
    w, h = rng.choice(SIZES)
    f = rng.choice([float(rng.randint(100, 3000)), _dec(rng, 50, 4000, 3), rng.uniform(0.5, 5000)])
    params = [float(w), float(h), f, w / 2, h / 2]
    if t in ('SIMPLE_RADIAL', 'RADIAL'):
        params.append(rng.choice([0.0, _dec(rng, -0.5, 0.5, 4), rng.uniform(-1, 1)]))
    if t == 'RADIAL':
        params.append(rng.choice([0.0, _dec(rng, -0.5, 0.5, 4), rng.uniform(-1, 1)]))
    return {'id': cid, 'type': t, 'params': params}


def _arr(rng, rows, cols, dtype):
    if dtype == 'uint8':
        return [[rng.randint(0, 255) for _ in range(cols)] for _ in range(rows)]
    if dtype == 'float32':   # values exactly representable in float32
        return [[rng.randint(-4096, 4096) / 8.0 for _ in range(cols)] for _ in range(rows)]
    return [[rng.choice([rng.uniform(-1000, 1000), float(rng.randint(0, 2000))]) for _ in range(cols)] for _ in range(rows)]


def _score(rng):
    """the score column of a kapture matches file is free: similarities, distances, 0 for un-scored matches"""
    return rng.choice([1.0, 1.0, round(rng.random(), 3), 0.0, 0.0, -round(rng.random(), 3), -1.0, round(rng.uniform(1, 500), 2)])


def _valid_case(rng, big):
    ncam = rng.choice([1, 1, 2, 2, 3])
    cam_ids = rng.sample(['cam0', 'camB', 'a_cam', 'GoPro 7', '10', '2'], ncam)
    cams = [_camera(rng, c) for c in cam_ids]
    if ncam >= 2 and rng.random() < 0.3:      # two cameras sharing one model
        cams[1] = dict(cams[0], id=cams[1]['id'])
    nimg = rng.randint(1, 6)
    names = []
    while len(names) < nimg:
        n = rng.choice(FOLDERS) + rng.choice(STEMS) + rng.choice(['.jpg', '.png', '.JPG'])
        if n not in names:
            names.append(n)
    used = cam_ids if rng.random() < 0.7 else cam_ids[:1]
    images = []
    tss = rng.sample(range(0, 40), nimg) if rng.random() < 0.8 else [rng.randint(10 ** 12, 10 ** 18) for _ in range(nimg)]
    for i, n in enumerate(names):
        cls = rng.choice(['identity', 'unit', 'unit', 'scaled', 'near_half', 'near_half', 'half', 'negw', 'tiny'])
        t = [rng.choice([_dec(rng, -100, 100, 3), float(rng.randint(-5, 5)), rng.uniform(-1e4, 1e4)]) for _ in range(3)]
        images.append({'ts': tss[i], 'cam': rng.choice(used), 'name': n, 'q': _quat(rng, cls), 't': t, 'qclass': cls})
    # the same timestamp for two different cameras
    if len(images) >= 2 and images[0]['cam'] != images[1]['cam'] and rng.random() < 0.5:
        images[1]['ts'] = images[0]['ts']
    if len({(im['ts'], im['cam']) for im in images}) < len(images):
        for i, im in enumerate(images):
            im['ts'] = 1000 + i
    # synchronised cameras: every camera counts its own frames 0, 1, 2, ... (small timestamps, shared between the
    # cameras, starting at 0 — the usual shape of a multi-camera recording); or one common frame counter from 0
    r = rng.random()
    if r < 0.3:
        cnt = {}
        for im in images:
            im['ts'] = cnt.get(im['cam'], 0)
            cnt[im['cam']] = im['ts'] + 1
    elif r < 0.4:
        for i, im in enumerate(rng.sample(images, len(images))):
            im['ts'] = i
    r = rng.random()
    if r < 0.08:
        points = None
    elif r < 0.16:
        points = []
    else:
        npts = rng.randint(11, 30) if (big or rng.random() < 0.45) else rng.randint(1, 10)
        points = []
        for _ in range(npts):
            col = [float(rng.randint(0, 255)) for _ in range(3)]
            if rng.random() < 0.1:
                col = [c + 0.5 for c in col]
            points.append([_dec(rng, -500, 500, rng.choice([0, 2, 6])) for _ in range(3)] + col)
    fmode = rng.choice(['none', 'kp', 'kp', 'both', 'both', 'both', 'both', 'desc'])
    kp = desc = None
    with_feat = [n for n in names if rng.random() < 0.75] or names[:1]
    if fmode in ('kp', 'both'):
        dt = rng.choice(['float32', 'float32', 'float64'])
        cols = rng.choice([2, 4, 6, 6, 3, 5, 7])
        kp = {'dtype': dt, 'dsize': cols, 'data': {n: _arr(rng, rng.choice([0, 1, 2, 3, 5]), cols, dt) for n in with_feat}}
    if fmode in ('desc', 'both'):
        dt = rng.choice(['uint8', 'uint8', 'float32'])
        cols = rng.choice([1, 8, 16])
        some = [n for n in with_feat if rng.random() < 0.8] or with_feat[:1]
        if fmode == 'desc':
            some = with_feat
        desc = {'dtype': dt, 'dsize': cols,
                'data': {n: _arr(rng, len(kp['data'][n]) if kp else rng.randint(0, 4), cols, dt) for n in some}}
    matches = None
    if len(names) >= 2 and rng.random() < 0.65:
        pairs = set()
        for _ in range(rng.randint(1, 5)):
            a, b = rng.sample(names, 2)
            if (b, a) not in pairs or rng.random() < 0.3:
                pairs.add((a, b))
        matches = [{'a': a, 'b': b,
                    'rows': [[rng.randint(0, 999), rng.randint(0, 999), _score(rng)]
                             for _ in range(rng.choice([0, 1, 2, 4]))]} for a, b in sorted(pairs)]
        rng.shuffle(matches)
    return {'kind': 'valid', 'cameras': cams, 'images': images, 'points': points, 'kp': kp, 'desc': desc,
            'matches': matches, 'rigs': None}


def _feat_names(c):
    return set((c['kp'] or {'data': {}})['data']) | set((c['desc'] or {'data': {}})['data'])


def _prior_for(rng, c, covered):
    """An earlier dataset that was exported into the same OpenSfM directory before `c` is: the history of a re-used
    export target.  Same cameras, a subset of the images (the recording grew), other poses and points, features
    extracted anew (other values, possibly another dtype / width) and other matches.
    covered=True : every features / matches file the earlier export left is one the export of `c` writes again (features
                   only on images that have features in `c`; matches only when `c` has matches).
    covered=False: the earlier export leaves at least one file the export of `c` does not write (features of an image that
                   has none in `c` or is not in `c`, or matches when `c` has none): leftovers, outside the judged range.
                   (Same dtype / width as `c` there: with mixed leftovers the importer declares the dtype of whichever file
                   os.walk yields first and kapture_from_dir re-reads every file with it — bytes reinterpreted, not modelled.)"""
    p = _valid_case(rng, False)
    imgs = [dict(im) for im in c['images'] if rng.random() < 0.8] or [dict(c['images'][0])]
    for im in imgs:
        cls = rng.choice(['identity', 'unit', 'scaled'])
        im.update(q=_quat(rng, cls), qclass=cls, t=[float(rng.randint(-5, 5)) for _ in range(3)])
    names = [im['name'] for im in imgs]
    cur = _feat_names(c)
    pool = [n for n in names if n in cur] if covered else list(names)
    kp = desc = None
    if pool:
        some = [n for n in pool if rng.random() < 0.85] or pool[:1]
        if c['kp'] or not covered:
            dt, cols = ((c['kp']['dtype'], c['kp']['dsize']) if c['kp'] and (not covered or rng.random() < 0.6)
                        else (rng.choice(['float32', 'float64']), rng.choice([2, 4, 6])))
            kp = {'dtype': dt, 'dsize': cols, 'data': {n: _arr(rng, rng.choice([1, 2, 3, 5]), cols, dt) for n in some}}
        if (c['desc'] or not covered) and rng.random() < 0.8:
            dt, cols = ((c['desc']['dtype'], c['desc']['dsize']) if c['desc'] and (not covered or rng.random() < 0.6)
                        else (rng.choice(['uint8', 'float32']), rng.choice([1, 8, 16])))
            desc = {'dtype': dt, 'dsize': cols,
                    'data': {n: _arr(rng, len(kp['data'][n]) if kp else rng.randint(1, 4), cols, dt) for n in some}}
    matches = None
    if len(names) >= 2 and (c['matches'] or not covered):
        pairs = set()
        for m in (c['matches'] or []):
            if m['a'] in names and m['b'] in names and rng.random() < 0.7:
                pairs.add((m['a'], m['b']))             # the same pair, matched anew
        for _ in range(rng.randint(1, 3)):
            pairs.add(tuple(rng.sample(names, 2)))
        matches = [{'a': a, 'b': b, 'rows': [[rng.randint(0, 999), rng.randint(0, 999), _score(rng)]
                                             for _ in range(rng.choice([1, 2, 4]))]} for a, b in sorted(pairs)]
    p.update(cameras=json.loads(json.dumps(c['cameras'])), images=imgs, kp=kp, desc=desc, matches=matches)
    if not covered:
        left = (bool(_feat_names(p) - cur)) or (bool(matches) and not c['matches'])
        if not left:                                   # force one leftover: an image of the earlier dataset only
            extra = dict(imgs[0], name='gone/' + imgs[0]['name'], ts=max(im['ts'] for im in imgs) + 7)
            p['images'].append(extra)
            k = p['kp'] or {'dtype': 'float32', 'dsize': 4, 'data': {}}
            k['data'][extra['name']] = _arr(rng, 2, k['dsize'], k['dtype'])
            p['kp'] = k
    return p


def _covered(c):
    """every features / matches file of the earlier export is written again by the export of c"""
    p = c.get('prior')
    if not p:
        return True
    return ({im['name'] for im in p['images']} <= {im['name'] for im in c['images']}
            and _feat_names(p) <= _feat_names(c) and not (p['matches'] and not c['matches']))


def _reexport_case(rng, covered=True):
    c = _valid_case(rng, False)
    if rng.random() < 0.7:                             # mostly datasets that do have features
        while not (c['kp'] or c['desc']):
            c = _valid_case(rng, False)
    c['prior'] = _prior_for(rng, c, covered)
    c['force'] = rng.random() < 0.4                    # force_overwrite_existing of the second export
    if not covered:
        c['kind'] = 'out:leftover'
    return c


def _out_of_range(rng, what):
    if what == 'leftover':
        return _reexport_case(rng, covered=False)
    c = _valid_case(rng, False)
    c['kind'] = 'out:' + what
    if what == 'othercam':
        c['cameras'].append({'id': 'fisheye', 'type': 'OPENCV', 'params': [640.0, 480.0, 500.0, 501.0, 320.0, 240.0, 0.0, 0.0, 0.0, 0.0]})
    elif what == 'unposed':
        c['images'][rng.randrange(len(c['images']))]['q'] = None
    elif what == 'rig':
        im = c['images'][0]
        c['rigs'] = [{'rig': 'rig0', 'cam': im['cam'], 'q': [1.0, 0.0, 0.0, 0.0], 't': [0.1, 0.0, 0.0]}]
        for x in c['images']:
            if x['cam'] == im['cam']:
                x['on_rig'] = 'rig0'
    elif what == 'pts3':
        c['points'] = [[float(i), 0.5, -1.0] for i in range(rng.randint(1, 4))]
    elif what == 'offcentre':
        c['cameras'][0]['params'][3] += 1.5
    elif what == 'nonint':
        c['cameras'][0]['params'][0] += 0.5
        c['cameras'][0]['params'][3] = c['cameras'][0]['params'][0] / 2
    return c


def gen_cases(rng, tier):
    n_valid = 120 if tier == 'quick' else 1500
    n_out = 4 if tier == 'quick' else 30
    cases = []
    # fixed seeds of the space: minimal, and the point-count boundary 10 / 11
    for npts in (10, 11):
        cases.append({'kind': 'valid', 'cameras': [{'id': 'cam', 'type': 'SIMPLE_PINHOLE', 'params': [640.0, 480.0, 500.0, 320.0, 240.0]}],
                      'images': [{'ts': 0, 'cam': 'cam', 'name': 'a.jpg', 'q': [1.0, 0.0, 0.0, 0.0], 't': [0.0, 0.0, 0.0], 'qclass': 'identity'}],
                      'points': [[float(i), 0.0, 0.0, 1.0, 2.0, 3.0] for i in range(npts)], 'kp': None, 'desc': None,
                      'matches': None, 'rigs': None})
    for i in range(n_valid):
        cases.append(_valid_case(rng, big=(i % 3 == 0)))
    for i in range(n_valid // 5):                      # histories: the export target already holds an earlier export
        cases.append(_reexport_case(rng))
    for what in ('othercam', 'unposed', 'rig', 'pts3', 'offcentre', 'nonint', 'leftover'):
        for _ in range(n_out):
            cases.append(_out_of_range(rng, what))
    return cases


# ------------------------------------------------------------------ running the implementation
def _bits(a):
    import numpy as np
    a = np.ascontiguousarray(a)
    u = {1: np.uint8, 2: np.uint16, 4: np.uint32, 8: np.uint64}[a.dtype.itemsize]
    return {'dtype': a.dtype.name, 'cols': int(a.shape[1]) if a.ndim == 2 else -1,
            'elems': [int(x) for x in a.view(u).reshape(-1)]}


def _view(kdata, root):
    """What a kapture dataset on disk contains, in the vocabulary of the property (JSON-able)."""
    import kapture
    import kapture.io.features as kf
    v = {}
    v['cameras'] = [{'id': cid, 'type': cam.camera_type.name, 'params': [float(x) for x in cam.camera_params]}
                    for cid, cam in kdata.cameras.items()]
    v['images'] = [{'ts': int(ts), 'cam': cid, 'name': name}
                   for ts, cid, name in kapture.flatten(kdata.records_camera)] if kdata.records_camera is not None else []
    traj = []
    if kdata.trajectories is not None:
        for ts, sid, pose in kapture.flatten(kdata.trajectories):
            r = None if pose.r is None else [float(x) for x in pose.r_raw]
            t = None if pose.t is None else [float(x) for x in pose.t_raw]
            traj.append({'ts': int(ts), 'id': sid, 'q': r, 't': t})
    v['traj'] = traj
    v['points'] = None if kdata.points3d is None else [[float(x) for x in row] for row in kdata.points3d.as_array()]
    kps, dss, mts = {}, {}, []
    if kdata.keypoints is not None and KP in kdata.keypoints:
        ks = kdata.keypoints[KP]
        for name in sorted(ks):
            kps[name] = _bits(kf.image_keypoints_from_file(kf.get_keypoints_fullpath(KP, root, name), ks.dtype, ks.dsize))
    if kdata.descriptors is not None and DS in kdata.descriptors:
        ds = kdata.descriptors[DS]
        for name in sorted(ds):
            dss[name] = _bits(kf.image_descriptors_from_file(kf.get_descriptors_fullpath(DS, root, name), ds.dtype, ds.dsize))
    if kdata.matches is not None and KP in kdata.matches:
        for a, b in sorted(kdata.matches[KP]):
            m = kf.image_matches_from_file(kf.get_matches_fullpath((a, b), KP, root))
            mts.append({'a': a, 'b': b, 'rows': [[float(x) for x in row] for row in m]})
    v['kp'], v['desc'], v['matches'] = kps, dss, mts
    return v


def _build(case, root):
    import numpy as np
    import kapture
    import kapture.io.features as kf
    from kapture.io.csv import kapture_to_dir
    from kapture.io.records import get_record_fullpath
    d = kapture.Kapture()
    d.sensors = kapture.Sensors()
    for c in case['cameras']:
        d.sensors[c['id']] = kapture.Camera(c['type'], list(c['params']))
    d.records_camera = kapture.RecordsCamera()
    d.trajectories = kapture.Trajectories()
    if case.get('rigs'):
        d.rigs = kapture.Rigs()
        for r in case['rigs']:
            d.rigs[r['rig'], r['cam']] = kapture.PoseTransform(r=r['q'], t=r['t'])
    for im in case['images']:
        d.records_camera[im['ts'], im['cam']] = im['name']
        if im.get('q') is not None:
            d.trajectories[im['ts'], im.get('on_rig') or im['cam']] = kapture.PoseTransform(r=list(im['q']), t=list(im['t']))
        p = get_record_fullpath(root, im['name'])
        os.makedirs(os.path.dirname(p), exist_ok=True)
        with open(p, 'wb') as f:
            f.write(b'\xff\xd8' + im['name'].encode())
    if case['points'] is not None:
        pts = np.array(case['points'], dtype=float)
        d.points3d = kapture.Points3d(pts.reshape(-1, 6 if not case['points'] else len(case['points'][0])))
    if case['kp'] is not None:
        k = case['kp']
        d.keypoints = {KP: kapture.Keypoints(KP, np.dtype(k['dtype']).type, k['dsize'])}
        for name, rows in k['data'].items():
            d.keypoints[KP].add(name)
            kf.image_keypoints_to_file(kf.get_keypoints_fullpath(KP, root, name),
                                       np.array(rows, dtype=k['dtype']).reshape(-1, k['dsize']))
    if case['desc'] is not None:
        k = case['desc']
        d.descriptors = {DS: kapture.Descriptors(DS, np.dtype(k['dtype']).type, k['dsize'], KP, 'L2')}
        for name, rows in k['data'].items():
            d.descriptors[DS].add(name)
            kf.image_descriptors_to_file(kf.get_descriptors_fullpath(DS, root, name),
                                         np.array(rows, dtype=k['dtype']).reshape(-1, k['dsize']))
    if case['matches'] is not None:
        d.matches = {KP: kapture.Matches()}
        for m in case['matches']:
            d.matches[KP].add(m['a'], m['b'])
            kf.image_matches_to_file(kf.get_matches_fullpath((m['a'], m['b']), KP, root),
                                     np.array(m['rows'], dtype=np.float64).reshape(-1, 3))
    kapture_to_dir(root, d)


def _read_project(root):
    """Content of the OpenSfM project, read with the generic loaders of each layer."""
    import numpy as np
    with open(os.path.join(root, 'reconstruction.json')) as f:
        rec = json.load(f)[0]
    with open(os.path.join(root, 'camera_models.json')) as f:
        cm = json.load(f)
    feats, matches = {}, {}
    fdir, mdir = os.path.join(root, 'features'), os.path.join(root, 'matches')
    for dp, _, fs in os.walk(fdir):
        for fn in fs:
            full = os.path.join(dp, fn)
            rel = os.path.relpath(full, fdir).replace(os.sep, '/')
            if not rel.endswith('.features.npz'):
                continue                       # what OpenSfM (and the importer) would not recognise
            with np.load(full, allow_pickle=False) as z:
                feats[rel[:-len('.features.npz')]] = {k: _bits(z[k]) for k in z.files}
    for dp, _, fs in os.walk(mdir):
        for fn in fs:
            full = os.path.join(dp, fn)
            rel = os.path.relpath(full, mdir).replace(os.sep, '/')
            if not rel.endswith('_matches.pkl.gz'):
                continue
            with gzip.open(full, 'rb') as f:
                dct = pickle.load(f)
            matches[rel[:-len('_matches.pkl.gz')]] = {
                b: {'dtype': m.dtype.name, 'pairs': [[int(x) for x in row] for row in m.reshape(-1, 2)]}
                for b, m in dct.items()}
    return {'cameras': rec.get('cameras'), 'shots': rec.get('shots'), 'points': rec.get('points'),
            'camera_models': cm, 'features': feats, 'matches': matches}


def _exc(e):
    return f'{type(e).__name__}: {str(e).splitlines()[0][:120] if str(e) else ""}'


def run_impl(case, ctx):
    import logging
    import warnings
    warnings.filterwarnings('ignore', message='loadtxt: input contained no data')
    from kapture.io.csv import kapture_from_dir
    from kapture.converter.opensfm.export_opensfm import export_opensfm
    from kapture.converter.opensfm.import_opensfm import import_opensfm
    logging.getLogger().setLevel(logging.CRITICAL)
    base = os.path.join(ctx['tmp'], 'c')
    shutil.rmtree(base, ignore_errors=True)
    k0, k1, osfm, k2 = (os.path.join(base, x) for x in ('kapture_before', 'kapture_in', 'opensfm', 'kapture_back'))
    os.makedirs(k1)
    obs = {'input': None, 'prior_project': None, 'project': None, 'back': None, 'export_exc': None, 'import_exc': None}
    try:
        if case.get('prior'):                              # history: an earlier export into the same directory
            os.makedirs(k0)
            _build(case['prior'], k0)
            export_opensfm(k0, osfm, force_overwrite_existing=True, keypoints_type=KP, descriptors_type=DS)
            obs['prior_project'] = _read_project(osfm)
        _build(case, k1)
        obs['input'] = _view(kapture_from_dir(k1), k1)     # the dataset as the exporter will read it
        try:
            export_opensfm(k1, osfm, force_overwrite_existing=bool(case.get('force', True)),
                           keypoints_type=KP, descriptors_type=DS)
            obs['project'] = _read_project(osfm)
        except Exception as e:       # the implementation's failure is an observed outcome
            obs['export_exc'] = _exc(e)
        if obs['project'] is not None:
            try:
                import_opensfm(osfm, k2, force_overwrite_existing=True, keypoints_type=KP, descriptors_type=DS)
                obs['back'] = _view(kapture_from_dir(k2), k2)
            except Exception as e:
                obs['import_exc'] = _exc(e)
    finally:
        shutil.rmtree(base, ignore_errors=True)
    return obs


# ------------------------------------------------------------------ the property, on the implementation alone
def _rotm(q):
    w, x, y, z = q
    n = w * w + x * x + y * y + z * z
    return [1 - 2 * (y * y + z * z) / n, 2 * (x * y - z * w) / n, 2 * (x * z + y * w) / n,
            2 * (x * y + z * w) / n, 1 - 2 * (x * x + z * z) / n, 2 * (y * z - x * w) / n,
            2 * (x * z - y * w) / n, 2 * (y * z + x * w) / n, 1 - 2 * (x * x + y * y) / n]


def _close(a, b, tol=1e-9):
    return abs(a - b) <= tol * max(1.0, abs(a))


KNOWN_SIG = 'points imported in string order of their ids (more than 10 points)'


def _same_rows(ra, rb):
    return len(ra) == len(rb) and all(len(x) == len(y) and all(_close(u, v) for u, v in zip(x, y)) for x, y in zip(ra, rb))


def _persp(cam):
    p = cam['params']
    t = cam['type']
    return [p[0], p[1], p[2], p[5] if t in ('SIMPLE_RADIAL', 'RADIAL') else 0.0, p[6] if t == 'RADIAL' else 0.0]


def oracle(case, obs):
    if case['kind'] != 'valid' or not _covered(case):
        return None                    # outside the quantifier: only the model correspondence is checked
    if obs['export_exc']:
        return 'export raised ' + obs['export_exc'].split(':')[0]
    if obs['import_exc']:
        return 'import raised ' + obs['import_exc'].split(':')[0]
    a, b = obs['input'], obs['back']
    ia = {im['name']: im for im in a['images']}
    ib = {im['name']: im for im in b['images']}
    if sorted(ia) != sorted(ib) or len(b['images']) != len(ib):
        return 'image names differ after the round trip'
    ta = {(t['ts'], t['id']): t for t in a['traj']}
    tb = {(t['ts'], t['id']): t for t in b['traj']}
    for n, im in ia.items():
        jm = ib[n]
        if im['cam'] != jm['cam']:
            return 'image bound to another camera id'
        pa, pb = ta.get((im['ts'], im['cam'])), tb.get((jm['ts'], jm['cam']))
        if pb is None or pb['q'] is None or pb['t'] is None:
            return 'image lost its pose'
        if any(abs(x - y) > 1e-9 for x, y in zip(_rotm(pa['q']), _rotm(pb['q']))):
            return 'rotation differs by more than 1e-9'
        if pa['t'] != pb['t']:
            return 'translation differs'
    if len(b['traj']) != len(b['images']):
        return 'extra trajectory entries'
    ca = {c['id']: c for c in a['cameras']}
    cb = {c['id']: c for c in b['cameras']}
    if sorted(ca) != sorted(cb):
        return 'camera identifiers differ'
    for cid, c in ca.items():
        pa, pb = _persp(c), _persp(cb[cid])
        if pa[0] != pb[0] or pa[1] != pb[1] or not all(_close(x, y) for x, y in zip(pa, pb)):
            return 'perspective camera parameters differ'
        if cb[cid]['type'] not in CAMTYPES or not (_close(c['params'][3], cb[cid]['params'][3]) and _close(c['params'][4], cb[cid]['params'][4])):
            return 'camera model or principal point differs'
    if a['kp'] != b['kp']:
        return 'keypoints differ' if b['kp'] else 'keypoints lost'
    if a['desc'] != b['desc']:
        return 'descriptors differ' if b['desc'] else 'descriptors lost'
    ma = {(m['a'], m['b']): [r[:2] for r in m['rows']] for m in a['matches']}
    mb = {(m['a'], m['b']): [r[:2] for r in m['rows']] for m in b['matches']}
    if ma != mb:
        return 'match index pairs differ'
    # points last, and the known finding last of all, so that it never masks another failure
    if (a['points'] is None) != (b['points'] is None):
        return 'point cloud appeared or vanished'
    if a['points'] is not None:
        if len(a['points']) != len(b['points']):
            return 'number of 3-D points differs'
        if not _same_rows(a['points'], b['points']):
            n = len(a['points'])
            by_string_ids = [a['points'][i] for i in sorted(range(n), key=str)]
            if n > 10 and _same_rows(by_string_ids, b['points']):
                return KNOWN_SIG
            return 'sequence of 3-D points differs'
    return None


# ------------------------------------------------------------------ Coq encoding
def _q(x):
    return kv.cq(float(x)) if not isinstance(x, int) else kv.cq(x)


def _ql(xs):
    return kv.clist(_q(x) for x in xs)


def _quatc(q):
    return 'mkQ %s %s %s %s' % tuple(_q(x) for x in q)


def _vecc(v):
    return 'mkV %s %s %s' % tuple(_q(x) for x in v)


_CT = {'SIMPLE_PINHOLE': 'SimplePinhole', 'SIMPLE_RADIAL': 'SimpleRadial', 'RADIAL': 'Radial'}


def _arrc(a):
    return '(mkArr %s %s %s)' % (kv.cstr(a['dtype']), kv.cn(max(a['cols'], 0)), kv.clist(kv.cn(x) for x in a['elems']))


def _dataset(v):
    cams = kv.clist(kv.cpair(kv.cstr(c['id']), '(mkCam %s %s)' % (
        _CT.get(c['type']) or '(OtherCam %s)' % kv.cstr(c['type']), _ql(c['params']))) for c in v['cameras'])
    ims = kv.clist('(mkImg %s %s %s)' % (kv.cz(im['ts']), kv.cstr(im['cam']), kv.cstr(im['name'])) for im in v['images'])
    traj = kv.clist(kv.cpair(kv.cpair(kv.cz(t['ts']), kv.cstr(t['id'])), '(mkPose (%s) (%s))' % (_quatc(t['q']), _vecc(t['t'])))
                    for t in v['traj'] if t['q'] is not None and t['t'] is not None)
    pts = kv.copt(None if v['points'] is None else kv.clist(_ql(r) for r in v['points']))
    kps = kv.clist(kv.cpair(kv.cstr(n), _arrc(a)) for n, a in sorted(v['kp'].items()))
    dss = kv.clist(kv.cpair(kv.cstr(n), _arrc(a)) for n, a in sorted(v['desc'].items()))
    mts = kv.clist(kv.cpair(kv.cpair(kv.cstr(m['a']), kv.cstr(m['b'])),
                            kv.clist(kv.cpair(kv.cpair(kv.cz(_idx(r[0])), kv.cz(_idx(r[1]))), _q(r[2])) for r in m['rows']))
                   for m in v['matches'])
    return '(mkD %s %s %s %s %s %s %s)' % (cams, ims, traj, pts, kps, dss, mts)


def _idx(x):
    return int(x) if float(x) == int(x) else -1


def _intz(x):
    return kv.cz(x) if isinstance(x, int) and not isinstance(x, bool) else kv.cz(-1)


def _ocam(c):
    return '(mkOC %s %s %s %s %s %s)' % (kv.cstr(str(c.get('projection_type'))), _intz(c.get('width')), _intz(c.get('height')),
                                         _q(c.get('focal', -1.0)), _q(c.get('k1', 0.0)), _q(c.get('k2', 0.0)))


def _project(p):
    cams = kv.clist(kv.cpair(kv.cstr(k), _ocam(c)) for k, c in p['cameras'].items())
    cms = kv.clist(kv.cpair(kv.cstr(k), _ocam(c)) for k, c in p['camera_models'].items())
    shots = kv.clist(kv.cpair(kv.cstr(n), '(mkShot %s %s)' % (kv.cstr(str(s.get('camera'))), kv.copt(
        None if 'rotation' not in s or 'translation' not in s
        else kv.cpair(_vecc(s['rotation']), _vecc(s['translation']))))) for n, s in p['shots'].items())
    pts = kv.copt(None if p['points'] is None else kv.clist(
        kv.cpair(kv.cstr(k), '(mkOP %s %s)' % (_ql(v['coordinates']), _ql(v['color']))) for k, v in p['points'].items()))
    feats = kv.clist(kv.cpair(kv.cstr(n), kv.cpair(kv.copt(_arrc(f['points']) if 'points' in f else None),
                                                   kv.copt(_arrc(f['descriptors']) if 'descriptors' in f else None)))
                     for n, f in sorted(p['features'].items()))
    mts = kv.clist(kv.cpair(kv.cstr(a), kv.clist(kv.cpair(kv.cstr(b), kv.clist(kv.cpair(kv.cz(r[0]), kv.cz(r[1])) for r in m['pairs']))
                                                 for b, m in d.items())) for a, d in sorted(p['matches'].items()))
    return '(mkP %s %s %s %s %s %s)' % (cams, shots, pts, cms, feats, mts)


def encode(case, obs):
    a = obs['input']
    table = []
    if obs['project'] is not None:
        tq = {(t['ts'], t['id']): t for t in a['traj']}
        for im in a['images']:
            s = obs['project']['shots'].get(im['name'])
            t = tq.get((im['ts'], im['cam']))
            if s is not None and 'rotation' in s and t is not None and t['q'] is not None:
                table.append(kv.cpair(_quatc(t['q']), _vecc(s['rotation'])))
    return '(mkCase %s %s %s %s %s)' % (_dataset(a), kv.clist(table),
                                        kv.copt(None if obs.get('prior_project') is None else _project(obs['prior_project'])),
                                        kv.copt(None if obs['project'] is None else _project(obs['project'])),
                                        kv.copt(None if obs['back'] is None else _dataset(obs['back'])))


# ------------------------------------------------------------------ evidence helpers
def nontrivial(case, obs):
    return case['kind'] == 'valid' and (len(case['points'] or []) > 10 or bool(case['kp']) or bool(case['desc'])
                                        or bool(case['matches']) or any(im['qclass'] != 'identity' for im in case['images']))


def classify(case, obs):
    n = len(case['points']) if case['points'] is not None else -1
    pts = 'none' if n < 0 else ('0' if n == 0 else ('1-10' if n <= 10 else '>10'))
    feat = ('kp' if case['kp'] else '') + ('+ds' if case['desc'] else '') or 'nofeat'
    out = 'export-raised' if obs['export_exc'] else ('import-raised' if obs['import_exc'] else 'ok')
    hist = '/re-export' + ('-forced' if case.get('force') else '') if case.get('prior') else ''
    return f'{case["kind"]}{hist}/pts={pts}/{feat}/{"matches" if case["matches"] else "nomatches"}/{out}'


def describe(case, obs):
    return {'kind': case['kind'], 'cameras': [(c['id'], c['type'], c['params'][:2]) for c in case['cameras']],
            'images': [(im['ts'], im['cam'], im['name'], im.get('qclass')) for im in case['images']],
            'points': None if case['points'] is None else len(case['points']),
            'keypoints': None if not case['kp'] else {n: len(r) for n, r in case['kp']['data'].items()},
            'descriptors': None if not case['desc'] else {n: len(r) for n, r in case['desc']['data'].items()},
            'matches': None if not case['matches'] else [(m['a'], m['b'], len(m['rows'])) for m in case['matches']],
            'earlier_export_into_same_directory': None if not case.get('prior') else {
                'images': [im['name'] for im in case['prior']['images']],
                'keypoints': None if not case['prior']['kp'] else sorted(case['prior']['kp']['data']),
                'matches': None if not case['prior']['matches'] else [(m['a'], m['b']) for m in case['prior']['matches']],
                'force_overwrite_existing': case.get('force')},
            'observed': {'export_exc': obs['export_exc'], 'import_exc': obs['import_exc'],
                         'points_back': None if not obs['back'] or obs['back']['points'] is None else len(obs['back']['points'])}}


def shrink(case):
    for c in _shrink(case):
        if c.get('prior'):
            names = {im['name'] for im in c['images']}
            pr = c['prior']
            pr['images'] = [im for im in pr['images'] if im['name'] in names]
            for k in ('kp', 'desc'):
                if pr[k]:
                    pr[k]['data'] = {n: r for n, r in pr[k]['data'].items() if n in names}
            if pr['matches']:
                pr['matches'] = [m for m in pr['matches'] if m['a'] in names and m['b'] in names] or None
            if not pr['images'] or (case['kind'] == 'valid' and not _covered(c)):
                continue
        yield c


def _shrink(case):
    if case.get('prior'):                                # does it fail without the history?
        c = json.loads(json.dumps(case))
        c['prior'] = None
        yield c
        pr = case['prior']
        for k in ('matches', 'desc', 'kp', 'points'):
            if pr.get(k):
                c = json.loads(json.dumps(case))
                c['prior'][k] = None
                yield c
    if case['points'] and len(case['points']) > 10:     # first leave the territory of the known finding
        c = json.loads(json.dumps(case))
        c['points'] = c['points'][:10]
        yield c
    names = [im['name'] for im in case['images']]
    if len(case['images']) > 1:
        for n in names:
            c = json.loads(json.dumps(case))
            c['images'] = [im for im in c['images'] if im['name'] != n]
            for k in ('kp', 'desc'):
                if c[k]:
                    c[k]['data'].pop(n, None)
            if c['matches']:
                c['matches'] = [m for m in c['matches'] if n not in (m['a'], m['b'])] or None
            yield c
    for k in ('kp', 'desc', 'matches'):
        if case[k]:
            c = json.loads(json.dumps(case))
            c[k] = None
            yield c
    if case['matches'] and len(case['matches']) > 1:
        for i in range(len(case['matches'])):
            c = json.loads(json.dumps(case))
            del c['matches'][i]
            yield c
    if case['points']:
        n = len(case['points'])
        for m in sorted({1, n // 2, n - 1, 10} - {n}):     # never down to the empty cloud: a different code path
            if 1 <= m < n:
                c = json.loads(json.dumps(case))
                c['points'] = c['points'][:m]
                yield c
        c = json.loads(json.dumps(case))
        c['points'] = None
        yield c
    used = {im['cam'] for im in case['images']}
    if any(cam['id'] not in used for cam in case['cameras']):
        c = json.loads(json.dumps(case))
        c['cameras'] = [cam for cam in c['cameras'] if cam['id'] in used]
        yield c
    for i, im in enumerate(case['images']):
        if im.get('q') and im['q'] != [1.0, 0.0, 0.0, 0.0]:
            c = json.loads(json.dumps(case))
            c['images'][i]['q'] = [1.0, 0.0, 0.0, 0.0]
            c['images'][i]['qclass'] = 'identity'
            yield c


TECHNIQUE = ('Coq proof (import . export characterised part by part for every in-range dataset: explicit result, lookups by image '
             'name, induction over the image list / the point list / the match set; field identities over Q) over a Gallina model of '
             'both converters; differential correspondence on real directories evaluated by vm_compute, including the intermediate '
             'OpenSfM project')
LEVEL_TEXT = ('Theorems in coq/Props/C15.v hold for every in-range dataset of any size and every pair of rotation-vector conversions: '
              'the round trip succeeds; same image names bound to the same camera ids; same translation and, under the library '
              'contract on the dataset\'s quaternions, the same rotation; same camera ids, each RADIAL with the same (w, h, f, k1, k2) '
              '(focal exactly over Q) and centred principal point; the point cloud: AS THE CODE IS, the original sequence permuted by '
              'the string order of the decimal ids (same multiset for any length, identical up to ten points, an 11-point witness refutes '
              'the sequence clause), and for the repaired model (key=int) the same sequence for any length; the same keypoints / descriptors arrays by '
              'image name; the same ordered image pairs with the same index pairs. The model is tied to the code by running the real '
              'export_opensfm and import_opensfm on generated datasets and comparing, inside Coq, the written project and the '
              're-imported dataset with the model (integers, strings, arrays, translations exactly; focal, points to 1e-9; rotations '
              'as matrices to 1e-9).')
LEVEL_NOTE = ('KNOWN FINDING (not repaired in the tree, see docs/C15.md): import_opensfm orders the point ids as strings, so a cloud of more '
              'than 10 points comes back permuted (0,1,10,11,...,2,...). The model used by the correspondence is the code as it is (string '
              'order); C15_points_as_is_* state what holds as is (same multiset for any length, same sequence up to 10 points), '
              'C15_points_sequence_refuted is the 11-point witness, C15_repaired_* state the full clause for the numeric-order repair '
              '(fixes/not-applied/). partial: JSON / npz / pickle / CSV layers, file copies and the quaternion library are trusted and only exercised; float '
              'rounding is outside the model. Datasets with rig-mounted cameras, partial poses, XYZ-only clouds or several feature '
              'types are outside in_range (the first three make the converters raise; observed and modelled as outcomes). Histories: a re-used '
              'export directory is modelled as it is (export_onto: nothing is ever removed); the property is proved and judged for covered '
              'histories; leftovers of an uncovered history survive into the import (C15_reexport_leftover_keypoints_as_is; observation with a '
              'proposed repair in fixes/not-applied/), compared with the model but not judged.')
