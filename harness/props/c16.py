"""C16 — loading or upgrading a dataset treats file contents purely as data.

Implementation under test: kapture.io.csv.kapture_from_dir (whole load path) and
kapture.utils.upgrade.upgrade_1_0_to_1_1_inplace, run in a SUBPROCESS (this same file started with
`--worker`) under sys.addaudithook.  The worker first warms up (loads / upgrades benign and broken
datasets so that every lazy import of kapture / numpy / the stdlib has happened), then installs the hook.

One case = a dataset directory given as {relative path: text} (+ binary feature files), in which one field of
one file was replaced by a payload.  Observed: the interpreter-level effects while the real code ran
(projected to Read/Write/Delete/Spawn/Import/Eval/Net), the outcome class (value | error), a before/after
snapshot of the sandbox and the marker file the payloads try to create.
"""
import json
import os
import re
import shutil
import subprocess
import sys

try:
    import kv
except ImportError:          # worker mode: started as a script, harness/ is not on the path
    kv = None

ID = 'C16'
COQ_MODELS = ['MEffects']
COQ_HEADER = 'From KV Require Import Eqb Str.\nFrom KV.Model Require Import MEffects.'
CASE_TYPE = 'MEffects.case'
CHECK_FN = 'MEffects.check_case'
SHARD_SIZE = 20
CASE_TIMEOUT = 60
MARKER = 'C16_MARKER'

SENSORS = 'sensors/sensors.txt'
REC_KINDS = ['wifi', 'bluetooth', 'gnss', 'accelerometer', 'gyroscope', 'magnetic']
FEAT = {'keypoints': ('reconstruction/keypoints', 'keypoints.txt', '.kpt', 3),
        'descriptors': ('reconstruction/descriptors', 'descriptors.txt', '.desc', 5),
        'global_features': ('reconstruction/global_features', 'global_features.txt', '.gfeat', 4)}
MATCHES_DIR = 'reconstruction/matches'
# small side-effect free modules of the standard library that neither kapture nor numpy import
DOTTED_MODULES = ['colorsys', 'sched', 'filecmp', 'wave', 'cmd', 'netrc', 'tabnanny', 'pyclbr', 'symtable', 'fileinput',
                  'getopt', 'stringprep', 'quopri', 'modulefinder']
PLANTED = 'c16_planted'          # a python file shipped inside the dataset; it only creates the marker file
PLANTED_SRC = ('import os\n'
               'open(os.path.join(os.path.dirname(os.path.dirname(os.path.abspath(__file__))), %r), "w").close()\n' % MARKER)

# ======================================================================================================
#  worker (runs in the subprocess): audit hook, warm-up, leaf oracles, the two entry points
# ======================================================================================================
_EVENTS = []
_ACTIVE = [False]
_SPAWN = ('os.system', 'subprocess.Popen', 'os.exec', 'os.fork', 'os.forkpty', 'os.posix_spawn', 'os.spawn',
          'os.startfile', 'pty.spawn', '_posixsubprocess.fork_exec')
_NET = ('socket.', 'urllib.Request', 'http.client.', 'ftplib.', 'smtplib.', 'imaplib.', 'poplib.', 'nntplib.',
        'telnetlib.', 'ssl.', 'webbrowser.open')
_EVAL = ('compile', 'exec', 'code.__new__', 'function.__new__', 'marshal.loads', 'marshal.load', 'pickle.find_class',
         'builtins.breakpoint', 'builtins.input', 'builtins.input/result', 'cpython.run_command', 'cpython.run_file',
         'cpython.run_interactivehook', 'cpython.run_module', 'cpython.run_stdin', 'cpython.run_startup',
         'ctypes.dlopen', 'ctypes.dlsym', 'ctypes.call_function', 'sys.settrace', 'sys.setprofile')
_WRITE_1 = ('os.mkdir', 'os.truncate', 'os.chmod', 'os.chown', 'os.utime', 'os.chflags', 'os.setxattr',
            'os.removexattr', 'os.mkfifo', 'os.mknod', 'shutil.copymode', 'shutil.copystat', 'shutil.chown',
            'tempfile.mkstemp', 'tempfile.mkdtemp', 'shutil.make_archive')
_WRITE_DST = ('shutil.copyfile', 'shutil.copytree', 'shutil.unpack_archive', 'os.link', 'os.symlink')
_DELETE = ('os.remove', 'os.rmdir', 'shutil.rmtree', 'os.unlink')
_LIST = ('os.listdir', 'os.scandir', 'os.walk', 'glob.glob', 'glob.glob/2', 'pathlib.Path.glob', 'pathlib.Path.rglob')


def _s(x):
    if isinstance(x, bytes):
        return x.decode('utf-8', 'replace')
    if isinstance(x, str):
        return x
    if isinstance(x, int):
        return None
    try:
        return os.fspath(x) if hasattr(x, '__fspath__') else None
    except Exception:
        return None


def _hook(event, args):
    if not _ACTIVE[0]:
        return
    try:
        if event == 'open':
            p, mode, flags = (list(args) + [None, None, None])[:3]
            wr = False
            if isinstance(mode, str):
                wr = any(c in mode for c in 'wax+')
            elif isinstance(flags, int):
                wr = bool(flags & (os.O_WRONLY | os.O_RDWR | os.O_CREAT | os.O_TRUNC | os.O_APPEND))
            _EVENTS.append(('Write' if wr else 'Read', _s(p), 'open'))
        elif event == 'import':
            _EVENTS.append(('Import', None, str(args[0])))
        elif event in _EVAL:
            detail = event
            if event == 'compile' and args:
                src = args[0]
                if isinstance(src, (bytes, str)):
                    detail = 'compile:' + (_s(src) or '')[:80]
            _EVENTS.append(('Eval', None, detail))
        elif event.startswith(_SPAWN):
            _EVENTS.append(('Spawn', None, event))
        elif event.startswith(_NET):
            _EVENTS.append(('Net', None, event))
        elif event == 'os.rename' or event == 'shutil.move':
            if event == 'os.rename':
                _EVENTS.append(('Delete', _s(args[0]), event))
                _EVENTS.append(('Write', _s(args[1]), event))
        elif event in _DELETE:
            _EVENTS.append(('DeleteDir' if event in ('os.rmdir', 'shutil.rmtree') else 'Delete', _s(args[0]), event))
        elif event in _WRITE_1:
            _EVENTS.append(('WriteDir' if event == 'os.mkdir' else 'Write', _s(args[0]) if args else None, event))
        elif event in _WRITE_DST:
            _EVENTS.append(('Write', _s(args[1]) if len(args) > 1 else None, event))
        elif event in _LIST:
            _EVENTS.append(('List', _s(args[0]) if args else None, event))
    except Exception as e:      # never let the hook change the behaviour under test
        _EVENTS.append(('HookError', None, repr(e)))


def _rel(p, root):
    """path of an event relative to the dataset root, '/'-separated; starts with '..' when outside."""
    if p is None:
        return None
    try:
        ap = os.path.realpath(os.path.join(os.getcwd(), p))
        return os.path.relpath(ap, os.path.realpath(root)).replace(os.sep, '/')
    except Exception:
        return '../?'


def _w_ok(fn, *a, **k):
    try:
        fn(*a, **k)
        return True
    except Exception:
        return False


def _w_leaves(root, op):
    """Leaf oracles: the pure converters of the tree under test, called directly (not through the load path),
    and what the file system says.  Everything the Coq model treats as an abstract pure function is here."""
    import kapture
    import kapture.io.csv as kcsv
    import kapture.io.features as kfeat
    out = {'tables': {}, 'heads': {}, 'undecodable': []}
    texts = []
    for d, dirs, files in os.walk(root):
        dirs.sort()
        for n in sorted(files):
            if n.endswith('.txt'):
                texts.append(os.path.relpath(os.path.join(d, n), root).replace(os.sep, '/'))
    for rel in texts:
        try:
            with open(os.path.join(root, rel)) as f:
                out['heads'][rel] = f.readline()
            with open(os.path.join(root, rel)) as f:
                out['tables'][rel] = kcsv.table_from_file(f)
        except UnicodeDecodeError:
            out['undecodable'].append(rel)
    fields = sorted({x for t in out['tables'].values() for row in t for x in row})
    out['ints'] = [x for x in fields if _w_ok(int, x)]
    out['floats'] = [x for x in fields if _w_ok(float, x)]
    tb = out['tables']
    # version classes
    cur = kcsv.current_format_version()

    def vclass(head):
        v = kcsv.get_version_from_header(head)
        if v is None:
            return 'none'
        try:
            if float(v) > float(cur):
                return 'newer'
        except ValueError:
            return 'newer'
        return 'cur' if v == cur else ('v10' if v == '1.0' else 'old')
    out['vclass'] = {rel: vclass(h) for rel, h in out['heads'].items()}
    if op != 'load':       # the upgrade converts no sensor, pose, record or point: nothing of this is queried
        tb = {p: t for p, t in tb.items() if p.startswith('reconstruction/') and not p.endswith('points3d.txt')}
    out['sensor_ok'] = [row[1:] for row in tb.get(SENSORS, []) if len(row) >= 3 and
                        _w_ok(kapture.create_sensor, row[2], row[3:], row[1])]
    out['pose_ok'] = [row[2:] for row in tb.get('sensors/rigs.txt', []) if len(row) == 9 and
                      _w_ok(lambda r: kapture.PoseTransform(kcsv.float_array_or_none(r[2:6]),
                                                            kcsv.float_array_or_none(r[6:9])), row)]
    rec = {}
    rec['wifi'] = [row[3:] for row in tb.get('sensors/records_wifi.txt', []) if len(row) == 8 and
                   _w_ok(kapture.RecordWifiSignal, *row[3:])]
    rec['bluetooth'] = [row[3:] for row in tb.get('sensors/records_bluetooth.txt', []) if len(row) == 5 and
                        _w_ok(lambda r: kapture.RecordBluetoothSignal(rssi=r[3], name=r[4]), row)]
    for kind, cls in (('gnss', kapture.RecordsGnss), ('accelerometer', kapture.RecordsAccelerometer),
                      ('gyroscope', kapture.RecordsGyroscope), ('magnetic', kapture.RecordsMagnetic)):
        rec[kind] = [row[2:] for row in tb.get('sensors/records_%s.txt' % kind, []) if len(row) >= 2 and
                     _w_ok(cls.record_type, *row[2:])]
    out['rec_ok'] = rec
    p3 = os.path.join(root, 'reconstruction', 'points3d.txt')
    out['p3d_ok'] = op == 'load' and os.path.isfile(p3) and _w_ok(kcsv.points3d_from_file, p3)
    # file system: which of the feature folders exist, their entries in the order os.listdir gives them
    out['dirs'] = {}
    for kind, (dname, cfg, ext, _) in FEAT.items():
        dp = os.path.join(root, dname)
        if os.path.isdir(dp):
            out['dirs'][dname] = os.listdir(dp)
    if os.path.isdir(os.path.join(root, MATCHES_DIR)):
        out['dirs'][MATCHES_DIR] = os.listdir(os.path.join(root, MATCHES_DIR))
    images = sorted({row[2] for row in tb.get('sensors/records_camera.txt', []) if len(row) == 3})
    out['kp_exists'] = [[k, im] for k in out['dirs'].get(FEAT['keypoints'][0], []) for im in images
                        if os.path.exists(kfeat.get_features_fullpath(kapture.Keypoints, k, root, im))]
    if op == 'upgrade':
        from kapture.utils.paths import populate_files_in_dirpath
        out['moves'] = {}
        for dname, ext in (('reconstruction/keypoints', '.kpt'), ('reconstruction/descriptors', '.desc'),
                           ('reconstruction/matches', '.matches'), ('reconstruction/global_features', '.gfeat')):
            dp = os.path.join(root, dname)
            out['moves'][dname] = list(populate_files_in_dirpath(dp, ext)) if os.path.isdir(dp) else []
        out['json'] = [j for j in ('reconstruction/keypoints/extract_local_features.json',
                                   'reconstruction/matches/run_matching.json',
                                   'reconstruction/global_features/extract_global_features.json')
                       if os.path.isfile(os.path.join(root, j))]
        out['isdir'] = [d for d in ('reconstruction/keypoints', 'reconstruction/descriptors', 'reconstruction/matches',
                                    'reconstruction/global_features') if os.path.isdir(os.path.join(root, d))]
    return out


def _w_run(op, root, up_types):
    import kapture.io.csv as kcsv
    if op == 'load':
        kcsv.kapture_from_dir(root)
    else:
        from kapture.utils.upgrade import upgrade_1_0_to_1_1_inplace
        kt, dt, gt = up_types
        upgrade_1_0_to_1_1_inplace(root, kt, dt, gt, 'L2', 'L2')


_MODSEEN, _MODFILES = set(), set()     # files of the modules imported so far (grows only)


def _w_measure_leaves(root, op, res):
    del _EVENTS[:]
    mods0 = set(sys.modules)
    _ACTIVE[0] = True
    try:
        leaves = _w_leaves(root, op)
    finally:
        _ACTIVE[0] = False
    res['leaves'] = leaves
    res['leaf_events'] = [[k, _rel(p, root), d] for k, p, d in _EVENTS if k not in ('Read', 'List')]
    res['leaf_modules'] = sorted(set(sys.modules) - mods0)
    del _EVENTS[:]


def _w_case(req):
    root, base, op = req['root'], req['base'], req['op']
    os.chdir(base)
    res = {}
    if op != 'load':
        _w_measure_leaves(root, op, res)      # the upgrade rewrites the tree: measure before
    del _EVENTS[:]
    importable = bool(req.get('importable'))
    if importable:
        # the situation of `cd dataset; python -c ...` / an interactive session: the dataset folder is importable
        os.chdir(root)
        sys.path.insert(0, '')
        import importlib
        importlib.invalidate_caches()
    mods1 = set(sys.modules)
    for name in mods1 - _MODSEEN:
        m = sys.modules.get(name)
        for f in (getattr(m, '__file__', None), getattr(m, '__cached__', None)):
            if isinstance(f, str):
                _MODFILES.add(os.path.realpath(f))
    _MODSEEN.update(mods1)
    modfiles = set(_MODFILES)
    _ACTIVE[0] = True
    try:
        _w_run(op, root, req.get('up_types') or [None, None, None])
        res['outcome'], res['exc'] = 'value', None
    except BaseException as e:  # SystemExit / KeyboardInterrupt raised by evaluated content included
        res['outcome'], res['exc'] = 'error', '%s: %s' % (type(e).__name__, str(e)[:200])
    finally:
        _ACTIVE[0] = False
    res['new_modules'] = sorted(set(sys.modules) - mods1)      # second, independent observation of imports
    if importable:
        try:
            sys.path.remove('')
        except ValueError:
            pass
        os.chdir(base)
    # opening (for reading) the source or byte-code file of a module that was ALREADY imported before the run is what
    # linecache / traceback / warnings do: interpreter machinery, reported separately, never an effect of the contents
    res['events'] = [['Machinery' if (k == 'Read' and p is not None and
                                      os.path.realpath(os.path.join(os.getcwd(), p)) in modfiles) else k,
                      _rel(p, root), d] for k, p, d in _EVENTS]
    del _EVENTS[:]
    if op == 'load':
        _w_measure_leaves(root, op, res)      # after the load, so that the load itself is seen doing the first import
    return res


def _worker_main():
    import logging
    import warnings
    logging.disable(logging.CRITICAL)
    if not os.environ.get('C16_SHOW_WARNINGS'):
        warnings.simplefilter('ignore')    # showing a warning makes the interpreter read library source files (linecache)
    out = os.fdopen(os.dup(1), 'w')
    os.dup2(2, 1)                      # anything the code under test prints goes to stderr
    inp = os.fdopen(os.dup(0), 'r')    # private copies: evaluated content may close sys.stdin (exit()) or print
    sys.stdin = open(os.devnull)
    hooked = False
    for line in iter(inp.readline, ''):
        req = json.loads(line)
        if req['cmd'] == 'warm':
            for r in req['roots']:
                try:
                    _w_leaves(r['root'], r['op'])
                except Exception:
                    pass
                try:
                    _w_run(r['op'], r['root'], r.get('up_types') or [None, None, None])
                except BaseException:
                    pass
            import traceback  # noqa: F401  (modules an error path may want)
            import linecache  # noqa: F401
            res = {'warmed': len(req['roots'])}
        elif req['cmd'] == 'hook':
            if not hooked:
                sys.addaudithook(_hook)
                hooked = True
            res = {'hooked': True, 'absent': [m for m in DOTTED_MODULES if m not in sys.modules]}
        elif req['cmd'] == 'case':
            res = _w_case(req)
        else:
            res = {'error': 'unknown cmd'}
        out.write('@@C16@@' + json.dumps(res) + '\n')
        out.flush()


if __name__ == '__main__' and len(sys.argv) > 1 and sys.argv[1] == '--worker':
    _worker_main()
    sys.exit(0)


# ======================================================================================================
#  harness side
# ======================================================================================================
RULE = ('A case is a dataset directory written to disk (built once with the real kapture writers: all 18 parts, '
        'and a 1.0-layout variant for the upgrade path) in which ONE field of ONE text file (every column of every '
        'row of every file, the version line, the element-type field of the three descriptor files) is replaced by a '
        'payload: Python expressions with side effects (touch a marker file, __import__, os.system, lambda, exec), '
        'every whitelisted element-type name with and without np./numpy. prefix, near misses, paths, huge and odd '
        'numbers, format strings, empty, comma (arity change), comment sign, unicode; an accepted name embedded in a longer field '
        '(str(type) / repr(dtype) wrappers with and without code after them, text before / after, brackets, quotes, calls, '
        'unicode and case look-alikes) on the load and on the upgrade path. Non-trivial = the payload field '
        'is reached by the reader (its file is opened); distinct = distinct (operation, dataset variant, file, row, '
        'column, payload).')
TRUSTED = ['CPython audit events (PEP 578) are raised for compile/exec/import/open/os.*/shutil.*/socket.*/subprocess.* '
           'as documented; effects that raise no audit event (os.stat/path.exists probes, C-level I/O of extension '
           'modules) are not observed',
           'leaf converters called by the readers (int, float, kapture.create_sensor, PoseTransform, Record* constructors, '
           'numpy.loadtxt inside points3d_from_file, table_from_file lexing, the version regex) are pure: the Coq model '
           'has them as section variables of function type; on every case the harness calls each of them directly under '
           'the same audit hook and fails if any of them raises an effect event',
           'os.listdir returns plain entry names (no separator, not . or ..)']
NOTES = ['an observation whose only suspicious events can be one-time side effects of the interpreter (lazy import of a module '
         'whose name occurs nowhere in the dataset, reading/unmarshalling/executing library files for it) is not judged: the '
         'case is run again in the same interpreter and the second observation is used (recorded as rerun_after)']
ASSUMPTIONS = ['kapture_from_dir is called with its defaults (no skip_list, no tar handlers, no pairs file)',
               'upgrade_1_0_to_1_1_inplace is called the way tools/kapture_download_dataset.py calls it (all three feature '
               'types None, taken from the name field of the files) or with plain names as types',
               'the dataset root exists and is a directory; files are valid UTF-8',
               'the keypoints_type-is-not-None assertions of the upgrade (descriptors, matches, observations) are modelled '
               'as they are in the code; whether they should exist is property C20',
               'a name field used as folder name by the upgrade is at most 200 bytes (NAME_MAX of the host is not modelled)',
               'directory-level events (listdir/scandir/mkdir/rmdir) are judged by the oracle (must stay under the root; '
               'none that modifies on load) but are not part of the trace compared with the model']
EXHAUSTIVE = {'quick': False, 'thorough': False}
TECHNIQUE = ('Coq proof over an effect-annotated model of the load and upgrade paths (every effect is a Read under the root / '
             'a Read-Write-Delete under the root, for all trees and all pure leaf converters; whitelist characterisation of '
             'parse_dtype); differential correspondence (effect trace + outcome class) by vm_compute against the real code '
             'run in a subprocess under sys.addaudithook')

_BASE_CACHE = {}


def _gen_dir():
    d = os.path.join(kv.BUILD, 'tmp', 'C16-gen-%d' % os.getpid())
    shutil.rmtree(d, ignore_errors=True)
    os.makedirs(d)
    return d


def _read_tree(root):
    files, bins = {}, []
    for d, dirs, fs in os.walk(root):
        dirs.sort()
        for n in sorted(fs):
            rel = os.path.relpath(os.path.join(d, n), root).replace(os.sep, '/')
            if n.endswith('.txt'):
                with open(os.path.join(d, n)) as f:
                    files[rel] = f.read()
            else:
                bins.append(rel)
    return files, bins


def _base_full():
    """All 18 parts, written by the real writers of the tree under test."""
    if 'full' in _BASE_CACHE:
        return _BASE_CACHE['full']
    import numpy as np
    import kapture
    import kapture.io.csv as kcsv
    import kapture.io.features as kfeat
    root = os.path.join(_gen_dir(), 'ds')
    k = kapture.Kapture()
    k.sensors = kapture.Sensors()
    k.sensors['cam0'] = kapture.create_sensor('camera', ['PINHOLE', '640', '480', '500.5', '500.5', '320', '240'], 'front')
    k.sensors['cam1'] = kapture.create_sensor('camera', ['UNKNOWN_CAMERA', '640', '480'], '')
    k.sensors['dep0'] = kapture.create_sensor('depth', ['SIMPLE_PINHOLE', '320', '240', '250', '160', '120'], 'kinect')
    k.sensors['lid0'] = kapture.create_sensor('lidar', [], 'velodyne')
    k.sensors['wifi0'] = kapture.create_sensor('wifi', [], 'w')
    k.sensors['bt0'] = kapture.create_sensor('bluetooth', [], 'b')
    k.sensors['gps0'] = kapture.create_sensor('gnss', ['EPSG:4326'], 'g')
    k.sensors['acc0'] = kapture.create_sensor('accelerometer', [], 'a')
    k.sensors['gyr0'] = kapture.create_sensor('gyroscope', [], 'y')
    k.sensors['mag0'] = kapture.create_sensor('magnetic', [], 'm')
    k.rigs = kapture.Rigs()
    k.rigs['rig0', 'cam0'] = kapture.PoseTransform([1., 0., 0., 0.], [0., 0., 0.])
    k.rigs['rig0', 'cam1'] = kapture.PoseTransform([0.5, 0.5, 0.5, 0.5], [0.25, 0., -1.5])
    k.trajectories = kapture.Trajectories()
    k.trajectories[0, 'rig0'] = kapture.PoseTransform([1., 0., 0., 0.], [1., 2., 3.])
    k.trajectories[1, 'rig0'] = kapture.PoseTransform([0.5, -0.5, 0.5, -0.5], [1.5, 2., 3.])
    k.trajectories[1, 'lid0'] = kapture.PoseTransform(r=None, t=[0., 0., 1.])
    k.records_camera = kapture.RecordsCamera()
    k.records_camera[0, 'cam0'] = 'cam0/0000.jpg'
    k.records_camera[0, 'cam1'] = 'cam1/0000.jpg'
    k.records_camera[1, 'cam0'] = 'cam0/0001.jpg'
    k.records_depth = kapture.RecordsDepth()
    k.records_depth[0, 'dep0'] = 'dep0/0000.depth'
    k.records_lidar = kapture.RecordsLidar()
    k.records_lidar[1, 'lid0'] = 'lid0/0001.pcd'
    k.records_wifi = kapture.RecordsWifi()
    k.records_wifi[0, 'wifi0'] = kapture.RecordWifi({'68:72:51:80:52:df': kapture.RecordWifiSignal(2400, -33.5, 'net', 0, 10)})
    k.records_bluetooth = kapture.RecordsBluetooth()
    k.records_bluetooth[0, 'bt0'] = kapture.RecordBluetooth({'aa:bb:cc:dd:ee:ff': kapture.RecordBluetoothSignal(-60.0, 'beacon')})
    k.records_gnss = kapture.RecordsGnss()
    k.records_gnss[0, 'gps0'] = kapture.RecordGnss(2.5, 48.5, 35.0, 1600000000, 1.5)
    k.records_accelerometer = kapture.RecordsAccelerometer()
    k.records_accelerometer[0, 'acc0'] = kapture.RecordAccelerometer(0.0, 9.81, 0.25)
    k.records_gyroscope = kapture.RecordsGyroscope()
    k.records_gyroscope[0, 'gyr0'] = kapture.RecordGyroscope(0.5, 0.0, -0.5)
    k.records_magnetic = kapture.RecordsMagnetic()
    k.records_magnetic[0, 'mag0'] = kapture.RecordMagnetic(20.0, -5.0, 43.5)
    imgs = ['cam0/0000.jpg', 'cam1/0000.jpg', 'cam0/0001.jpg']
    k.keypoints = {'SIFT': kapture.Keypoints('SIFT', np.float32, 4, imgs),
                   'HARRIS': kapture.Keypoints('HARRIS', np.float64, 2, imgs[:2])}
    k.descriptors = {'SIFT': kapture.Descriptors('SIFT', np.uint8, 8, 'SIFT', 'L2', imgs)}
    k.global_features = {'APGEM': kapture.GlobalFeatures('APGEM', np.float16, 16, 'L2', imgs)}
    k.matches = {'SIFT': kapture.Matches([('cam0/0000.jpg', 'cam1/0000.jpg')])}
    k.points3d = kapture.Points3d(np.array([[0., 1., 2., 255., 0., 0.], [1.5, -2., 3.25, 0., 128., 0.],
                                            [4., 5., 6., 1., 2., 3.]]))
    k.observations = kapture.Observations()
    k.observations.add(0, 'SIFT', 'cam0/0000.jpg', 0)
    k.observations.add(0, 'SIFT', 'cam1/0000.jpg', 1)
    k.observations.add(1, 'HARRIS', 'cam0/0000.jpg', 3)
    k.observations.add(2, 'SIFT', 'cam0/0001.jpg', 2)
    kcsv.kapture_to_dir(root, k)
    for kt, kp in k.keypoints.items():
        for im in kp:
            kfeat.image_keypoints_to_file(kfeat.get_keypoints_fullpath(kt, root, im),
                                          np.zeros((4, kp.dsize), dtype=kp.dtype))
    for dt, ds in k.descriptors.items():
        for im in ds:
            kfeat.image_descriptors_to_file(kfeat.get_descriptors_fullpath(dt, root, im),
                                            np.zeros((4, ds.dsize), dtype=ds.dtype))
    for gt, gf in k.global_features.items():
        for im in gf:
            kfeat.image_global_features_to_file(kfeat.get_global_features_fullpath(gt, root, im),
                                                np.zeros((gf.dsize,), dtype=gf.dtype))
    for kt, ms in k.matches.items():
        for pair in ms:
            kfeat.image_matches_to_file(kfeat.get_matches_fullpath(pair, kt, root), np.zeros((2, 3), dtype=np.float64))
    res = _read_tree(root)
    shutil.rmtree(os.path.dirname(root), ignore_errors=True)
    _BASE_CACHE['full'] = res
    return res


def _subset(tree, keep):
    """The parts of a dataset whose relative path starts with one of the given prefixes."""
    files, bins = tree
    return ({p: t for p, t in files.items() if any(p.startswith(k) for k in keep)},
            [p for p in bins if any(p.startswith(k) for k in keep)])


def _base_v10():
    """The same dataset in the 1.0 layout (what the upgrade consumes): 1.0 headers, one feature type per kind
    directly under reconstruction/<kind>/, observations without the keypoints type column."""
    if 'v10' in _BASE_CACHE:
        return _BASE_CACHE['v10']
    files, bins = _base_full()
    nf, nb = {}, []
    for p, t in files.items():
        t = t.replace('# kapture format: 1.1', '# kapture format: 1.0')
        if p.startswith('reconstruction/keypoints/'):
            if '/SIFT/' in p:
                nf['reconstruction/keypoints/keypoints.txt'] = t
        elif p.startswith('reconstruction/descriptors/'):
            nf['reconstruction/descriptors/descriptors.txt'] = '\n'.join(
                ', '.join(ln.split(', ')[:3]) if not ln.startswith('#') else
                ('# name, dtype, dsize' if 'name' in ln else ln) for ln in t.split('\n'))
        elif p.startswith('reconstruction/global_features/'):
            nf['reconstruction/global_features/global_features.txt'] = '\n'.join(
                ', '.join(ln.split(', ')[:3]) if not ln.startswith('#') else
                ('# name, dtype, dsize' if 'name' in ln else ln) for ln in t.split('\n'))
        elif p == 'reconstruction/observations.txt':
            lines = []
            for ln in t.split('\n'):
                if ln.startswith('#') or not ln.strip():
                    lines.append('# point3d_id, [image_path, feature_id]*' if 'point3d_id' in ln else ln)
                else:
                    f = ln.split(', ')
                    if f[1] == 'SIFT':
                        lines.append(', '.join([f[0]] + f[2:]))
            nf[p] = '\n'.join(lines)
        else:
            nf[p] = t
    for p in bins:
        m = re.match(r'reconstruction/(keypoints|descriptors|global_features|matches)/([^/]+)/(.*)$', p)
        if m and m.group(2) in ('SIFT', 'APGEM'):
            nb.append('reconstruction/%s/%s' % (m.group(1), m.group(3)))
    nb += ['reconstruction/keypoints/extract_local_features.json', 'reconstruction/matches/run_matching.json',
           'reconstruction/global_features/extract_global_features.json']
    _BASE_CACHE['v10'] = (nf, sorted(nb))
    return _BASE_CACHE['v10']


def _bin_content(rel):
    if rel.endswith('.py'):
        return PLANTED_SRC.encode()
    return b'{}' if rel.endswith('.json') else b'\0' * 16


def _write_tree(root, files, bins):
    for rel, text in files.items():
        p = os.path.join(root, rel)
        os.makedirs(os.path.dirname(p), exist_ok=True)
        with open(p, 'w', encoding='utf-8', newline='') as f:
            f.write(text)
    for rel in bins:
        p = os.path.join(root, rel)
        os.makedirs(os.path.dirname(p), exist_ok=True)
        with open(p, 'wb') as f:
            f.write(_bin_content(rel))


# ---------------------------------------------------------------- worker client
class _Worker:
    def __init__(self, ctx):
        self.ctx = ctx
        self.proc = None

    def start(self):
        self.stop()
        self.proc = subprocess.Popen([kv.PY, '-B', os.path.abspath(__file__), '--worker'], stdin=subprocess.PIPE,
                                     stdout=subprocess.PIPE, stderr=subprocess.DEVNULL, env=kv.impl_env(), text=True,
                                     cwd=self.ctx['tmp'])
        # warm-up: benign and broken datasets for both operations, before the audit hook exists
        wdir = os.path.join(self.ctx['tmp'], 'warm')
        shutil.rmtree(wdir, ignore_errors=True)
        roots = []
        full, v10 = _base_full(), _base_v10()
        variants = [('load', full, None), ('upgrade', v10, [None, None, None]), ('upgrade', v10, ['a', 'b', 'c'])]
        dotted = dict(full[0])
        dotted['sensors/records_camera.txt'] = dotted['sensors/records_camera.txt'].replace('cam0/0000.jpg', 'a.b/c.jpg')
        dotted[SENSORS] = dotted[SENSORS].replace('lid0, velodyne, lidar', 'lid0, os.path.join, numpy.float32')
        variants.append(('load', (dotted, full[1]), None))
        for p in sorted(full[0]):
            broken = dict(full[0])
            broken[p] = broken[p].rstrip('\n') + '\nx, y\n!, ?, ?, ?, ?, ?, ?, ?, ?\n'
            variants.append(('load', (broken, full[1]), None))
            norows = dict(full[0]) if not os.environ.get('C16_SHOW_WARNINGS') else None
            if norows is None:
                continue
            norows[p] = '\n'.join(ln for ln in full[0][p].split('\n') if ln.startswith('#')) + '\n'
            variants.append(('load', (norows, full[1]), None))
        for p in sorted(v10[0]):
            broken = dict(v10[0])
            broken[p] = broken[p].rstrip('\n') + '\nx, y\n'
            variants.append(('upgrade', (broken, v10[1]), [None, None, None]))
        for i, (op, tree, up) in enumerate(variants):
            r = os.path.join(wdir, str(i), 'ds')
            _write_tree(r, tree[0], tree[1])
            roots.append({'op': op, 'root': r, 'up_types': up})
        self.request({'cmd': 'warm', 'roots': roots})
        self.absent = self.request({'cmd': 'hook'}).get('absent', [])
        shutil.rmtree(wdir, ignore_errors=True)

    def request(self, req):
        self.proc.stdin.write(json.dumps(req) + '\n')
        self.proc.stdin.flush()
        while True:
            line = self.proc.stdout.readline()
            if not line:
                raise RuntimeError('C16 worker died')
            if line.startswith('@@C16@@'):
                return json.loads(line[7:])

    def stop(self):
        if self.proc is not None:
            try:
                self.proc.stdin.close()
                self.proc.wait(timeout=5)
            except Exception:
                self.proc.kill()
            self.proc = None


_WORKER = {}


def _worker(ctx):
    w = _WORKER.get(ctx['tmp'])
    if w is None or w.proc is None or w.proc.poll() is not None:
        w = _Worker(ctx)
        w.start()
        _WORKER[ctx['tmp']] = w
    return w


# ---------------------------------------------------------------- payloads
_TOUCH = "__import__('pathlib').Path('%s').touch()" % MARKER
P_CODE = [
    ('code-touch', _TOUCH),
    ('code-system', "__import__('os').system('touch %s')" % MARKER),
    ('code-import', "__import__('wave')"),
    ('code-exec', "exec('import colorsys')"),
    ('code-lambda', '(lambda: float32)()'),
    ('code-expr', 'float32 if 1 else uint8'),
    ('code-arith', '1+1'),
    ('code-attr', "np.dtype('f4').type"),
    ('code-open', "open('%s'+chr(0)[:0]).close()" % MARKER),
    ('code-exit', 'exit()'),
    ('code-popen', "__import__('subprocess').Popen(['touch'] + ['%s'])" % MARKER),
    ('code-socket', "__import__('socket').socket()"),
    ('code-getattr', "getattr(np;'float32')".replace(';', ' and ')),
]
_CANON = ['float16', 'float32', 'float64', 'int8', 'int16', 'int32', 'int64', 'uint8', 'uint16', 'uint32', 'uint64',
          'float', 'int']
P_DTYPE_OK = [('dtype-ok', pre + n) for n in _CANON for pre in ('', 'np.', 'numpy.')]
P_DTYPE_NEAR = [('dtype-near', x) for x in (
    'Float32', 'FLOAT32', 'float33', 'float128', 'float_', 'double', 'single', 'half', 'bool', 'bool_', 'complex64',
    'complex', 'str', 'object', 'np.object_', 'bytes', 'np', 'numpy', 'np.', 'numpy.', 'np.np.float32',
    'numpy.np.uint8', 'np.numpy.uint8', 'nP.float32', 'np .float32', 'np. float32', 'float32.', '.float32',
    'float 32', "'float32'", '"uint8"', '<f4', 'f4', '|u1', 'dtype', 'type', 'None', 'True', '0', '4', 'uint8;',
    'uint8#', 'int0', 'intp', 'uint', 'longlong', 'np.float32.__name__', 'float32()', 'numpy.float32(1)',
    'np.uint8 ', 'floats', 'uint', 'int33', 'uint128', 'numpyfloat32', 'npfloat32',
    "dtype('float32')", "dtype('<f4')", "np.dtype('uint8')", "numpy.dtype('float64')", 'dtype(float)', "dtype('f4' or 'f8')",
    'float32(0)', 'np.float32()', 'type(float32)', 'float32.dtype', "dtype('uint8').type")]
P_PATH = [('path', x) for x in ('../../../outside', '/etc/passwd', '..', '.', '../x', 'a/../../b', 'C:\\x\\y', '~/x',
                                'sub/dir', '%s' % MARKER, '/dev/null', 'a\\b', './x')]
P_NUM = [('num', x) for x in ('9' * 5000, '1e999', '-1e999', '-0', '0x10', '1_000', '１２', 'nan', 'inf', '-inf', '1.5',
                              '1e3', '+7', '00012', '1 2', '0b1', '١٢', '1.', '.5', '1e', '--1', '1j', '2**3', '1/2',
                              '18446744073709551616', '-9223372036854775809', '1.7976931348623157e309')]
P_FMT = [('fmt', x) for x in ('{0}', '{}', '%s%s%n', '%(x)s', '{__class__}', '${HOME}', '$(touch %s)' % MARKER,
                              '`touch %s`' % MARKER, '{0.__class__.__mro__}', '\\n', '\\x00', '%d', ';', '|', '&&',
                              '> %s' % MARKER, '"', "'", '\\')]
P_MISC = [('empty', ''), ('comma', 'x, y'), ('comma', ','), ('hash', '#x'), ('hash', 'a#b'), ('unicode', 'é'),
          ('unicode', '名前'), ('unicode', '\u00a0'), ('unicode', 'a\u2003b'), ('tab', 'a\tb'), ('space', 'a b'),
          ('long', 'x' * 3000), ('nul', 'a\x00b'), ('cr', 'a\rb'), ('kw', 'camera'), ('kw', 'SIFT'), ('kw', 'rig0'),
          ('kw', 'cam0'), ('kw', 'gnss')]
# dotted names: module.attribute shapes (a loader that resolves them imports the module)
P_DOTTED = ([('dotted-stdlib', m + '.' + a) for m, a in zip(DOTTED_MODULES, ['Lidar', 'Sensor', 'X', 'Wave_read', 'Cmd', 'netrc',
                                                                             'check', 'Class', 'SymbolTable', 'FileInput',
                                                                             'getopt', 'in_table_a1', 'encode', 'Module'])]
            + [('dotted-known', x) for x in ('os.path.join', 'numpy.float32', 'kapture.Sensor', 'kapture.core.Sensors.Camera',
                                            'os.system', 'builtins.eval', 'a.b', 'a.b.c', 'x.', 'a..b', 'a.b/c.jpg')]
            + [('dotted-dataset', x) for x in ('sensors.Lidar', 'reconstruction.keypoints.SIFT', PLANTED + '.Sensor')])
P_CALL = [('call', x) for x in ("dtype('f4')", 'float(1)', 'Sensor()', "int('4')", 'str(1)', 'len(())')]
P_GENERAL = P_CODE + P_PATH + P_NUM + P_FMT + P_MISC + P_DTYPE_OK[:6] + P_DTYPE_NEAR[:6] + P_CALL
P_DTYPE_ALL = P_DTYPE_OK + P_DTYPE_NEAR + P_CODE + P_PATH[:4] + P_NUM[:4] + P_FMT[:6] + P_MISC[:6]
# K. an accepted name EMBEDDED in a longer field: the shapes that a partial match accepts (re.match without an end anchor,
#    re.search, startswith / endswith / in, a strip of "decorations" before the lookup): str(type) / repr(dtype) wrappers
#    with and without text after them, brackets, quotes, calls, attribute tails, code before / after the name
_REPR_NAMES = ['numpy.' + n for n in ('float16', 'float32', 'float64', 'int8', 'int16', 'int32', 'int64', 'uint8', 'uint16',
                                     'uint32', 'uint64')] + ['float', 'int']        # what str(type) shows between the quotes
_TAIL_CODE = ".__import__('os').system('touch %s')" % MARKER
W_REPR = ["<class '{n}'>" + _TAIL_CODE, "<class '{n}'>", "<class '{n}'>x", "<class '{n}'>.type", "<class '{n}'> or " + _TOUCH,
          "<class '{n}'>()", "<class '{n}'><class 'evil'>", "<type '{n}'>", "<type '{n}'>" + _TAIL_CODE, "<class '{n}'",
          "class '{n}'>", "<class {n}>", "<class \"{n}\">", "dtype('{n}')", "dtype({n})", "numpy.dtype('{n}').type",
          "dtype('{n}')" + _TAIL_CODE, "<{n}>", "'{n}'>", "x<class '{n}'>", _TOUCH + " or <class '{n}'>"]
W_EMBED = ['{n}' + _TAIL_CODE, '{n} or ' + _TOUCH, '{n};' + _TOUCH, _TOUCH + ' or {n}', _TOUCH + ';{n}', '({n})', '[{n}]',
           '{{n}}', "'{n}'", '"{n}"', '{n}.type', '{n}.__name__', '{n}(0)', '{n}()', '{n} x', 'x {n}', 'x{n}', '{n}x',
           '{n}\x00x', '\x00{n}', '{n}.', '.{n}', '{n}:4', '{n}=4', '{n}|{n}', '{n}.{n}', 'np.{n}.x', '{n}-', '-{n}', '{n}/x',
           '../{n}', '{n}\\', '${n}', '%{n}', '{n}\u200b', '\ufeff{n}', '{n}\u00a0x', '{n}\u3000' + _TOUCH]
# unicode look-alikes of accepted names (NFKC / casefold / \w and \d in a regular expression make them equal)
P_DTYPE_LOOKALIKE = [('dtype-lookalike', x) for x in (
    'float\uff13\uff12', '\uff46\uff4c\uff4f\uff41\uff54\uff13\uff12', 'uint\uff18', 'u\u0131nt8', 'uin\u1d6b8', 'float\u00b3\u00b2', 'int\u0668',
    '\ufb02oat32', 'np\uff0efloat32', 'numpy\u2024uint8', 'FLOAT', 'Int', 'UINT8', 'Np.uint8', 'NUMPY.float64', 'fl\u00adoat',
    'float\u0033\u20e3\u0032', '\u0130nt8', 'int\u2078')]


def _embedded(rng, wrappers, names, k):
    """k payloads per wrapper: the wrapper around an accepted name"""
    out = []
    for w in wrappers:
        for n in rng.sample(names, k):
            out.append(('dtype-repr' if ('<' in w or 'dtype(' in w) else 'dtype-embed', w.replace('{n}', n)))
    return out


_FS, _FD, _FB = '\uff0f', '\uff0e', '\uff3c'          # FULLWIDTH SOLIDUS / FULL STOP / REVERSE SOLIDUS
P_LOOKALIKE = [('lookalike', x) for x in (
    _FD * 2 + _FS + _FD * 2 + _FS + _FD * 2 + _FS + 'escaped',                 # NFKC -> ../../../escaped
    '\u2025' + _FS + '\u2025' + _FS + '\u2025' + _FS + 'esc2',                  # TWO DOT LEADER -> ..
    '\u2024\u2024' + _FS + '\u2024\u2024' + _FS + '\u2024\u2024' + _FS + 'esc3',  # ONE DOT LEADER x2
    '\ufe52\ufe52' + _FS + '\ufe52\ufe52' + _FS + '\ufe52\ufe52' + _FS + 'esc4',  # SMALL FULL STOP
    'a' + _FS + (_FD * 2 + _FS) * 4 + 'esc5',
    _FD * 2 + _FB + 'esc6', 'x\u2044y', (_FD * 2 + '\u2044') * 3 + 'esc7', (_FD * 2 + '\u2215') * 3 + 'esc8',
    _FD * 2, _FD, '\u2024\u2024', 'e\u0301tude', '\u212bngstrom', '\ufb01le', '\uff33\uff29\uff26\uff34', 'x\u00adx',
    '\u202e../x', 'a\u2215b')]
P_SIBLING = [('sibling', x) for x in ('../../../ds_v2', 'x/../../../../ds2', '../../../ds.bak/k', '../../../dsx')]
P_NAME = P_SIBLING + P_LOOKALIKE + P_PATH + P_CODE[:3] + [('empty', ''), ('name', 'SIFT'), ('name', 'r2d2_WASF-N8_20k'), ('name', 'a.b'),
                                ('name', '..x'), ('name', 'x..'), ('name', '...'), ('nul', 'a\x00b'), ('name', 'cam0'),
                                ('unicode', 'é'), ('space', 'a b'), ('name', 'keypoints.txt'), ('name', 'SIFT/'),
                                ('name', '/SIFT'), ('name', 'a//b'), ('name', '\\')]
P_VERSION = [('ver', x) for x in ('# kapture format: 1.0', '# kapture format: 1.1', '# kapture format: 2.0',
                                  '# kapture format: 1.10', '# kapture format: 1.2', '# kapture format: 0.9',
                                  '# kapture format:1.1', '# kapture format:    1.1', 'kapture format: 1.1',
                                  '# kapture format: 1.1.5', '# kapture format: 1', '# kapture format: one',
                                  '# format', '', '#', '# kapture format: 01.1', '# kapture format: 1.1 # kapture format: 9.9',
                                  'xx # kapture format: 1.1', '# kapture format: ١.١', '# KAPTURE FORMAT: 1.1',
                                  '# kapture format: %s' % _TOUCH, _TOUCH, '# kapture format: 1e1', '# kapture format: -1.1',
                                  '# kapture format: 99999999999999999999.0')]


def _data_lines(text):
    """indices of the lines of a text that the readers treat as rows"""
    lines = text.split('\n')
    return lines, [i for i, ln in enumerate(lines) if ln.strip() and not ln.startswith('#')]


def _positions(files):
    pos = []
    for p in sorted(files):
        lines, idx = _data_lines(files[p])
        for r, i in enumerate(idx):
            for c in range(len(lines[i].split(','))):
                pos.append((p, r, c))
    return pos


def _mutate(files, target, payload):
    """a copy of the files with one field (file, row, col) or one version line (file, 'ver') replaced"""
    out = dict(files)
    p = target[0]
    if target[1] == 'ver':
        lines = files[p].split('\n')
        out[p] = '\n'.join(([payload] if payload != '' else []) + lines[1:])
        return out
    lines, idx = _data_lines(files[p])
    i = idx[target[1]]
    fields = [f.strip() for f in lines[i].split(',')]
    fields[target[2]] = payload
    lines[i] = ', '.join(fields)
    out[p] = '\n'.join(lines)
    return out


_SENS = ('sensors/',)
_FEATV = ('sensors/sensors.txt', 'sensors/records_camera.txt', 'reconstruction/')


def _variant_for(rng, base, p, small_prob=0.75):
    """full dataset, or the smallest standard subset that contains the file p"""
    if rng.random() >= small_prob:
        return 'full', base
    if p.startswith('sensors/'):
        return 'sens', _subset(base, _SENS)
    return 'feat', _subset(base, _FEATV)


def gen_cases(rng, tier):
    full, v10 = _base_full(), _base_v10()
    cases = []
    big = tier != 'quick'

    def mk(op, tree, target, pcls, payload, variant, up_types=None, note=None):
        files = _mutate(tree[0], target, payload) if target is not None else dict(tree[0])
        cases.append({'op': op, 'files': files, 'bins': list(tree[1]), 'up_types': up_types,
                      'label': {'target': list(target) if target else None, 'pclass': pcls, 'payload': payload[:120],
                                'variant': variant, 'note': note}})

    # benign
    mk('load', full, None, 'benign', '', 'full')
    mk('load', _subset(full, _SENS), None, 'benign', '', 'sens')
    mk('load', _subset(full, _FEATV), None, 'benign', '', 'feat')
    mk('upgrade', v10, None, 'benign', '', 'v10', [None, None, None])
    mk('upgrade', v10, None, 'benign', '', 'v10', ['kp', 'de', 'gf'])
    mk('upgrade', _subset(v10, _SENS), None, 'benign', '', 'v10-sens', [None, None, None])

    # A. element-type field of the three kinds of descriptor files, load and upgrade
    dt_load = [(p, 0, 1) for p in sorted(full[0]) if p.startswith('reconstruction/') and p.count('/') == 3]
    dt_up = [(p, 0, 1) for p in sorted(v10[0]) if p.startswith('reconstruction/') and p.count('/') == 2
             and p.endswith(('keypoints.txt', 'descriptors.txt', 'global_features.txt'))]
    for i, (pcls, pl) in enumerate(P_DTYPE_ALL):
        for j, tgt in enumerate(dt_load):
            if big or j == i % len(dt_load) or pcls == 'code-touch':
                var, tree = _variant_for(rng, full, tgt[0], 0.85)
                mk('load', tree, tgt, pcls, pl, var)
        for j, tgt in enumerate(dt_up):
            if big or (j == i % len(dt_up) and (i % 2 == 0 or pcls.startswith('code'))) or pcls == 'code-touch':
                mk('upgrade', v10, tgt, pcls, pl, 'v10', rng.choice([[None, None, None], [None, None, None], ['k', 'd', 'g']]))
    # K. an accepted name embedded in a longer field (str(type) wrappers, text before / after, brackets, look-alikes): every
    #    wrapper on the upgrade path (rotating over the three 1.0 files, every file for the str(type)+code shape) and on the
    #    load path (rotating over the descriptor files)
    ok_names = [n for _, n in P_DTYPE_OK]
    emb = (_embedded(rng, W_REPR, _REPR_NAMES, 3 if big else 1) + _embedded(rng, W_REPR[:8], ok_names, 2 if big else 1)
           + _embedded(rng, W_EMBED, ok_names, 3 if big else 1) + P_DTYPE_LOOKALIKE)
    for i, (pcls, pl) in enumerate(emb):
        r = rng.randrange(12)
        for j, tgt in enumerate(dt_up):
            if big or j == (i + r) % len(dt_up) or pl.endswith("'>" + _TAIL_CODE):
                sub = v10 if (big and rng.random() < 0.3) else _subset(v10, ('sensors/sensors.txt', 'sensors/records_camera.txt',
                                                                             'reconstruction/keypoints/', os.path.dirname(tgt[0]) + '/'))
                mk('upgrade', sub, tgt, pcls, pl, 'v10' if sub is v10 else 'v10-one-kind',
                   [None, None, None] if (i + j) % 4 else ['k', 'd', 'g'])
        for j, tgt in enumerate(dt_load):
            if big or j == (i + r) % len(dt_load):
                var, tree = _variant_for(rng, full, tgt[0], 0.9)
                mk('load', tree, tgt, pcls, pl, var)
    # dsize and the other columns of the descriptor files
    for tgt0 in dt_load + dt_up:
        p = tgt0[0]
        ncol = len(_data_lines((full if tgt0 in dt_load else v10)[0][p])[0][2].split(','))
        for c in range(ncol):
            if c == 1:
                continue
            for pcls, pl in rng.sample(P_GENERAL, 6 if big else 2) + ([('num', '4'), ('num', '-3')] if c == 2 else []):
                if tgt0 in dt_load:
                    var, tree = _variant_for(rng, full, p)
                    mk('load', tree, (p, 0, c), pcls, pl, var)
                else:
                    mk('upgrade', v10, (p, 0, c), pcls, pl, 'v10', [None, None, None])
    # B. every field of every file
    for tgt in _positions(full[0]):
        for pcls, pl in rng.sample(P_GENERAL, 5 if big else 1):
            if big or rng.random() < 0.15:
                var, tree = _variant_for(rng, full, tgt[0])
                mk('load', tree, tgt, pcls, pl, var)
    for tgt in _positions(v10[0]):
        for pcls, pl in rng.sample(P_GENERAL, 3 if big else 1):
            if big or rng.random() < 0.2:
                mk('upgrade', v10, tgt, pcls, pl, 'v10', rng.choice([[None, None, None], ['k', 'd', 'g']]))
    # G. dotted names (module.Name) in EVERY field of every file, rotating through the candidates
    dotted = [x for x in P_DOTTED if x[0] != 'dotted-dataset' or big]
    for i, tgt in enumerate(_positions(full[0])):
        for j in range(3 if big else 1):
            pcls, pl = dotted[(i + 5 * j + rng.randrange(len(dotted))) % len(dotted)] if j else \
                (('dotted-stdlib', P_DOTTED[i % len(DOTTED_MODULES)][1]) if tgt[0] == SENSORS or i % 2 == 0
                 else dotted[rng.randrange(len(dotted))])
            var, tree = _variant_for(rng, full, tgt[0], 0.9)
            mk('load', tree, tgt, pcls, pl, var)
    for i, tgt in enumerate(_positions(v10[0])):
        if big or tgt[0] == SENSORS or rng.random() < 0.15:
            pcls, pl = (('dotted-stdlib', P_DOTTED[i % len(DOTTED_MODULES)][1]) if i % 2 == 0 else dotted[rng.randrange(len(dotted))])
            mk('upgrade', v10 if rng.random() < 0.3 else _subset(v10, _SENS if tgt[0].startswith('sensors/') else _FEATV), tgt,
               pcls, pl, 'v10', [None, None, None])
    # the dataset ships a python file and its folder is importable (cd dataset; python ...): module names of the dataset
    for i, tgt in enumerate(_positions(full[0])):
        if big or (tgt[0] == SENSORS and tgt[2] == 2) or rng.random() < 0.06:
            for pl in ((PLANTED + '.Sensor', 'sensors.Lidar') if (big or (tgt[0] == SENSORS and tgt[2] == 2)) else (PLANTED + '.Sensor',)):
                var, tree = _variant_for(rng, full, tgt[0], 0.9)
                mk('load', (tree[0], list(tree[1]) + [PLANTED + '.py']), tgt, 'dotted-dataset', pl, var + '+py')
                cases[-1]['importable'] = True
    for i, tgt in enumerate(_positions(v10[0])):
        if (big and i % 3 == 0) or (tgt[0] == SENSORS and tgt[2] == 2):
            mk('upgrade', (v10[0], list(v10[1]) + [PLANTED + '.py']), tgt, 'dotted-dataset', PLANTED + '.Sensor', 'v10+py',
               [None, None, None])
            cases[-1]['importable'] = True
    # C. version lines
    for p in sorted(full[0]):
        vs = P_VERSION if (p == SENSORS or big) else rng.sample(P_VERSION, 1)
        for pcls, pl in vs:
            var, tree = _variant_for(rng, full, p)
            mk('load', tree, (p, 'ver'), pcls, pl, var)
    for p in sorted(v10[0]):
        for pcls, pl in (P_VERSION if (big or p == SENSORS) else rng.sample(P_VERSION, 1)):
            mk('upgrade', v10, (p, 'ver'), pcls, pl, 'v10', [None, None, None])
    # D. the name field of the 1.0 descriptor files becomes a folder name during the upgrade
    for tgt0 in dt_up:
        for pcls, pl in P_NAME:
            if big or pcls == 'sibling' or (pcls == 'lookalike' and (rng.random() < 0.5 or pl.endswith('escaped'))) or rng.random() < 0.4:
                mk('upgrade', v10, (tgt0[0], 0, 0), pcls, pl, 'v10', [None, None, None])
        for pcls, pl in rng.sample(P_NAME, 3):
            mk('upgrade', v10, (tgt0[0], 0, 0), pcls, pl, 'v10', ['k', 'd', 'g'])
    # H. feature-type FOLDERS whose names look like path syntax after unicode normalisation, with a decoy descriptor file
    #    where a normalised name would lead (next to the dataset folder, inside the sandbox)
    cfgs = {'keypoints': 'X, uint8, 2', 'descriptors': 'X, uint8, 2, SIFT, L2', 'global_features': 'X, int64, 2, L2'}
    for kind, cfg in cfgs.items():
        for j, (pcls, nm) in enumerate(P_LOOKALIKE):
            if '/' in nm or '\\' in nm or not (big or j < 4 or j % 3 == rng.randrange(3)):
                continue
            tree = _subset(full, _FEATV)
            files = dict(tree[0])
            files['reconstruction/%s/%s/%s.txt' % (kind, nm, kind)] = '# kapture format: 1.1\n# x\n' + cfg.replace('X', 'u') + '\n'
            esc = nm.translate({0xff0f: '/', 0xff0e: '.', 0x2024: '.', 0xfe52: '.', 0x2025: '..'}).split('/')[-1]
            cases.append({'op': 'load', 'files': files, 'bins': list(tree[1]), 'up_types': None,
                          'outside': {'%s/%s.txt' % (esc, kind): '# kapture format: 1.1\n# x\n' + cfg.replace('X', 'decoy').replace(
                              cfg.split(', ')[1], _TOUCH) + '\n'} if (esc and esc != nm and esc not in ('.', '..') and esc.isascii()) else {},
                          'label': {'target': ['reconstruction/%s/%s/%s.txt' % (kind, nm, kind), 0, 0], 'pclass': 'lookalike',
                                    'payload': nm, 'variant': 'feat+folder', 'note': 'feature folder name'}})
    # I. half-upgraded datasets (an interrupted in-place upgrade): keypoints already in 1.1 layout, the rest still 1.0
    for name in ('../../../leaked', 'SIFT', _FD * 2 + _FS + _FD * 2 + _FS + _FD * 2 + _FS + 'leaked2', _TOUCH, ''):
        for sens_ver in ('1.0', '1.1'):
            for keep in (('sensors/sensors.txt', 'reconstruction/matches/'),
                         ('sensors/sensors.txt', 'reconstruction/matches/', 'reconstruction/descriptors/', 'reconstruction/observations.txt')):
                if not big and (sens_ver == '1.1') != (len(keep) == 2):
                    continue
                sub = _subset(v10, keep)
                files = dict(sub[0])
                files[SENSORS] = files[SENSORS].replace('# kapture format: 1.0', '# kapture format: ' + sens_ver)
                files['reconstruction/keypoints/SIFT/keypoints.txt'] = '# kapture format: 1.1\n# name, dtype, dsize\n%s, float32, 4\n' % name
                cases.append({'op': 'upgrade', 'files': files, 'bins': list(sub[1]) + ['reconstruction/keypoints/SIFT/cam0/0000.jpg.kpt'],
                              'up_types': [None, None, None],
                              'label': {'target': ['reconstruction/keypoints/SIFT/keypoints.txt', 0, 0], 'pclass': 'mixed-state',
                                        'payload': name, 'variant': 'half-upgraded', 'note': 'interrupted upgrade'}})
    # J. histories: another dataset was at the same path before and was loaded by the same process
    hist = _subset(full, _FEATV)
    for kind, sub in (('keypoints', 'SIFT'), ('descriptors', 'SIFT'), ('global_features', 'APGEM')):
        p = 'reconstruction/%s/%s/%s.txt' % (kind, sub, kind)
        for pcls, pl in [('dtype-near', 'uint9'), ('code-touch', _TOUCH), ('dtype-ok', 'np.int16')] + ([('num', '-1'), ('empty', '')] if big else []):
            for col in ((1,) if not big else (0, 1, 2)):
                cases.append({'op': 'load', 'files': _mutate(hist[0], (p, 0, col), pl), 'bins': list(hist[1]), 'up_types': None,
                              'history': [{'op': 'load', 'files': dict(hist[0]), 'bins': list(hist[1])}],
                              'label': {'target': [p, 0, col], 'pclass': pcls, 'payload': pl, 'variant': 'feat+history',
                                        'note': 'same path loaded before with other content'}})
    # E. structure: one part missing, empty descriptor file, extra feature types
    for p in sorted(full[0]):
        files = {q: t for q, t in full[0].items() if q != p}
        cases.append({'op': 'load', 'files': files, 'bins': list(full[1]), 'up_types': None,
                      'label': {'target': None, 'pclass': 'missing', 'payload': p, 'variant': 'full', 'note': 'file removed'}})
        files = dict(full[0])
        files[p] = '\n'.join(ln for ln in full[0][p].split('\n') if ln.startswith('#')) + '\n'
        cases.append({'op': 'load', 'files': files, 'bins': list(full[1]), 'up_types': None,
                      'label': {'target': None, 'pclass': 'norows', 'payload': p, 'variant': 'full', 'note': 'no data rows'}})
    for p in sorted(v10[0]):
        files = {q: t for q, t in v10[0].items() if q != p}
        cases.append({'op': 'upgrade', 'files': files, 'bins': list(v10[1]), 'up_types': [None, None, None],
                      'label': {'target': None, 'pclass': 'missing', 'payload': p, 'variant': 'v10', 'note': 'file removed'}})
    # 1.0 datasets with global features (or descriptors) but no keypoints
    for keep, up in ((('sensors/', 'reconstruction/global_features/'), [None, None, None]),
                     (('sensors/', 'reconstruction/global_features/'), [None, None, 'gf']),
                     (('sensors/', 'reconstruction/descriptors/'), [None, None, None]),
                     (('sensors/sensors.txt', 'reconstruction/matches/', 'reconstruction/observations.txt'), [None, None, None]),
                     (('sensors/sensors.txt', 'reconstruction/matches/', 'reconstruction/observations.txt'), ['kp', None, None])):
        sub = _subset(v10, keep)
        mk('upgrade', sub, None, 'benign', '', 'v10-nokp', up, 'no keypoints')
        for p in sorted(sub[0]):
            if p.startswith('reconstruction/') and p.count('/') == 2:
                for pcls, pl in [('code-touch', _TOUCH), ('path', '../../../outside'), ('dtype-ok', 'np.int8')]:
                    mk('upgrade', sub, (p, 0, 0 if pcls == 'path' else 1), pcls, pl, 'v10-nokp', up, 'no keypoints')
    for kind, cfg in (('keypoints', 'X, uint8, 2'), ('descriptors', 'X, uint8, 2, SIFT, L2'), ('global_features', 'X, int64, 2, L2')):
        for pcls, pl in [('dtype-ok', 'np.float64'), ('code-touch', _TOUCH), ('dtype-near', 'bool')]:
            files = dict(full[0])
            for extra in ('A0', 'zz', 'SIFT2'):
                files['reconstruction/%s/%s/%s.txt' % (kind, extra, kind)] = \
                    '# kapture format: 1.1\n# x\n' + cfg.replace('X', extra) + '\n'
            files['reconstruction/%s/%s/%s.txt' % (kind, 'zz', kind)] = \
                '# kapture format: 1.1\n# x\n' + cfg.replace('X', 'zz').replace(cfg.split(', ')[1], pl) + '\n'
            cases.append({'op': 'load', 'files': files, 'bins': list(full[1]), 'up_types': None,
                          'label': {'target': ['reconstruction/%s/zz/%s.txt' % (kind, kind), 0, 1], 'pclass': pcls,
                                    'payload': pl, 'variant': 'full+types', 'note': 'several feature types'}})
    # F. several fields at once (malformed stream)
    pos_full, pos_v10 = _positions(full[0]), _positions(v10[0])
    for _ in range(300 if big else 20):
        op = rng.choice(['load', 'load', 'upgrade'])
        base, pos = (full, pos_full) if op == 'load' else (v10, pos_v10)
        files = base[0]
        tg = None
        for _ in range(rng.randint(2, 4)):
            tg = rng.choice(pos)
            try:
                files = _mutate(files, tg, rng.choice(P_GENERAL)[1])
            except IndexError:
                pass
        cases.append({'op': op, 'files': files, 'bins': list(base[1]),
                      'up_types': [None, None, None] if op == 'upgrade' else None,
                      'label': {'target': None, 'pclass': 'multi', 'payload': '', 'variant': 'full' if op == 'load' else 'v10',
                                'note': 'several fields'}})
    return [c for c in cases if not _name_too_long(c)]


def _name_too_long(case):
    """upgrade inputs whose name field (a future folder name) exceeds what the host file system accepts as one
    component are left out: NAME_MAX is a property of the host, not of kapture"""
    if case['op'] != 'upgrade':
        return False
    for kind, (dname, cfg, _, _) in FEAT.items():
        t = case['files'].get('%s/%s' % (dname, cfg))
        if t is not None:
            lines, idx = _data_lines(t)
            if idx and len(lines[idx[0]].split(',')[0].strip().encode('utf-8')) > 200:
                return True
    return False


# ---------------------------------------------------------------- running one case
def _snapshot(base):
    snap = {}
    for d, dirs, files in os.walk(base):
        for n in files:
            p = os.path.join(d, n)
            try:
                with open(p, 'rb') as f:
                    snap[os.path.relpath(p, base)] = f.read()
            except OSError:
                snap[os.path.relpath(p, base)] = None
        for n in dirs:
            snap[os.path.relpath(os.path.join(d, n), base) + '/'] = 'dir'
    return snap


_FORBIDDEN = ('Spawn', 'Import', 'Eval', 'Net')


_DISK = {}      # sandbox -> what the last snapshot found there (so that the next case only writes the differences)


def _desired(case):
    want = {}
    for rel, text in case['files'].items():
        want['ds/' + rel] = text.encode('utf-8')
    for rel in case['bins']:
        want['ds/' + rel] = _bin_content(rel)
    for rel, text in (case.get('outside') or {}).items():      # decoys next to the dataset folder, inside the sandbox
        want[rel] = text.encode('utf-8')
    dirs = {'ds/'}
    for rel in want:
        parts = rel.split('/')[:-1]
        for i in range(1, len(parts) + 1):
            dirs.add('/'.join(parts[:i]) + '/')
    for d in dirs:
        want[d] = 'dir'
    return want


def _sync(base, want):
    """make the sandbox equal to [want], touching only what differs from the last snapshot of it"""
    have = _DISK.get(base)
    if have is None or not os.path.isdir(base):
        shutil.rmtree(base, ignore_errors=True)
        os.makedirs(base)
        have = {}
    for rel in sorted((k for k in have if k not in want or (want[k] == 'dir') != (have[k] == 'dir')), key=len, reverse=True):
        p = os.path.join(base, rel.rstrip('/'))
        if have[rel] == 'dir' and not os.path.islink(p):
            shutil.rmtree(p, ignore_errors=True)
        else:
            try:
                os.unlink(p)
            except OSError:
                pass
        have = {k: v for k, v in have.items() if not (k == rel or (rel.endswith('/') and k.startswith(rel)))}
    for rel in sorted(k for k, v in want.items() if v == 'dir' and k not in have):
        os.makedirs(os.path.join(base, rel.rstrip('/')), exist_ok=True)
    for rel, data in want.items():
        if data != 'dir' and have.get(rel) != data:
            with open(os.path.join(base, rel), 'wb') as f:
                f.write(data)
    _DISK[base] = dict(want)


def _run_once(case, ctx):
    base = os.path.join(ctx['tmp'], 'c')
    root = os.path.join(base, 'ds')
    w = _worker(ctx)
    # history: datasets that were at the SAME path before and were loaded by the same process (not judged); what the
    # implementation does with the case's dataset must not depend on them
    for h in case.get('history') or []:
        _sync(base, _desired({'files': h['files'], 'bins': h.get('bins', []), 'outside': case.get('outside')}))
        try:
            w.request({'cmd': 'case', 'op': h.get('op', 'load'), 'root': root, 'base': base, 'up_types': None, 'importable': False})
        except Exception:
            w.stop()
            w = _worker(ctx)
        _DISK[base] = _snapshot(base)
    before = _desired(case)
    _sync(base, before)
    try:
        res = w.request({'cmd': 'case', 'op': case['op'], 'root': root, 'base': base, 'up_types': case.get('up_types'),
                         'importable': bool(case.get('importable'))})
    except Exception as e:
        w.stop()
        marker = os.path.lexists(os.path.join(base, MARKER))
        _DISK.pop(base, None)
        shutil.rmtree(base, ignore_errors=True)
        return {'died': str(e), 'outcome': 'error', 'exc': 'the interpreter running the implementation terminated',
                'effects': [['Eval', None, 'interpreter terminated']], 'dir_events': [], 'leaf_events': [],
                'marker': marker, 'changed': [], 'changed_outside': [], 'leaves': None, 'new_modules': [], 'leaf_modules': []}
    after = _snapshot(base)
    _DISK[base] = after
    marker = os.path.lexists(os.path.join(base, MARKER)) or os.path.lexists(os.path.join(root, MARKER))
    changed = sorted(k for k in set(before) | set(after) if before.get(k) != after.get(k))
    changed_outside = [k for k in changed if not (k == 'ds/' or k.startswith('ds/'))]
    effects, seen, dir_events, machinery = [], set(), [], []
    for kind, rel, detail in res['events']:
        if kind in ('Read', 'Write', 'Delete'):
            key = (kind, rel)
        elif kind in _FORBIDDEN:
            key = (kind, None)
        elif kind == 'Machinery':
            machinery.append(rel)
            continue
        else:
            dir_events.append([kind, rel, detail])
            continue
        if key not in seen:
            seen.add(key)
            effects.append([kind, rel, detail])
    new_modules = res.get('new_modules', [])
    if new_modules and ('Import', None) not in seen:
        # the import machinery raises no "import" event for importlib.import_module: the growth of sys.modules does
        effects.append(['Import', None, 'sys.modules grew: ' + ','.join(new_modules[:4])])
    obs = {'outcome': res['outcome'], 'exc': res['exc'], 'effects': effects, 'dir_events': dir_events,
           'new_modules': new_modules, 'leaf_modules': res.get('leaf_modules', []), 'machinery': machinery[:10],
           'leaf_events': res['leaf_events'], 'marker': marker, 'changed': changed[:40],
           'changed_outside': changed_outside[:10], 'leaves': res['leaves']}
    return obs


_DOTTED_RE = re.compile(r'[A-Za-z_][A-Za-z0-9_]*(?:\.[A-Za-z_][A-Za-z0-9_]*)*')


def _content_names(case):
    """every dotted name occurring in the text files of the case (and the stems of shipped python files), with all
    its prefixes: the module names a loader could possibly have taken from the contents"""
    names = set()
    for text in case['files'].values():
        for m in _DOTTED_RE.findall(text):
            parts = m.split('.')
            for i in range(1, len(parts) + 1):
                names.add('.'.join(parts[:i]))
    for b in case['bins']:
        if b.endswith('.py'):
            names.add(os.path.basename(b)[:-3])
    return names


def _only_environmental(case, obs):
    """True when everything suspicious in the observation can be a ONE-TIME side effect of the interpreter or of a
    library using one of its own parts for the first time (lazy import of a module whose name does not occur in the
    dataset, reading / unmarshalling / executing library files for it) rather than something the contents caused.
    Such an observation is not judged: the case is run again in the same interpreter, where one-time effects are
    gone while anything caused by the contents (evaluation, opening a path, spawning) happens again; an import of a
    module NAMED IN THE DATASET is never environmental."""
    if obs.get('died') or obs['marker'] or obs['changed_outside']:
        return False
    suspicious = False
    fields = None
    names = None
    for mod in list(obs.get('new_modules', [])) + list(obs.get('leaf_modules', [])):
        names = _content_names(case) if names is None else names
        if mod in names:
            return False
        suspicious = True
    for kind, rel, detail in obs['effects'] + [[k, r, d] for k, r, d in obs['leaf_events']]:
        if kind in ('Spawn', 'Net'):
            return False
        if kind == 'Import':
            names = _content_names(case) if names is None else names
            mod = detail if not detail.startswith('sys.modules grew') else None
            if mod is not None and mod in names:
                return False
            suspicious = True
        elif kind == 'Eval':
            if detail.startswith('compile:'):
                src = detail[len('compile:'):]
                if fields is None:
                    fields = {x[:80] for lv in [obs['leaves']] if lv for t in lv['tables'].values() for r in t for x in r}
                if src in fields or not src.strip():
                    return False        # a field of the dataset was compiled
            suspicious = True
        elif kind == 'Read' and _outside(rel):
            if not (rel or '').endswith(('.py', '.pyc', '.so', '.pyi', '.pth')):
                return False
            suspicious = True
    return suspicious


def run_impl(case, ctx):
    obs = _run_once(case, ctx)
    w = _WORKER.get(ctx['tmp'])
    if w is not None and w.proc is not None and _only_environmental(case, obs):
        first = {'effects': [e for e in obs['effects'] if e[0] not in ('Write', 'Delete') and not (e[0] == 'Read' and not _outside(e[1]))],
                 'new_modules': obs.get('new_modules'), 'leaf_modules': obs.get('leaf_modules'), 'leaf_events': obs['leaf_events'][:6]}
        obs = _run_once(case, ctx)          # same interpreter: what was a first-use side effect does not come back
        obs['rerun_after'] = first
    if obs.get('died'):
        return obs
    if w is not None and (obs['marker'] or obs.get('new_modules') or obs.get('leaf_modules') or any(
            k in ('Spawn', 'Import', 'Net') or
            (k == 'Eval' and d.startswith('compile:') and not re.fullmatch(r'compile:[A-Za-z0-9_.]*', d))
            for k, _, d in obs['effects'] + obs['leaf_events'])):
        w.stop()          # whatever ran may have changed the interpreter state: next case gets a fresh worker
    return obs


def _outside(rel):
    return rel is None or rel == '..' or rel.startswith('../') or rel.startswith('/')


def _dtype_status(field):
    import numpy as np
    name = field
    for prefix in ('numpy.', 'np.'):
        if name.startswith(prefix):
            name = name[len(prefix):]
            break
    if name in _CANON:
        return 'canonical'
    if re.fullmatch(r'[A-Za-z_][A-Za-z0-9_]*', name) and (
            name in ('bool', 'complex', 'str', 'bytes', 'object') or isinstance(getattr(np, name, None), type)):
        return 'maybe'
    return 'invalid'


def _processed_configs(case, obs):
    """(path, element-type field) of the descriptor files a completed run must have gone through"""
    lv = obs['leaves']
    out = []
    if case['op'] == 'load':
        if lv['vclass'].get(SENSORS) != 'cur':
            return out
        for kind, (dname, cfg, _, _) in FEAT.items():
            for name in lv['dirs'].get(dname, []):
                p = '%s/%s/%s' % (dname, name, cfg)
                if p in lv['tables']:
                    out.append((p, lv['tables'][p]))
    else:
        for kind, (dname, cfg, _, _) in FEAT.items():
            p = '%s/%s' % (dname, cfg)
            if dname in lv.get('isdir', []) and p in lv['tables']:
                out.append((p, lv['tables'][p]))
    return [(p, t[0][1] if t and len(t[0]) > 1 else None) for p, t in out]


def oracle(case, obs):
    """The property on the observed behaviour, independent of the Coq model."""
    if obs.get('died'):
        return 'the interpreter terminated while the dataset was read (content executed?)'
    if obs['marker']:
        return 'file content was executed: the marker file of the payload was created'
    if obs.get('new_modules'):
        return 'module(s) imported while %s: sys.modules grew' % ('loading' if case['op'] == 'load' else 'upgrading')
    if obs.get('leaf_modules'):
        return 'a leaf converter imports a module: sys.modules grew'
    for kind, rel, detail in obs['effects']:
        if kind in _FORBIDDEN:
            return 'forbidden effect %s (%s) while %s' % (kind, detail.split(':')[0], 'loading' if case['op'] == 'load' else 'upgrading')
    for kind, rel, detail in obs['effects'] + obs['dir_events']:
        if kind == 'HookError':
            return 'audit hook failed: ' + str(detail)
        if _outside(rel):
            if kind in ('Write', 'Delete', 'WriteDir', 'DeleteDir'):
                return 'modifies a path outside the dataset directory (%s %s)' % (kind, detail)
            return 'accesses a path outside the dataset directory (%s %s)' % (kind, detail)
        if case['op'] == 'load' and kind in ('Write', 'Delete', 'WriteDir', 'DeleteDir'):
            return 'loading modifies the dataset (%s %s)' % (kind, rel)
    if obs['leaf_events']:
        return 'a leaf converter has an effect: %s' % obs['leaf_events'][0][:2]
    if obs['changed_outside']:
        return 'something outside the dataset directory changed on disk: ' + obs['changed_outside'][0]
    if case['op'] == 'load' and obs['changed']:
        return 'loading changed the dataset on disk: ' + obs['changed'][0]
    if obs['outcome'] == 'value':
        for p, field in _processed_configs(case, obs):
            if field is None or _dtype_status(field) == 'invalid':
                return 'invalid element type accepted without an error in ' + re.sub(r'/[^/]+/([a-z_]+\.txt)$', r'/*/\1', p)
    return None


# ---------------------------------------------------------------- Coq encoding
def _cpath(rel):
    return kv.clist(kv.cstr(x) for x in rel.split('/'))


_VC = {'none': 'VNone', 'newer': 'VNewer', 'cur': 'VCur', 'v10': 'V10', 'old': 'VOld'}


def _crows(rows):
    return kv.clist(kv.clist(kv.cstr(x) for x in r) for r in rows)


def encode(case, obs):
    lv = obs['leaves']
    if lv is None or lv['undecodable']:
        raise ValueError('undecodable text file in the case')
    files = kv.clist(kv.cpair(_cpath(p), '{| f_ver := %s; f_rows := %s |}' % (_VC[lv['vclass'][p]], _crows(lv['tables'][p])))
                     for p in sorted(lv['tables']))
    if case['op'] == 'load':
        dirs = kv.clist(kv.cpair(_cpath(d), kv.clist(kv.cstr(n) for n in names)) for d, names in sorted(lv['dirs'].items()))
        moves, js = '[]', '[]'
        op = 'OLoad'
    else:
        dirs = kv.clist(kv.cpair(_cpath(d), '[]') for d in lv['isdir'])
        moves = kv.clist(kv.cpair(_cpath(d), kv.clist(_cpath(r) for r in rels)) for d, rels in sorted(lv['moves'].items()))
        js = kv.clist(_cpath(j) for j in lv['json'])
        op = '(OUpgrade %s %s %s)' % tuple(kv.copt(None if x is None else kv.cstr(x)) for x in case['up_types'])
    tree = ('{| t_files := %s; t_dirs := %s; t_p3d_ok := %s; t_kpt := %s; t_moves := %s; t_json := %s |}' % (
        files, dirs, kv.cbool(lv['p3d_ok']), kv.clist(kv.cpair(kv.cstr(k), kv.cstr(im)) for k, im in lv['kp_exists']),
        moves, js))
    recs = kv.clist(kv.cpair(kv.cstr(k), kv.clist(kv.cstr(x) for x in r)) for k in REC_KINDS for r in lv['rec_ok'][k])
    effs = []
    for kind, rel, _ in obs['effects']:
        effs.append('%s %s' % (kind, _cpath(rel)) if kind in ('Read', 'Write', 'Delete') else kind)
    return ('{| c_op := %s; c_tree := %s; c_int := %s; c_float := %s; c_sensor := %s; c_pose := %s; c_rec := %s; '
            'o_error := %s; o_effects := %s |}' % (
                op, tree, kv.clist(kv.cstr(x) for x in lv['ints']), kv.clist(kv.cstr(x) for x in lv['floats']),
                kv.clist(kv.clist(kv.cstr(x) for x in r) for r in lv['sensor_ok']),
                kv.clist(kv.clist(kv.cstr(x) for x in r) for r in lv['pose_ok']), recs,
                kv.cbool(obs['outcome'] == 'error'), kv.clist(effs)))


def _target_file(case):
    t = case['label'].get('target')
    return t[0] if t else None


def nontrivial(case, obs):
    tf = _target_file(case)
    if tf is None:
        return case['label']['pclass'] != 'benign'
    return any(kind == 'Read' and rel == tf for kind, rel, _ in obs['effects'])


def classify(case, obs):
    tf = _target_file(case)
    kind = 'none' if tf is None else os.path.basename(tf)[:-4]
    t = case['label'].get('target')
    col = '' if not t else ('/ver' if t[1] == 'ver' else '/c%d' % t[2])
    extra = ('+machinery-reads' if obs.get('machinery') else '') + ('+rerun' if obs.get('rerun_after') else '')
    return '%s/%s%s/%s/%s%s' % (case['op'], kind, col if kind in FEAT else '', case['label']['pclass'].split('-')[0],
                                obs['outcome'], extra)


def describe(case, obs):
    return {'op': case['op'], 'label': case['label'], 'up_types': case.get('up_types'),
            'files': sorted(case['files']), 'observed': {'outcome': obs['outcome'], 'exc': obs['exc'],
                                                         'effects': [e[:2] for e in obs['effects']][:12], 'marker': obs['marker']}}


def shrink(case):
    tf = _target_file(case)
    for p in sorted(case['files']):
        if p == SENSORS or p == tf:
            continue
        c = dict(case)
        c['files'] = {q: t for q, t in case['files'].items() if q != p}
        d = os.path.dirname(p)
        c['bins'] = [b for b in case['bins'] if not (p.startswith('reconstruction/') and p.count('/') >= 2 and b.startswith(d + '/'))]
        yield c
    if case['bins']:
        c = dict(case)
        c['bins'] = []
        yield c


LEVEL_TEXT = ('Theorems in coq/Props/C16.v hold for every directory tree (any rows of any fields in any file, any version line, '
              'any folder listing of plain names) and for every choice of the pure leaf converters: every effect of the load '
              'model is a Read of a path under the root, taken from a set of candidate paths fixed by the directory shape alone; '
              'every effect of the upgrade model is a Read/Write/Delete under the root; no Eval/Spawn/Import/Net exists in either; '
              'parse_dtype accepts exactly the 13 whitelisted names (optionally prefixed np./numpy.), round-trips what the writers '
              'emit, accepts no string with a byte outside a-z 0-9 . (so no wrapper, bracket, quote, call, upper case or unicode '
              'look-alike around an accepted name), no text after an accepted name but the digits of another one and none before it but '
              'np. / numpy. / u; a descriptor file with any other element type makes the load end in Error (EBadDtype file field) and '
              'an upgrade that returns a value found a whitelisted element type in each 1.0 descriptor file it converted. On a probe '
              'universe of ~4500 candidate fields handed to the four real readers on this run (Gen/Tdtypes.v) the code accepts '
              'exactly what parse_dtype accepts (kernel evaluation). The model '
              'is tied to the code by running kapture_from_dir / upgrade_1_0_to_1_1_inplace in a subprocess under an audit hook on '
              'datasets with crafted fields and comparing effect trace and outcome class inside Coq.')
LEVEL_NOTE = ('Partial with respect to the runtime: effects that raise no audit event (stat probes of content-derived paths, '
              'C-level I/O) are not observed; leaf converters are abstract pure functions whose purity is sampled, not proved; '
              'directory-level events are judged by the oracle only. tar handlers, skip_list, pairs file and the orphan-features '
              'upgrade are not modelled.')
