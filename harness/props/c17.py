"""C17 — an archive is unpacked and marked installed only if its SHA-256 matches.
Implementation under test: tools/kapture_download_dataset.py (InstallDir, Dataset.prob_status / download /
install), kapture/converter/downloader/download.py, kapture/converter/downloader/archives.py.

No source hooks: the network is replaced from outside by patching requests.Session.request (everything in
`requests` goes through it) with a scripted adversarial server; untar_file is wrapped by a recorder (and in
'real' mode still called on real tar.gz archives); the 1.0->1.1 upgrade entry points are replaced by a recorder."""
import hashlib
import io
import itertools
import logging
import os
import re
import shutil
import tarfile
import types

import kv

ID = 'C17'
COQ_MODELS = ['MDownload']
COQ_HEADER = 'From KV Require Import Eqb Str.\nFrom KV.Model Require Import MDownload.'
CASE_TYPE = 'MDownload.case'
CHECK_FN = 'MDownload.check_case'
SHARD_SIZE = 200
CASE_TIMEOUT = 30
RULE = ('case = prior local state (archive file: absent / empty / proper prefix / same-size corrupt / longer / '
        'complete-correct / complete-but-other; installed index: file absent / empty / other names / stale marker; '
        'stray files next to the archive such as <archive>.sha256 / .ok / .part) + a HISTORY of 1..4 calls (install, '
        'download or list = prob_status; force, no_cleaning, untar ok / raises / real tar) run on the SAME install '
        'directory with nothing cleaned in between, by a new InstallDir object per call or by ONE InstallDir object '
        'that lives across calls (datasets loaded again from the index file for every call), the index file being '
        'RE-PUBLISHED with another checksum between calls in part of the histories (each call is judged against the '
        'checksum the file publishes at that moment), each call against its own adversarial server given as two '
        'scripts consumed in order: '
        'size probes (true size, absent header, header without total, wrong totals incl. 0 and negative, unparsable '
        'total, connection error) and GETs (good or substituted content incl. same length / different bytes; Range '
        'honoured or ignored; truncation, bit flip at any offset, trailing bytes, HTTP error page, connection error, '
        'exception in mid stream).  The model is iterated over the history carrying only archive bytes and index; '
        'every step is compared and judged.  Non-trivial = the server is contacted at least once AND (more than one '
        'call OR a fault is injected OR a prior archive / marker exists).  distinct = distinct case dicts.  thorough: '
        'additionally EXHAUSTIVE (single call) over {archives of 0..4 bytes} x {all prior archive states above} x '
        '{5 constant probe policies} x {per-attempt GET policy: honest, Range ignored, substituted content (with / '
        'without Range), trailing byte, connection error, truncation / bit flip / mid-stream exception at every '
        'offset}^2.')
TRUSTED = ['hashlib.sha256 as the reference digest in the oracle and in the sha table handed to the model '
           '(kapture.compute_sha256sum is the code under test and is NOT used by the harness)',
           'the fake server: requests.Session.request replaced by harness code building real requests.Response objects',
           'host file system semantics of open(wb/ab)/os.remove/os.path.getsize',
           'yaml.safe_load / yaml.dump of a list of names (installed index)']
ASSUMPTIONS = ['single process, no concurrent modification of the install directory between the sha check and '
               'the extraction (no TOCTOU adversary on the local disk)',
               'install_script_filename is None (the optional post-install script is outside the property)',
               'the installed index file, when present, holds a YAML list of names (or is empty)',
               'an extraction failure (untar_file raising) on a VERIFIED archive is a local fault, not a server '
               'behaviour: the property then requires only that nothing is marked installed',
               'C17_any_history / C17_any_history_republished: the only state the model carries from one call to the next '
               'is the archive file and the installed index; the harness runs whole histories on one directory, also with '
               'one InstallDir object kept alive across calls and across re-publications of the index file, so that any '
               'other persistent state of the implementation (on disk or in the object) that changes a later call shows '
               'up as a mismatch / oracle failure',
               'a Dataset object is not kept across a re-publication of the index (it holds the checksum it was built '
               'with); datasets are obtained from InstallDir.load_datasets_from_file for every call, as the tool does',
               'the installed-index file is not modified behind the back of a live InstallDir object (it caches the set)',
               'adaptive servers are covered because the client is deterministic: a server strategy is a function of '
               'the request history, which is what the Coq theorems quantify over']
EXHAUSTIVE = {'quick': False, 'thorough': True}
NAME = 'ds_a'
URL = 'http://kv.invalid/kapture/ds_a.tar.gz'
OTHERS = ['other_1', 'zz_other']


class FakeConnError(Exception):
    pass


class FakeStreamError(Exception):
    pass


class HarnessSurprise(Exception):
    pass


def H(b):
    return b.hex()


def B(h):
    return bytes.fromhex(h)


def sha(b):
    return hashlib.sha256(b).hexdigest()


# ------------------------------------------------------------------ real tiny archives
def make_tar(seed):
    """A real tar.gz holding <NAME>/sensors/sensors.txt (format 1.0) and a payload file; deterministic."""
    buf = io.BytesIO()
    with tarfile.open(fileobj=buf, mode='w:gz', format=tarfile.GNU_FORMAT) as tf:
        for rel, data in [(f'{NAME}/sensors/sensors.txt', b'# kapture format: 1.0\n'),
                          (f'{NAME}/payload.bin', bytes((seed * 7 + i) % 251 for i in range(40 + seed % 5)))]:
            ti = tarfile.TarInfo(rel)
            ti.size = len(data)
            ti.mtime = 0
            tf.addfile(ti, io.BytesIO(data))
    raw = bytearray(buf.getvalue())
    raw[4:8] = b'\0\0\0\0'     # gzip mtime
    return bytes(raw)


# ------------------------------------------------------------------ generator
def P(kind, *a):
    return [kind] + list(a)


def G(src='good', rng='honour', cut=None, flip=None, extra='', stream_err=False, conn=False, http=200):
    return {'src': src, 'range': rng, 'cut': cut, 'flip': flip, 'extra': extra, 'stream_err': stream_err,
            'conn': conn, 'http': http}


STEP_KEYS = ('kind', 'force', 'no_cleaning', 'untar', 'via', 'probes', 'gets', 'probe_default', 'get_default', 'chunk',
             'expected', 'session')


def S(kind='install', force=False, nc=False, untar='fake', via='dataset', probes=(), gets=(),
      probe_default=None, get_default=None, chunk=None, expected=None, session='new'):
    """one call (`install`, `download` or `list` = prob_status) of a history, with its own server scripts.
    expected: the checksum the index file publishes when the call is made (None = the case's, 'good' / 'alt' = digest
    of that content, else a literal); the index file is re-published before the call when it differs from what the
    file holds.  session: 'new' = a fresh InstallDir object (a new process), 'same' = the InstallDir object of the
    previous call is used again (a long-running program), the datasets being loaded again from the index file."""
    return {'kind': kind, 'force': force, 'no_cleaning': nc, 'untar': untar, 'via': via,
            'probes': [list(p) for p in probes], 'gets': [dict(g) for g in gets],
            'probe_default': list(probe_default or P('true')), 'get_default': dict(get_default or G()),
            'chunk': chunk, 'expected': expected, 'session': session}


def step_expected(case, step):
    e = step.get('expected')
    if e is None:
        return case['expected']
    if e in ('good', 'alt'):
        return sha(B(case[e]))
    return e


def hist(good, steps, alt=None, prior=None, index=None, stray=(), expected=None, tag=''):
    """a case: prior local state + a history of calls on the same install directory"""
    return {'good': H(good), 'alt': H(alt if alt is not None else bytes(reversed(good)) + b'!'),
            'expected': expected if expected is not None else sha(good),
            'prior_archive': None if prior is None else H(prior), 'prior_index': index,
            'stray': [list(x) for x in stray], 'steps': [dict(t) for t in steps], 'tag': tag}


def mk(good, alt=None, prior=None, index=None, force=False, nc=False, untar='fake', probes=(), gets=(),
       probe_default=None, get_default=None, expected=None, via='dataset', chunk=None, tag='', stray=()):
    """a single-call case"""
    return hist(good, [S('install', force, nc, untar, via, probes, gets, probe_default, get_default, chunk)],
                alt=alt, prior=prior, index=index, stray=stray, expected=expected, tag=tag)


def normalise(case):
    """accept the older single-call layout (flags and scripts at top level)"""
    if 'steps' in case:
        case.setdefault('stray', [])
        for t in case['steps']:
            t.setdefault('expected', None)
            t.setdefault('session', 'new')
        return case
    c = {k: v for k, v in case.items() if k not in STEP_KEYS}
    c['steps'] = [{k: case.get(k) for k in STEP_KEYS}]
    c['steps'][0]['kind'] = 'install'
    c['steps'][0]['expected'] = None
    c['steps'][0]['session'] = 'new'
    c['stray'] = case.get('stray', [])
    return c


def stray_files(good, rng=None):
    """files a careless implementation might mistake for state: next to the archive, never part of the protocol"""
    d, n = sha(good), len(good)
    pool = [[NAME + '.tar.gz.sha256', f'{d} {n}\n'], [NAME + '.tar.gz.sha256', d], [NAME + '.tar.gz.ok', 'ok\n'],
            [NAME + '.tar.gz.part', 'partial'], [NAME + '.sha256', f'{d}  {NAME}.tar.gz\n'],
            ['.' + NAME + '.verified', f'{d} {n}'], [NAME + '.tar.gz.size', str(n)], ['notes.txt', 'mine']]
    if rng is None:
        return pool
    return rng.sample(pool, rng.choice([1, 2, 3]))


def flipped(b, k):
    bb = bytearray(b)
    bb[k] ^= 1 << (k % 8)
    return bytes(bb)


def subst(b, k):
    """replace byte k by another printable byte (keeps big payloads compact in the Coq shards)"""
    bb = bytearray(b)
    bb[k] = 0x23 + (bb[k] - 0x23 + 1) % 90
    return bytes(bb)


def priors_for(good, alt):
    """every kind of prior archive state for this archive"""
    out = [('none', None), ('complete', good)]
    if len(good) > 0:
        out.append(('empty', b''))
        out.append(('corrupt-same', flipped(good, len(good) // 2)))
    ks = range(1, len(good)) if len(good) <= 8 else sorted({1, 11, len(good) // 2, len(good) - 1})
    for k in ks:
        out.append((f'prefix{k}', good[:k]))
    if len(good) > 1:
        out.append(('nonprefix-short', flipped(good, 0)[:len(good) - 1]))
    out.append(('longer', good + b'Z'))
    out.append(('other-longer', alt + b'ZZ' if len(alt) > len(good) else alt + good + b'ZZ'))
    return out


def get_policies(n, full):
    """per-attempt GET behaviours for an archive of n bytes"""
    pol = [('honest', G()), ('ignore-range', G(rng='ignore')), ('alt', G(src='alt')),
           ('alt-ignore', G(src='alt', rng='ignore')), ('extra', G(extra=H(b'+'))),
           ('conn', G(conn=True))]
    if not full:
        pol.append(('http404', G(src='alt', http=404, rng='ignore')))
    offs = range(n + 1) if full else sorted({0, n // 2, max(n - 1, 0)})
    for k in offs:
        if k < n:
            pol.append((f'cut{k}', G(cut=k)))
            pol.append((f'flip{k}', G(flip=k)))
            if not full:
                pol.append((f'cut{k}-ignore', G(cut=k, rng='ignore')))
        pol.append((f'stream-err{k}', G(cut=k, stream_err=True)))
    return pol


PROBE_POLICIES = [('true', P('true')), ('none', P('none', 0)), ('minus1', P('delta', -1)), ('plus1', P('delta', 1)),
                  ('zero', P('val', 0))]


def exhaustive_small(cases, goods, full):
    for good in goods:
        alt = bytes((x + 1) % 256 for x in good) if good else b'x'
        for (pn, prior) in priors_for(good, alt):
            for (qn, probe) in PROBE_POLICIES:
                pols = get_policies(len(good), full)
                for (g1n, g1), (g2n, g2) in itertools.product(pols, pols):
                    cases.append(mk(good, alt=alt, prior=prior, probe_default=probe, gets=[g1, g2],
                                    tag=f'exh/{len(good)}/{pn}/{qn}'))


def rand_probe(rng, n):
    r = rng.random()
    if r < 0.55:
        return P('true', rng.choice([0, 0, 1, 2]))
    if r < 0.65:
        return P('none', rng.choice([0, 1]))
    if r < 0.80:
        return P('delta', rng.choice([-2, -1, 1, 2, 7]))
    if r < 0.88:
        return P('val', rng.choice([0, 0, -5, 1, n * 2 + 1, 10 ** 12]))
    if r < 0.94:
        return P('err', rng.choice([0, 1, 2]))
    return P('conn')


def rand_get(rng, n):
    g = G()
    r = rng.random()
    if r < 0.35:
        pass
    else:
        if rng.random() < 0.3:
            g['src'] = 'alt'
        if rng.random() < 0.35:
            g['range'] = 'ignore'
        if rng.random() < 0.3 and n > 0:
            g['cut'] = rng.randrange(0, n + 1)
        if rng.random() < 0.3 and n > 0:
            g['flip'] = rng.randrange(0, n)
        if rng.random() < 0.15:
            g['extra'] = H(rng.choice([b'\n', b'+', b'\0\0', b'tail']))
        if rng.random() < 0.12:
            g['stream_err'] = True
        if rng.random() < 0.08:
            g['conn'] = True
        if rng.random() < 0.08:
            g['http'] = rng.choice([404, 500, 206, 416])
    return g


def rand_bytes(rng, n, printable=True):
    if printable:
        return bytes(rng.choice(b'abcdefghijklmnopqrstuvwxyz0123456789') for _ in range(n))
    return bytes(rng.randrange(256) for _ in range(n))


def rand_index(rng, marker):
    r = rng.random()
    if marker:
        return rng.choice([[NAME], [NAME] + OTHERS, [OTHERS[0], NAME]])
    if r < 0.35:
        return None
    if r < 0.5:
        return 'empty'
    if r < 0.6:
        return []
    return rng.choice([OTHERS, OTHERS[:1], ['ds_a2', 'ds'], OTHERS + ['ds_ab']])


def gen_cases(rng, tier):
    cases = []
    thorough = tier == 'thorough'
    # --- A. deterministic core: every prior state x flags x a few servers, on a real tar and a fake archive
    tar = make_tar(1)
    tar2 = make_tar(2)
    for good, alt, untar in [(b'kapture-archive', b'evil-archive-xx', 'fake'), (tar, tar2, 'real')]:
        for (pn, prior) in priors_for(good, alt):
            for marker, force in [(False, False), (True, False), (True, True), (False, True)]:
                for srvn, kw in [('honest', {}),
                                 ('alt', {'get_default': G(src='alt', rng='ignore')}),
                                 ('cut', {'get_default': G(cut=len(good) // 2)}),
                                 ('nosize', {'probe_default': P('none', 0)}),
                                 ('flip-then-honest', {'gets': [G(flip=len(good) - 1)]}),
                                 ('ignore-range', {'get_default': G(rng='ignore')})]:
                    if untar == 'real' and srvn in ('nosize', 'ignore-range') and not thorough and pn.startswith('pre'):
                        continue
                    idx = ([OTHERS[0], NAME] if marker else rng.choice([None, 'empty', OTHERS]))
                    cases.append(mk(good, alt=alt, prior=prior, index=idx, force=force, nc=rng.random() < 0.3,
                                    untar=untar, tag=f'core/{untar}/{pn}/{srvn}', **kw))
    # untar raising on a verified archive; install through the command function
    for prior in (None, b'kapt'):
        cases.append(mk(b'kapture-archive', prior=prior, untar='fake_raises', index=OTHERS, tag='core/untar-raises'))
        cases.append(mk(b'kapture-archive', prior=prior, untar='fake_raises', index=[NAME], force=True,
                        tag='core/untar-raises'))
        for g in (G(), G(src='alt'), G(cut=3), G(conn=True)):
            cases.append(mk(tar, alt=tar2, prior=prior, untar='real', via='command', index=OTHERS, get_default=g,
                            tag='core/command'))
    # expected checksum that nothing can match / upper case (string comparison)
    cases.append(mk(b'kapture-archive', expected=sha(b'kapture-archive').upper(), tag='core/expected-upper'))
    cases.append(mk(b'kapture-archive', expected='0' * 64, prior=b'kapture-archive', tag='core/expected-zero'))
    d = sha(b'kapture-archive')
    for exp in (d[:-1] + ('0' if d[-1] != '0' else '1'), ('0' if d[0] != '0' else '1') + d[1:], d[:32], d + '0'):
        for prior in (None, b'kapture-archive'):
            cases.append(mk(b'kapture-archive', expected=exp, prior=prior, tag='core/expected-near-miss'))
    # --- B. files larger than the sha block (4096) and the download chunk (32768): differences far from the start
    big = bytes(0x23 + (i * 131 + (i >> 8)) % 90 for i in range(4600))
    for k in (4100, 4599):
        cases.append(mk(big, alt=subst(big, k), gets=[G(src='alt')], tag='big/flip-late', chunk=1000))
        cases.append(mk(big, alt=subst(big, k), get_default=G(src='alt'), tag='big/flip-late-always', chunk=1000))
        cases.append(mk(big, alt=subst(big, k), prior=subst(big, k), probe_default=P('true'),
                        get_default=G(conn=True), tag='big/prior-flip-late'))
    cases.append(mk(big, prior=big[:4097], tag='big/resume', chunk=700))
    cases.append(mk(big, prior=big[:4096], get_default=G(rng='ignore'), tag='big/resume-ignored', chunk=4096))
    if thorough:
        huge = bytes(0x23 + (i * 7 + (i >> 7)) % 90 for i in range(34000))
        cases.append(mk(huge, alt=subst(huge, 33999), gets=[G(src='alt')], tag='big/34k'))
    # --- C. small exhaustive block
    if thorough:
        exhaustive_small(cases, [b'', b'a', b'ab', b'abc', b'abcd'], full=True)
    else:
        sub = []
        exhaustive_small(sub, [b'', b'ab', b'abcd'], full=False)
        rng.shuffle(sub)
        cases.extend(sub[:450])
    # --- D. random compositions
    n_rand = 6000 if thorough else 750
    for _ in range(n_rand):
        n = rng.choice([0, 1, 2, 3, 5, 8, 13, 40])
        printable = rng.random() < 0.8
        good = rand_bytes(rng, n, printable)
        alt = rand_bytes(rng, rng.choice([n, n, n + 1, max(n - 1, 0)]), printable)
        if alt == good:
            alt = good + b'#'
        pn, prior = rng.choice(priors_for(good, alt))
        if rng.random() < 0.35:
            prior = None
        marker = rng.random() < 0.2
        force = rng.random() < (0.6 if marker else 0.15)
        untar = 'fake_raises' if rng.random() < 0.06 else 'fake'
        probes = [rand_probe(rng, n) for _ in range(rng.choice([0, 0, 2, 4, 7]))]
        gets = [rand_get(rng, n) for _ in range(rng.choice([0, 1, 2, 2]))]
        cases.append(mk(good, alt=alt, prior=prior, index=rand_index(rng, marker), force=force,
                        nc=rng.random() < 0.3, untar=untar, probes=probes, gets=gets,
                        probe_default=rand_probe(rng, n) if rng.random() < 0.3 else P('true'),
                        get_default=rand_get(rng, n) if rng.random() < 0.4 else G(),
                        via='command' if rng.random() < 0.05 else 'dataset',
                        chunk=rng.choice([None, None, 1, 3]), tag='random'))
    # --- E. histories: several calls on the same install directory
    cases.extend(gen_histories(rng, thorough))
    return cases


def gen_histories(rng, thorough):
    out = []
    tar, tar2 = make_tar(1), make_tar(2)
    assert len(tar) == len(tar2)
    for good, alt, untar in [(b'kapture-archive', b'evil-archive-xx', 'fake'), (tar, tar2, 'real')]:
        n = len(good)
        same_len = G(src='alt', rng='ignore')
        faults = [('same-length-substitute', same_len), ('bitflip-last', G(flip=n - 1)), ('bitflip-mid', G(flip=n // 2)),
                  ('truncated', G(cut=n // 2)), ('trailing', G(extra=H(b'+'))), ('down', G(conn=True))]
        for fn, g in faults:
            for nc in (False, True):
                # verified install, then forced re-install against a faulty server
                out.append(hist(good, [S(untar=untar, nc=nc), S(force=True, untar=untar, get_default=g)], alt=alt,
                                tag=f'hist/install>force-install/{fn}'))
                # verified download, forced re-download from a faulty server, then install (server still faulty)
                out.append(hist(good, [S('download'), S('download', force=True, get_default=g),
                                       S(untar=untar, nc=nc, get_default=g)], alt=alt,
                                tag=f'hist/download>force-download>install/{fn}'))
            # verified install keeping the archive, faulty forced download, install --force with the server down
            out.append(hist(good, [S(untar=untar, nc=True), S('download', force=True, get_default=g),
                                   S(force=True, untar=untar, get_default=G(conn=True))], alt=alt,
                            tag=f'hist/install-keep>force-download>force-install/{fn}'))
            # failed install first, then a good one, then a forced faulty one
            out.append(hist(good, [S(untar=untar, get_default=g), S(untar=untar), S(force=True, untar=untar, get_default=g),
                                   S('download', get_default=g)], alt=alt, index=OTHERS,
                            tag=f'hist/fail>install>force-install>download/{fn}'))
        # stray files next to the archive: single calls and histories
        for sf in stray_files(good):
            for prior in (None, alt, good[:n // 2]):
                out.append(mk(good, alt=alt, prior=prior, untar=untar, stray=[sf], get_default=same_len,
                              tag='stray/single'))
            out.append(hist(good, [S(untar=untar), S(force=True, untar=untar, get_default=same_len)], alt=alt,
                            stray=[sf], tag='stray/install>force-install'))
    out.extend(gen_republished(rng, thorough))
    # random histories
    n_rand = 2500 if thorough else 260
    for _ in range(n_rand):
        n = rng.choice([1, 2, 3, 5, 8, 13])
        good = rand_bytes(rng, n)
        alt = rand_bytes(rng, n)               # same length, different bytes
        if alt == good:
            alt = flipped(good, 0)
        prior = None
        if rng.random() < 0.3:
            prior = rng.choice(priors_for(good, alt))[1]
        marker = rng.random() < 0.15
        republish = rng.random() < 0.35        # the index is re-published between the calls of this history
        steps = []
        for k in range(rng.choice([2, 2, 3, 3, 4])):
            r = rng.random()
            if k == 0 and r < 0.6 or r < 0.3:
                g = G()
            elif r < 0.5:
                g = G(src='alt', rng=rng.choice(['ignore', 'honour']))
            elif r < 0.65:
                g = G(flip=rng.randrange(n))
            elif r < 0.8:
                g = G(cut=rng.randrange(n + 1), stream_err=rng.random() < 0.3)
            else:
                g = rand_get(rng, n)
            kind = 'download' if rng.random() < 0.3 else 'install'
            if rng.random() < 0.12:
                kind = 'list'          # (always through the Dataset object: the `list` command only prints)
            steps.append(S(kind, force=rng.random() < (0.6 if k > 0 else 0.2), nc=rng.random() < 0.4,
                           expected=rng.choice(['good', 'alt']) if republish else None,
                           session='same' if rng.random() < 0.4 else 'new',
                           untar='fake_raises' if rng.random() < 0.05 else 'fake',
                           via='command' if rng.random() < 0.05 else 'dataset',
                           probes=[rand_probe(rng, n) for _ in range(rng.choice([0, 0, 0, 2]))],
                           gets=[g] if rng.random() < 0.3 else [],
                           probe_default=rand_probe(rng, n) if rng.random() < 0.1 else P('true'),
                           get_default=g if rng.random() < 0.7 else G(), chunk=rng.choice([None, None, 2])))
        out.append(hist(good, steps, alt=alt, prior=prior, index=rand_index(rng, marker),
                        stray=stray_files(good, rng) if rng.random() < 0.25 else (), tag='hist/random'))
    return out


def gen_republished(rng, thorough):
    """histories during which the dataset index is re-published (the `update` command rewrites the index file) while
    the server delivers the old or the new archive, run by a new InstallDir per call (CLI) or by ONE InstallDir object
    that outlives the publication (API / long-running use)"""
    out = []
    tar, tar2 = make_tar(1), make_tar(2)
    for good, alt, untar in [(b'kapture-archive', b'evil-archive-xx', 'fake'), (tar, tar2, 'real'),
                             (b'release-1', b'release-2+fixes', 'fake')]:
        old, new = G(), G(src='alt', rng='ignore')          # the server delivers the old / the new archive
        firsts = [('list', [S('list', expected='good')]),
                  ('failed-install', [S(untar=untar, expected='good', get_default=G(conn=True))]),
                  ('install', [S(untar=untar, expected='good')]),
                  ('install-keep', [S(untar=untar, expected='good', nc=True)]),
                  ('download', [S('download', expected='good')]),
                  ('list>download', [S('list', expected='good'), S('download', expected='good', session='same')])]
        for fn, first in firsts:
            for session in ('same', 'new'):
                for sn, g in (('server-still-old', old), ('server-new', new), ('old-then-new', None)):
                    force = fn.startswith('install')
                    kw = {'gets': [old], 'get_default': new} if g is None else {'get_default': g}
                    steps = first + [S(untar=untar, expected='alt', session=session, force=force, **kw)]
                    if rng.random() < 0.5:      # and once more, forced, from the server that delivers the new archive
                        steps.append(S(untar=untar, expected='alt', session=session, force=True,
                                       nc=rng.random() < 0.5, get_default=new))
                    out.append(hist(good, steps, alt=alt, index=rng.choice([None, OTHERS]),
                                    tag=f'republish/{fn}/{session}/{sn}'))
            # re-published and then withdrawn again (back to the first checksum), listing in between
            out.append(hist(good, first + [S('list', expected='alt', session='same'),
                                           S(untar=untar, expected='good', session='same', force=True, get_default=new),
                                           S(untar=untar, expected='good', session='same', force=True)],
                            alt=alt, tag=f'republish/{fn}/same/there-and-back'))
        # the new publication is a near miss of the old one / unmatched by anything the server has
        d = sha(good)
        for exp in (d[:-1] + ('0' if d[-1] != '0' else '1'), d.upper(), '0' * 64):
            for session in ('same', 'new'):
                out.append(hist(good, [S('list', expected='good'), S(untar=untar, expected=exp, session=session),
                                       S(untar=untar, expected='good', session=session)], alt=alt,
                                tag='republish/near-miss'))
    return out


# ------------------------------------------------------------------ fake server
class FakeRaw:
    def __init__(self, body, stream_err, chunk):
        self._buf = io.BytesIO(body)
        self._err = stream_err
        self._chunk = chunk
        self.closed = False

    def read(self, amt=None, decode_content=None):
        if amt is None or amt < 0:
            amt = 1 << 30
        if self._chunk:
            amt = min(amt, self._chunk)
        data = self._buf.read(amt)
        if not data and self._err:
            self._err = False
            raise FakeStreamError('connection reset while streaming (scripted)')
        return data

    def close(self):
        self.closed = True

    def release_conn(self):
        pass


class FakeServer:
    def __init__(self, case, step):
        self.case = step          # the scripts of this call
        self.good, self.alt = B(case['good']), B(case['alt'])
        self.n_probe = self.n_get = 0
        self.requests = []      # abstract requests, in order
        self.trace = []         # abstract responses, in order

    def _probe_headers(self, spec):
        kind = spec[0]
        n = len(self.good)
        if kind == 'true':
            v = spec[1] if len(spec) > 1 else 0
            return ['bytes 0-10/%d', 'bytes */%d', 'bytes 0-10/ %d ', '0-10/%d/9'][v % 4] % n, ['size', n]
        if kind == 'none':
            return (None if spec[1] % 2 == 0 else 'bytes 0-10'), ['none']
        if kind == 'delta':
            return 'bytes 0-10/%d' % (n + spec[1]), ['size', n + spec[1]]
        if kind == 'val':
            return 'bytes 0-10/%d' % spec[1], ['size', spec[1]]
        if kind == 'err':
            return ['bytes 0-10/*', 'bytes 0-10/', 'bytes 0-10/1e3'][spec[1] % 3], ['err']
        raise HarnessSurprise('bad probe spec %r' % (spec,))

    def request(self, session, method, url, **kw):
        import requests
        if url != URL:
            raise HarnessSurprise(f'unexpected url {url}')
        headers = {k.lower(): v for k, v in (kw.get('headers') or {}).items()}
        rng_h = headers.get('range')
        is_probe = method.upper() == 'HEAD' or rng_h == 'bytes=0-10'
        resp = requests.Response()
        resp.url = url
        resp.encoding = None
        resp.reason = 'scripted'
        if is_probe:
            self.requests.append(['probe'])
            spec = self.case['probes'][self.n_probe] if self.n_probe < len(self.case['probes']) \
                else self.case['probe_default']
            self.n_probe += 1
            if spec[0] == 'conn':
                self.trace.append({'conn': True, 'probe': ['none'], 'body': '', 'stream_err': False})
                raise FakeConnError('connection refused (scripted)')
            cr, ans = self._probe_headers(spec)
            self.trace.append({'conn': False, 'probe': ans, 'body': '', 'stream_err': False})
            resp.status_code = 206
            hd = {'Content-Length': '11'}
            if cr is not None:
                hd['Content-Range'] = cr
            resp.headers = requests.structures.CaseInsensitiveDict(hd)
            resp.raw = FakeRaw(self.good[:11], False, None)
            return resp
        # a download
        start = None
        if rng_h is None:
            self.requests.append(['get', None])
        else:
            m = re.fullmatch(r'bytes=(\d+)-', rng_h)
            if m:
                start = int(m.group(1))
                self.requests.append(['get', start])
            else:
                self.requests.append(['bad', rng_h])
        g = self.case['gets'][self.n_get] if self.n_get < len(self.case['gets']) else self.case['get_default']
        self.n_get += 1
        if g['conn']:
            self.trace.append({'conn': True, 'probe': ['none'], 'body': '', 'stream_err': False})
            raise FakeConnError('connection refused (scripted)')
        content = self.good if g['src'] == 'good' else self.alt
        body = content[start:] if (start is not None and g['range'] == 'honour') else content
        if g['cut'] is not None:
            body = body[:g['cut']]
        if g['flip'] is not None and g['flip'] < len(body):
            body = flipped(body, g['flip'])
        body += B(g['extra'])
        self.trace.append({'conn': False, 'probe': ['none'], 'body': H(body), 'stream_err': bool(g['stream_err'])})
        resp.status_code = g['http']
        resp.headers = requests.structures.CaseInsensitiveDict({'Content-Length': str(len(body))})
        resp.raw = FakeRaw(body, bool(g['stream_err']), self.case.get('chunk'))
        return resp


# ------------------------------------------------------------------ running the implementation
INDEX_YAML = 'kapture_dataset_index.yaml'
INSTALLED_YAML = 'kapture_dataset_installed.yaml'


def _read_index(root):
    import yaml
    p = os.path.join(root, INSTALLED_YAML)
    if not os.path.isfile(p):
        return []
    with open(p, 'rt') as f:
        y = yaml.safe_load(f)
    return sorted(set(y)) if y else []


def _tree(root):
    """files of the dataset folder (where archives are extracted to): path -> digest"""
    snap = {}
    top = os.path.join(root, NAME)
    for d, dirs, files in os.walk(top):
        for n in files:
            p = os.path.join(d, n)
            rel = os.path.relpath(p, root).replace('\\', '/')
            with open(p, 'rb') as f:
                snap[rel] = hashlib.sha256(f.read()).hexdigest()[:12]
    return snap


def run_impl(case, ctx):
    import requests
    import yaml
    import kapture_download_dataset as kdd
    import kapture.converter.downloader.archives as karch
    import kapture.utils.upgrade as kupg

    case = normalise(case)
    root = os.path.join(ctx['tmp'], 'install')
    shutil.rmtree(root, ignore_errors=True)
    os.makedirs(root)
    archive_path = os.path.join(root, NAME + '.tar.gz')
    index_path = os.path.join(root, INDEX_YAML)
    published = [None]

    def publish(checksum):
        """(re-)publish the dataset index, as the `update` command does: the file is rewritten"""
        if published[0] != checksum:
            with open(index_path, 'wt') as f:
                yaml.dump({NAME: {'url': URL, 'sha256sum': checksum},
                           'other_1': {'url': URL + '.other', 'sha256sum': '1' * 64}}, f)
            published[0] = checksum

    publish(case['expected'])
    if case['prior_archive'] is not None:
        with open(archive_path, 'wb') as f:
            f.write(B(case['prior_archive']))
    pi = case['prior_index']
    if pi == 'empty':
        open(os.path.join(root, INSTALLED_YAML), 'wt').close()
    elif pi is not None:
        with open(os.path.join(root, INSTALLED_YAML), 'wt') as f:
            yaml.dump(list(pi), f)
    prior_names = sorted(set(pi)) if isinstance(pi, list) else []
    if NAME in prior_names:   # a stale marker comes with a previously extracted dataset
        os.makedirs(os.path.join(root, NAME, 'sensors'))
        with open(os.path.join(root, NAME, 'sensors', 'sensors.txt'), 'wt') as f:
            f.write('# kapture format: 1.1\n')
    for rel, text in case['stray']:
        with open(os.path.join(root, rel), 'wt') as f:
            f.write(text)

    cur = {'server': None, 'events': None, 'step': None, 'install_dir': None}
    orig_untar = karch.untar_file

    def marked_now():
        return NAME in _read_index(root)

    def untar_recorder(archive_filepath, install_dirpath, *a, **kw):
        with open(archive_filepath, 'rb') as f:
            data = f.read()
        cur['events'].append(['extract', H(data), marked_now(),
                              os.path.abspath(install_dirpath) == os.path.abspath(root)])
        mode = cur['step']['untar']
        if mode == 'real':
            return orig_untar(archive_filepath, install_dirpath, *a, **kw)
        if mode == 'fake_raises':
            raise OSError('No space left on device (scripted)')
        d = os.path.join(install_dirpath, NAME, 'sensors')
        os.makedirs(d, exist_ok=True)
        with open(os.path.join(d, 'sensors.txt'), 'wt') as f:
            f.write('# kapture format: 1.0\n')

    def upgrade_recorder(*a, **kw):
        cur['events'].append(['upgrade', marked_now()])

    def orphan_recorder(*a, **kw):
        return None

    patches = []

    def patch(obj, attr, val):
        if hasattr(obj, attr):
            patches.append((obj, attr, getattr(obj, attr)))
            setattr(obj, attr, val)

    dl_logger = logging.getLogger('downloader')
    old_level = dl_logger.level
    steps_obs = []
    try:
        dl_logger.setLevel(logging.CRITICAL + 10)
        patch(requests.Session, 'request',
              lambda self, method, url, **kw: cur['server'].request(self, method, url, **kw))
        for m in (karch, kdd):
            patch(m, 'untar_file', untar_recorder)
        for m in (kupg, kdd):
            patch(m, 'upgrade_1_0_to_1_1_inplace', upgrade_recorder)
            patch(m, 'upgrade_1_0_to_1_1_orphan_features', orphan_recorder)
        # the whole history runs on the same directory; nothing is cleaned between the calls
        for step in case['steps']:
            server = FakeServer(case, step)
            cur.update(server=server, events=[], step=step)
            publish(step_expected(case, step))
            index_before = _read_index(root)
            archive_before = None
            if os.path.isfile(archive_path):
                with open(archive_path, 'rb') as f:
                    archive_before = H(f.read())
            tree_before = _tree(root)
            outcome, exc = None, None
            try:
                if step['via'] == 'command' and step['kind'] != 'list':
                    args = types.SimpleNamespace(cmd=step['kind'], install_path=root, dataset=[NAME],
                                                 force=step['force'], no_cleaning=step['no_cleaning'])
                    cur['install_dir'] = None
                    kdd.kapture_download_dataset(args, index_path)
                    outcome = 'returned'
                else:
                    # a fresh InstallDir per call, as a new process would have -- or ('same') the InstallDir object of
                    # the previous call; the Dataset objects are always loaded again from the index file
                    install_dir = cur['install_dir'] if step['session'] == 'same' else None
                    if install_dir is None:
                        install_dir = kdd.InstallDir(index_filepath=index_path, install_dir_path=root)
                    cur['install_dir'] = install_dir
                    dataset = install_dir.load_datasets_from_file()[NAME]
                    if step['kind'] == 'install':
                        outcome = dataset.install(force_overwrite=step['force'], no_cleaning=step['no_cleaning'])
                    elif step['kind'] == 'list':
                        outcome = dataset.prob_status()
                    else:
                        outcome = dataset.download(force_overwrite=step['force'])
                    if not isinstance(outcome, str):
                        outcome = 'non-string:' + repr(outcome)
            except HarnessSurprise:
                raise
            except Exception as e:
                outcome, exc = 'raised', f'{type(e).__name__}: {e}'[:200]
            archive_after = None
            if os.path.isfile(archive_path):
                with open(archive_path, 'rb') as f:
                    archive_after = H(f.read())
            tree_after = _tree(root)
            changed = sorted(k for k in set(tree_before) | set(tree_after) if tree_before.get(k) != tree_after.get(k))
            steps_obs.append({'outcome': outcome, 'exc': exc, 'published': published[0],
                              'archive_before': archive_before,
                              'archive': archive_after, 'index_before': index_before, 'index': _read_index(root),
                              'requests': server.requests, 'trace': server.trace, 'events': cur['events'],
                              'tree_changed': changed})
    finally:
        for obj, attr, val in reversed(patches):
            setattr(obj, attr, val)
        dl_logger.setLevel(old_level)
    leftovers = sorted(n for n in os.listdir(root)
                       if n not in (INDEX_YAML, INSTALLED_YAML, NAME + '.tar.gz', NAME) and
                       n not in [x[0] for x in case['stray']])
    shutil.rmtree(root, ignore_errors=True)
    return {'prior_names': prior_names, 'steps': steps_obs, 'leftovers': leftovers}


# ------------------------------------------------------------------ the property, directly
def oracle_step(case, step, o):
    """C17 on one call, given the state the call started from (as observed); hashlib, never the Coq model."""
    expected = step_expected(case, step)       # what the index file published when this call was made
    prior = set(o['index_before'])
    final = set(o['index'])
    extracts = [e for e in o['events'] if e[0] == 'extract']
    upgrades = [e for e in o['events'] if e[0] == 'upgrade']
    for e in extracts:
        if sha(B(e[1])) != expected:
            return 'an archive whose sha256 differs from the published checksum was extracted'
        if not e[3]:
            return 'extraction went to a directory other than the install root'
    if final - {NAME} != prior - {NAME}:
        return 'installed markers of other datasets changed'
    if step['kind'] in ('download', 'list'):
        if extracts or upgrades or o['tree_changed']:
            return 'the %s command extracted / upgraded / changed the dataset folder' % step['kind']
        if (NAME in final) != (NAME in prior):
            return 'the %s command changed the installed marker' % step['kind']
        if step['kind'] == 'list' and o['archive'] != o['archive_before']:
            return 'listing changed the archive file'
        return None
    ok_extract = bool(extracts) and step['untar'] != 'fake_raises'
    stale_kept = NAME in prior and not step['force']
    if NAME in final and not stale_kept and not ok_extract:
        return 'dataset marked installed without a verified extraction'
    success = o['outcome'] == 'installed' or (o['outcome'] == 'returned' and NAME in final)
    if o['outcome'] == 'installed' and NAME not in final:
        return 'install reported success but the dataset is not recorded as installed'
    if not success:
        if NAME in final:
            return 'failure outcome but the dataset is marked installed'
        if extracts and step['untar'] != 'fake_raises':
            return 'failure outcome but an archive was extracted'
        if upgrades:
            return 'failure outcome but the upgrade ran'
        if o['tree_changed'] and not extracts:
            return 'failure outcome but files changed in the dataset folder: ' + ','.join(o['tree_changed'][:3])
    if stale_kept:
        if extracts or o['tree_changed']:
            return 'already-installed dataset was extracted again without force'
    else:
        if any(e[2] for e in extracts):
            return 'dataset was marked installed before its archive was extracted'
        if o['tree_changed'] and not extracts:
            return 'files changed in the dataset folder without any extraction: ' + ','.join(o['tree_changed'][:3])
    return None


def oracle(case, obs):
    case = normalise(case)
    for step, o in zip(case['steps'], obs['steps']):
        sig = oracle_step(case, step, o)
        if sig:
            return sig
    if len(obs['steps']) != len(case['steps']):
        return 'history not run to the end'
    return None


# ------------------------------------------------------------------ Coq encoding
_PRINTABLE = re.compile(rb'^[\x20-\x7e]*\Z')


def _creq(r):
    if r[0] == 'probe':
        return 'RProbe'
    if r[0] == 'get':
        return '(RGet %s)' % kv.copt(None if r[1] is None else kv.cz(r[1]))
    return 'RBad'


def sha_table(case, obs):
    """digests (hashlib) of every content the archive file can take: per call, closure of the content before the
    call and the downloaded bodies, in order, under replace and append"""
    contents = set()
    if case['prior_archive'] is not None:
        contents.add(B(case['prior_archive']))
    for o in obs['steps']:
        cur = set()
        if o['archive_before'] is not None:
            cur.add(B(o['archive_before']))
        for t, r in zip(o['trace'], o['requests']):      # each download replaces the file or appends to it
            if r[0] != 'probe' and not t['conn']:
                b = B(t['body'])
                cur |= {b} | {c + b for c in cur}
        for e in o['events']:
            if e[0] == 'extract':
                cur.add(B(e[1]))
        if o['archive'] is not None:
            cur.add(B(o['archive']))
        contents |= cur
    return sorted((c, sha(c)) for c in contents)


def encode(case, obs):
    case = normalise(case)
    pool = {}

    def lit(b):
        if _PRINTABLE.match(b):
            return kv.cstr(b)
        return '(unhex "%s")' % b.hex()

    def cb(b):          # byte strings longer than a few bytes are let-bound once per case
        if isinstance(b, str):
            b = B(b)
        if len(b) <= 12:
            return lit(b)
        if len(b) > 16000:   # coqc's parser overflows its stack on string literals beyond ~30 kB
            return '(String.append %s %s)' % (cb(b[:16000]), cb(b[16000:]))
        if b not in pool:
            pool[b] = 'b%d' % len(pool)
        return pool[b]

    def cresp(t):
        p = {'none': 'PNone', 'err': 'PErr'}.get(t['probe'][0]) or '(PSize %s)' % kv.cz(t['probe'][1])
        return '(mkResp %s %s %s %s)' % (kv.cbool(t['conn']), p, cb(t['body']), kv.cbool(t['stream_err']))

    steps = []
    for step, o in zip(case['steps'], obs['steps']):
        if o['outcome'] == 'raised':
            oc = 'ORaised'
        elif o['outcome'] == 'returned':
            oc = 'OReturned'
        else:
            oc = '(OStatus %s)' % kv.cstr(o['outcome'])
        evs = []
        for e in o['events']:
            if e[0] == 'extract':
                evs.append('(EExtract %s %s)' % (cb(e[1]), kv.cbool(e[2])))
            else:
                evs.append('(EUpgrade %s)' % kv.cbool(e[1]))
        steps.append('{| t_expected := %s; t_kind := %s; t_force := %s; t_noclean := %s; t_untar_fails := %s; '
                     't_script := %s; '
                     'o_outcome := %s; o_archive := %s; o_index := %s; o_requests := %s; o_log := %s |}' % (
                         kv.cstr(step_expected(case, step)),
                         {'install': 'KInstall', 'download': 'KDownload', 'list': 'KList'}[step['kind']],
                         kv.cbool(step['force']),
                         kv.cbool(step['no_cleaning']), kv.cbool(step['untar'] == 'fake_raises'),
                         kv.clist(cresp(t) for t in o['trace']), oc,
                         kv.copt(None if o['archive'] is None else cb(o['archive'])),
                         kv.clist(kv.cstr(x) for x in o['index']),
                         kv.clist(_creq(r) for r in o['requests']), kv.clist(evs)))
    tbl = kv.clist(kv.cpair(cb(c), kv.cstr(d)) for c, d in sha_table(case, obs))
    body = ('{| c_name := %s; c_sha := %s; c_archive := %s; c_index := %s; c_steps := %s |}' % (
        kv.cstr(NAME), tbl,
        kv.copt(None if case['prior_archive'] is None else cb(case['prior_archive'])),
        kv.clist(kv.cstr(x) for x in obs['prior_names']), kv.clist(steps)))
    lets = ''.join('let %s : string := %s in\n ' % (n, lit(b)) for b, n in pool.items())
    return '(' + lets + body + ')'


# ------------------------------------------------------------------ evidence helpers
def _faulty_step(case, t):
    return (any(g != G() for g in t['gets']) or t['get_default'] != G() or
            any(p[0] != 'true' for p in t['probes']) or t['probe_default'][0] != 'true' or
            t['untar'] == 'fake_raises')


def nontrivial(case, obs):
    case = normalise(case)
    contacted = any(o['requests'] for o in obs['steps'])
    return contacted and (len(case['steps']) > 1 or any(_faulty_step(case, t) for t in case['steps']) or
                          any(step_expected(case, t) != sha(B(case['good'])) for t in case['steps']) or
                          case['prior_archive'] is not None or
                          NAME in obs['prior_names'])


def _prior_kind(case):
    if case['prior_archive'] is None:
        return 'none'
    p, g = B(case['prior_archive']), B(case['good'])
    if p == g:
        return 'complete'
    if len(p) < len(g):
        return 'partial' if g.startswith(p) else 'short-corrupt'
    return 'corrupt-same' if len(p) == len(g) else 'longer'


def _out(o):
    return o['outcome'] if o['outcome'] != 'raised' else 'raised:' + (o['exc'] or '').split(':')[0]


def classify(case, obs):
    case = normalise(case)
    marker = 'marker' if NAME in obs['prior_names'] else 'nomarker'
    if len(case['steps']) == 1:
        t = case['steps'][0]
        return 'prior=%s/%s%s/-> %s' % (_prior_kind(case), marker, '+force' if t['force'] else '', _out(obs['steps'][0]))
    pubs = [step_expected(case, t) for t in case['steps']]
    pre = 'republished/' if len(set(pubs)) > 1 else 'history/'
    if any(t['session'] == 'same' for t in case['steps'][1:]):
        pre += 'same-InstallDir/'
    return pre + ' > '.join('%s%s: %s' % (t['kind'], '+force' if t['force'] else '', _out(o).replace('raised:', '!'))
                            for t, o in zip(case['steps'], obs['steps']))


def _short(h):
    return h if h is None or len(h) <= 64 else h[:48] + f'...({len(h) // 2} bytes)'


def describe(case, obs):
    case = normalise(case)
    return {'tag': case.get('tag'), 'prior_archive': _short(case['prior_archive']), 'good': _short(case['good']),
            'alt': _short(case['alt']), 'prior_index': case['prior_index'], 'stray': case['stray'],
            'files_left_next_to_archive': obs.get('leftovers'),
            'steps': [{'call': {k: t[k] for k in ('kind', 'force', 'no_cleaning', 'untar', 'probes', 'probe_default',
                                                  'gets', 'get_default', 'expected', 'session')},
                       'index_publishes': _short(o.get('published')),
                       'observed': {'outcome': o['outcome'], 'exc': o['exc'], 'requests': o['requests'],
                                    'archive_after': _short(o['archive']), 'index_after': o['index'],
                                    'events': [[e[0], _short(e[1])] + e[2:] if e[0] == 'extract' else e
                                               for e in o['events']]}}
                      for t, o in zip(case['steps'], obs['steps'])]}


def shrink(case):
    case = normalise(case)

    def with_steps(steps):
        c = dict(case)
        c['steps'] = steps
        return c
    # drop whole calls first
    if len(case['steps']) > 1:
        for i in range(len(case['steps'])):
            yield with_steps(case['steps'][:i] + case['steps'][i + 1:])
    if case['stray']:
        c = dict(case)
        c['stray'] = []
        yield c
    if case['prior_archive'] is not None:
        c = dict(case)
        c['prior_archive'] = None
        yield c
    if case['prior_index'] not in (None, [NAME]):
        c = dict(case)
        c['prior_index'] = [NAME] if isinstance(case['prior_index'], list) and NAME in case['prior_index'] else None
        yield c
    for i, t in enumerate(case['steps']):
        def upd(**kw):
            t2 = dict(t)
            t2.update(kw)
            return with_steps(case['steps'][:i] + [t2] + case['steps'][i + 1:])
        for key in ('probes', 'gets'):
            for j in range(len(t[key])):
                yield upd(**{key: t[key][:j] + t[key][j + 1:]})
        if t['probe_default'] != P('true'):
            yield upd(probe_default=P('true'))
        if t['get_default'] != G():
            yield upd(get_default=G())
        for j, g in enumerate(t['gets']):
            for f, v in G().items():
                if g.get(f) != v:
                    gs = [dict(x) for x in t['gets']]
                    gs[j][f] = v
                    yield upd(gets=gs)
        if t.get('expected') is not None:
            yield upd(expected=None)
        if t.get('session') == 'same':
            yield upd(session='new')
        if t['no_cleaning']:
            yield upd(no_cleaning=False)
        if t['chunk']:
            yield upd(chunk=None)
        if t['via'] != 'dataset':
            yield upd(via='dataset')


TECHNIQUE = ('Coq proof of a protocol invariant for every server (a universally quantified function of the request '
             'history), every prior local state and every number of attempts, over an executable Gallina model of '
             'prob_status / download_file / download / install with SHA-256 abstract; differential correspondence by '
             'vm_compute against the real installer driven by a scripted adversarial HTTP server')
LEVEL_TEXT = ('Theorems in coq/Props/C17.v hold for every server strategy, every prior archive / index state, both flags, '
              'every untar behaviour and every sha function: every extraction is of bytes whose digest equals the '
              'published checksum and happens before the marker is written; the marker is newly written only after a '
              'successful verified extraction; every other outcome (status corrupted / incomplete, or an exception) '
              'leaves the extraction log empty (or holds one verified extraction that itself failed), no marker and no '
              'upgrade; other datasets\' markers never change; install never returns "downloaded"/"not installed"; the '
              'invariant composes over any history of calls (C17_any_history), also when the index is re-published '
              'between calls: every extraction is verified against the checksum published at the time of its own call '
              '(C17_any_history_republished; a cached first parse of the index refutes it: C17_cached_index_refuted); an '
              'honest server always leads to a verified installation from every prior state. The model is tied to the '
              'code by running histories of real Dataset.install / Dataset.download / prob_status / command calls on one '
              'install directory (new or long-lived InstallDir object, index file re-published in between) '
              'against a fake requests layer and comparing, per call, '
              'status, archive file, installed index, request sequence (incl. Range offsets) and extraction / upgrade '
              'log inside Coq.')
LEVEL_NOTE = ('Trusted: Coq kernel + vm_compute, harness (fake server, encoders), hashlib as reference SHA-256, local file '
              'system semantics. Not modelled: concurrent modification of the install directory (TOCTOU), the optional '
              'install script, tarfile internals (C18), the upgrade itself (C20).')
