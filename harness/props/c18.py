"""C18 — unpacking a dataset archive never writes outside the install directory.
Implementation under test: kapture.converter.downloader.archives.untar_file (called by
tools/kapture_download_dataset.py).

SAFETY of this harness: every extraction happens in <ctx.tmp>/sb<depth>/0/1/.../p/install.  The install
directory sits depth levels below the sandbox top: 90 when every member name / link target of the archive
carries at most 2 '..' components, 130 for the few archives with 3 (never more); absolute names / targets
always point below <...>/p.  The kernel follows at most 40 nested symbolic links per path resolution, so even a
fully trusting extraction cannot climb more than 41 levels per '..' of the worst text (82 < 90, 123 < 130):
whatever the code under test does stays inside the sandbox.
"""
import io
import os
import shutil
import stat
import tarfile
import warnings

import kv

ID = 'C18'
COQ_MODELS = ['MUntar']
COQ_HEADER = 'From KV Require Import Eqb Str.\nFrom KV.Model Require Import MUntar.'
CASE_TYPE = 'MUntar.case'
CHECK_FN = 'MUntar.check_case'
SHARD_SIZE = 60
CASE_TIMEOUT = 20
DEPTH = 90            # for archives whose texts carry at most 2 '..' (almost all)
DEEP_DEPTH = 130      # for the few archives with 3 '..' in one text
MAX_DOTDOT = 3
MTIME = 1600000000    # every archive member and every pre-existing file carries this modification time

RULE = ('one case = initial tree of a sandbox (install directory fresh or populated, incl. user-made links; sentinel '
        'files, a directory and a link pointing back, outside) + an archive (1..8 members of kinds regular / directory / '
        'symlink / hardlink / fifo; names and link targets relative, ..-laden or absolute; any order; gzip or plain) '
        'built with tarfile and extracted by the real untar_file. Streams: benign trees, benign + one hostile member, '
        'link-then-file-through-link, hardlink-then-overwrite, links staying inside, links re-pointed by later members, extraction histories (an update extracted over a first version: same paths, same size and '
        'modification time, other content) and duplicate names in one archive, back slashes in names and targets (one odd component on POSIX), link duplication, back-link replacement, kind '
        'replacement, fully random. Regular and directory members carry permission bits of every shape (executables without owner '
        'write 0555/0500/4511, set-id, sticky, write-only, 0000, random triplets) and owners: none may show in the result. 30 % of '
        'the cases name the install directory another way (relative to a working directory the harness enters, ".", "../install", '
        '"./install/.", trailing "/", through a symbolic link <P>/inst); in the stream "respelled" and 8 % of those the same process '
        'has first installed a benign archive into ANOTHER directory spelled the same way (other working directory; the link '
        're-pointed since), whose real directories carry the names the judged archive uses for its links; thorough adds every archive of one or two members over a small alphabet (6 names x '
        '5 targets x 4 kinds: 72 + 5184 archives). Non-trivial = at least one member was extracted or refused for a reason other than '
        'its mere kind; distinct = distinct (initial tree, member list, compression).')
TRUSTED = ['CPython 3.12 tarfile (data_filter, extract, makelink fallbacks) and posixpath.realpath, and the POSIX '
           'semantics of mkdir/open/symlink/unlink/link/lstat: modelled in coq/Model/MUntar.v, validated only by this '
           'correspondence run (final tree, outcome class and the verdict of tarfile.data_filter on every member)',
           'the process umask leaves owner read/write on created files (the harness sets 022)',
           'the kernel limit of 40 nested symbolic links is modelled as loop detection']
ASSUMPTIONS = ['the text naming the install directory (absolute, relative to the working directory, through symbolic links) '
               'denotes an existing directory when untar_file is called; its creation by os.makedirs is not modelled',
               'no file inside the install directory is initially a hard link of a file outside it (otherwise '
               'overwriting it changes the outside file whatever the extractor does)',
               'files already present in the install directory are owner-writable',
               'symlink chains nest less than 40 deep; member names / link targets carry at most %d ".." (sandbox '
               'safety bound of the harness, not of the theorems)' % MAX_DOTDOT,
               'non-directory members do not end in "/" or "/."; names are valid UTF-8 without NUL',
               'POSIX host: a back slash is an ordinary character of a file name (components are split on "/" only)']
EXHAUSTIVE = {'quick': False, 'thorough': False}

# ---------------------------------------------------------------------------------------- initial trees
PRE = {
    'fresh': [],
    'populated': [['install/pre', 'dir'], ['install/pre/old.txt', 'file', 'old'], ['install/f.txt', 'file', 'first'],
                  ['install/ext', 'sym', '../outdir'], ['install/self', 'sym', '.'], ['install/dang', 'sym', 'nowhere'],
                  ['install/hl1', 'file', 'shared', 'g1'], ['install/pre/hl2', 'file', 'shared', 'g1'],
                  ['install/k', 'sym', 'pre']],
}
OUTSIDE = [['sentinel.txt', 'file', 'precious'], ['outdir', 'dir'], ['outdir/keep.txt', 'file', 'keep'],
           ['outdir/back', 'sym', '../install/landing'], ['abs', 'dir'],
           ['victim', 'dir'], ['victim/sensors', 'dir'], ['victim/sensors/sensors.txt', 'file', '# kapture format: 1.0']]


def _depth_for(members):
    """41 levels per '..' of the worst text: the kernel follows at most 40 nested links per resolution"""
    worst = max([0] + [_count_dotdot(m['name']) for m in members] + [_count_dotdot(m.get('target', '')) for m in members])
    return DEPTH if worst <= 2 else DEEP_DEPTH


def _chain(depth):
    return [str(i) for i in range(depth)] + ['p']


def _count_dotdot(s):
    # a back slash is an ordinary character of a POSIX name, but code under test may (wrongly) treat it as a
    # separator: the safety bound counts '..' under both readings
    return s.replace('\\', '/').split('/').count('..')


def _members_safe(members):
    for m in members:
        if _count_dotdot(m['name']) > MAX_DOTDOT or _count_dotdot(m.get('target', '')) > MAX_DOTDOT:
            return False
        for s in (m['name'], m.get('target', '')):
            if s.startswith(('/', '\\')):
                return False            # absolute paths must be written with the $P / $T placeholders
            if '$P' in s and not s.startswith('$P/'):
                return False
        # $T (the top of the sandbox, shallow) only as the name of a regular or directory member without '..':
        # nothing is ever resolved from there, and no link can be created there
        if '$T' in m.get('target', '') or ('$T' in m['name'] and not (
                m['k'] in ('reg', 'dir') and m['name'].startswith('$T/ABS/') and '..' not in m['name'])):
            return False
    return True


# ---------------------------------------------------------------------------------------- generator
DIRS = ['a', 'b', 'd', 'sub', 'pre', 'dd']
LINKY = ['l', 'k', 'ext', 'self', 'dang', 'out']
LEAVES = ['f.txt', 'g.txt', 'h', 'x.bin', 'old.txt', 'landing', 'hl1']
T_PLAIN = ['f.txt', 'a', 'a/f.txt', '.', 'l', 'k', 'nowhere', 'pre/old.txt', 'g.txt', 'd/l', 'pre', 'sub']
T_DD = ['../f.txt', '../sentinel.txt', '../outdir', '../../outdir', 'a/../..', 'sub/../f.txt', '../install/f.txt',
        '../outdir/keep.txt', 'a/../../sentinel.txt', '../nonexist', '../../nonexist', 'nowhere/..', '..']
T_ABS = ['$P/outdir', '$P/sentinel.txt', '$P/install/f.txt', '$P/install', '$P/outdir/keep.txt']
# names / targets spelled with back slashes: ONE odd component each on POSIX (never a separator, never '..')
N_BS = ['..\\escaped.txt', 'a\\..\\..\\x.txt', 'dir\\file.txt', 'a/..\\b.txt', 'd\\', 'a\\b\\c.txt', '.\\f.txt',
        'sub/..\\..\\g.txt', 'l\\x.txt', '..\\sentinel.txt', 'pre\\old.txt', '..\\outdir\\keep.txt', 'a/b\\']
T_BS = ['..\\outdir', 'a\\..\\..\\sentinel.txt', 'dir\\f.txt', '..\\sentinel.txt', 'f.txt\\', 'a/..\\..', '..\\escaped.txt']
N_ABS = ['$P/abs/x.txt', '$P/sentinel.txt', '$P/install/f.txt', '$P/outdir/new.txt', '$P/newabs/y.txt']   # deep: costly in Coq
N_ABS_SHALLOW = ['$T/ABS/x.txt', '$T/ABS/sub/y.txt', '$T/ABS/f.txt']
MODES = [0o644, 0o444, 0o600, 0o755, 0o400, 0o000, 0o666, 0o4755]
# permission bits as archives of real trees carry them: executables of read-only trees (owner x without owner w),
# owner-only, set-id / sticky bits, write-only, group/world writable.  extract(set_attrs=False) applies none of them.
MODES_X = [0o555, 0o500, 0o4511, 0o511, 0o550, 0o100, 0o111, 0o544, 0o2555, 0o1555, 0o6555, 0o300, 0o200, 0o777, 0o1777,
           0o700, 0o711, 0o744, 0o6755, 0o755, 0o4555, 0o501, 0o510]


def _mode(rng):
    r = rng.random()
    if r < 0.45:
        return rng.choice(MODES)
    if r < 0.8:
        return rng.choice(MODES_X)
    # any combination: owner / group / other triplets and the three special bits
    return (rng.choice([0, 0, 0, 1, 2, 4, 6]) << 9) | (rng.randrange(8) << 6) | (rng.randrange(8) << 3) | rng.randrange(8)


# how the caller spells the install directory (the tool passes --install_path through unchanged): absolute, relative to
# the working directory, through a symbolic link, with a trailing slash or '.' components
HOWS = ['abs', 'rel', 'dot', 'up', 'sym', 'relsym', 'trail', 'dotted']
HOWS_PRIOR = ['rel', 'dot', 'up', 'sym', 'relsym', 'dotted']     # the same spelling can denote another directory


def _rel_name(rng, leafy=True):
    n = rng.choice([0, 0, 1, 1, 2])
    comps = [rng.choice(DIRS + (LINKY if rng.random() < 0.25 else [])) for _ in range(n)]
    comps.append(rng.choice(LEAVES + LINKY) if leafy else rng.choice(DIRS + LINKY))
    return '/'.join(comps)


def _dd_name(rng):
    comps = _rel_name(rng).split('/')
    for _ in range(rng.choice([1, 1, 2])):
        comps.insert(rng.randint(0, len(comps) - (0 if rng.random() < 0.15 else 1)), '..')
    if rng.random() < 0.3:
        comps = ['..', rng.choice(['newdir', 'outdir', 'nd2']), '..', 'install'] [:rng.choice([2, 4])] + comps[-1:]
    while comps.count('..') > 2:
        comps.remove('..')
    return '/'.join(comps)


def _decorate(rng, name):
    r = rng.random()
    if r < 0.12:
        return './' + name
    if r < 0.18 and '/' in name:
        return name.replace('/', '/./', 1)
    if r < 0.22 and name.startswith('dd/'):
        return name.replace('/', '//', 1)
    return name


def _data(rng):
    # several contents of equal length (5: as the pre-existing install/f.txt 'first'; 3: as pre/old.txt 'old'; 2; 7)
    return rng.choice(['x', 'payload', '', 'boom', 'new content', 'A' * 20, 'z1', 'z2', 'FIRST', 'v2v2v', 'OLD', 'new', 'PAYLOAD'])


def _reg(rng, name):
    return {'k': 'reg', 'name': name, 'data': _data(rng), 'mode': _mode(rng)}


def _dir(rng, name):
    m = {'k': 'dir', 'name': name + rng.choice(['', '', '/'])}
    if rng.random() < 0.4:
        m['mode'] = rng.choice([0o755, 0o555, 0o500, 0o700, 0o000, 0o1777, 0o2755, 0o311])
    return m


def _sym(name, target):
    return {'k': 'sym', 'name': name, 'target': target}


def _hard(name, target):
    return {'k': 'hard', 'name': name, 'target': target}


def _target(rng):
    if rng.random() < 0.05:
        return rng.choice(T_BS)
    return rng.choice(rng.choice([T_PLAIN, T_PLAIN, T_DD, T_DD, T_ABS]))


def _benign(rng, n):
    """a consistent tree: directories are never reused as files"""
    out, files, dirs = [], set(), set()
    for _ in range(n):
        depth = rng.choice([0, 1, 1, 2, 3])
        comps = [rng.choice(['a', 'b', 'd', 'sub', 'dd', 'img', 'recon']) for _ in range(depth)]
        if rng.random() < 0.2:
            name = '/'.join(comps) if comps else rng.choice(['.', 'newd'])
            if name in files:
                continue
            dirs.add(name)
            out.append(_dir(rng, name))
            continue
        comps.append(rng.choice(['f.txt', 'g.txt', 'x.bin', 'records.txt', 'im0.jpg', 'old.txt']))
        name = '/'.join(comps)
        if name in dirs or any(name.startswith(f + '/') for f in files):
            continue
        for i in range(1, len(comps)):
            dirs.add('/'.join(comps[:i]))
        files.add(name)
        out.append(_reg(rng, _decorate(rng, name)))
    return out or [_reg(rng, 'f.txt')]


def _hostile(rng):
    r = rng.randrange(7)
    if r == 0:
        return _reg(rng, _dd_name(rng))
    if r == 1:
        return _reg(rng, _dd_name(rng)) if rng.random() < 0.8 else _abs_member(rng)
    if r == 2:
        return _sym(_rel_name(rng), rng.choice(T_DD + T_ABS))
    if r == 3:
        return _hard(_rel_name(rng), rng.choice(T_DD + T_ABS + ['pre/old.txt', 'f.txt']))
    if r == 4:
        return _dir(rng, _dd_name(rng))
    if r == 5:
        return _sym(_dd_name(rng), _target(rng))
    return _reg(rng, rng.choice(LINKY) + '/' + rng.choice(LEAVES))


def _abs_member(rng):
    """absolute member names are kept rare: the 'data' filter re-roots them below the install directory, which
    creates a tree as deep as the sandbox and makes the case expensive to evaluate inside Coq"""
    if rng.random() < 0.85:
        return rng.choice([_reg(rng, rng.choice(N_ABS_SHALLOW)), _dir(rng, rng.choice(N_ABS_SHALLOW)[:-4])])
    return rng.choice([_reg(rng, rng.choice(N_ABS)), _dir(rng, rng.choice(N_ABS)[:-4]), _hard(rng.choice(N_ABS), 'f.txt'),
                       _sym(rng.choice(N_ABS), _target(rng))])


def _random_member(rng):
    k = rng.choice(['reg', 'reg', 'dir', 'sym', 'sym', 'hard', 'hard'])
    if rng.random() < 0.01:
        return _abs_member(rng)
    nm = rng.choice([_rel_name, _rel_name, _rel_name, _dd_name])(rng) if rng.random() < 0.93 else rng.choice(N_BS)
    if k == 'reg':
        return _reg(rng, _decorate(rng, nm))
    if k == 'dir':
        return _dir(rng, nm if rng.random() < 0.9 else rng.choice(['.', '']))
    if k == 'sym':
        return _sym(nm, _target(rng))
    return _hard(nm, _target(rng))


def _inside_links(rng):
    """links that stay inside: written through (last component), replaced, aliased by hard links, in sub-directories"""
    ms = [_reg(rng, 'f.txt')]
    if rng.random() < 0.5:
        ms.append(_reg(rng, 'a/g.txt'))
    for _ in range(rng.randint(1, 4)):
        ms.append(rng.choice([
            _sym('l', rng.choice(['f.txt', 'a/g.txt', 'a', 'missing.txt', 'k'])), _sym('a/l', rng.choice(['../f.txt', 'g.txt', '.'])),
            _sym('k', rng.choice(['l', 'f.txt'])), _hard('h', rng.choice(['f.txt', 'a/g.txt', 'l', 'a/l'])),
            _hard('a/h', rng.choice(['f.txt', 'a/g.txt', 'h'])), _reg(rng, rng.choice(['l', 'h', 'a/h', 'k', 'a/l', 'f.txt'])),
            _dir(rng, rng.choice(['a', 'l', 'b']))]))
    return ms


def _backslash(rng):
    """back slashes in member names and link targets, every member kind; then members reusing those names"""
    ms = []
    for _ in range(rng.randint(1, 3)):
        n = rng.choice(N_BS)
        ms.append(rng.choice([_reg(rng, n), _reg(rng, n), {'k': 'dir', 'name': n}, _sym(n, rng.choice(T_BS + T_PLAIN)),
                              _hard(n, rng.choice(T_BS + ['f.txt'])), _sym(_rel_name(rng), rng.choice(T_BS)),
                              _hard(_rel_name(rng), rng.choice(T_BS))]))
    if rng.random() < 0.5:
        ms.insert(rng.randint(0, len(ms)), _reg(rng, rng.choice(['f.txt', 'a/f.txt', 'dir/file.txt'])))
    if rng.random() < 0.3:
        ms.append(_reg(rng, rng.choice(N_BS)))
    return ms


def _repoint(rng):
    """links that point inside when they are created and are re-pointed outside by what comes after them"""
    v = rng.randrange(6)
    if v == 0:
        ms = [_sym('b', 'c/d'), _sym('a', 'b/../..'), _sym('k/sensors/sensors.txt', '../../a/victim/sensors/sensors.txt'),
              _sym('c', '.'), _dir(rng, 'd')]
    elif v == 1:
        ms = [_sym('a', 's/s/../..'), _sym('s', '.'), _sym('w', 'a/sentinel.txt')]
    elif v == 2:
        ms = [_dir(rng, 'x/y'), _sym('t', 'x/y'), _sym('a', 't/../..'), _sym('t', '.')]
    elif v == 3:
        ms = [_sym('a', 'n/../../outdir'), _sym('n', 'sub/deep'), _dir(rng, 'sub/deep'), _reg(rng, 'f.txt')]
    elif v == 4:
        ms = [_sym('q/l', 'm/../../..'), _dir(rng, 'q'), _sym('q/m', '.'), _sym('z', 'q/l/sentinel.txt')]
    else:       # '..' hidden behind a directory that does not exist yet, through a link to the install directory itself
        ms = [_sym('here', '.'), _reg(rng, rng.choice(['fresh/../here/../ESCAPED/../install/landing/records.txt',
                                                        'fresh/../here/../outdir/../install/f.txt',
                                                        'nd/../here/../ESC2/x.txt']))]
    r = rng.random()
    if r < 0.25:
        ms = ms[:rng.randint(1, len(ms))]           # a prefix: often still harmless
    elif r < 0.4:
        ms.append(_reg(rng, rng.choice(['after.txt', '../late.txt', 'a/x.txt'])))   # then a member, maybe refused
    return ms


def _same_size_variant(rng, data):
    if not data:
        return data
    alt = ''.join(chr(ord('a') + (ord(ch) + 7) % 26) for ch in data)
    return alt if rng.random() < 0.8 else data


def _history(rng):
    """(first archive, second archive): an update of a dataset extracted over its first version (same paths; same
    size and different content, other sizes, new files), or the same path twice in one archive (the last one wins)"""
    v1 = [m for m in _benign(rng, rng.randint(1, 5))]
    if rng.random() < 0.3:        # one archive, duplicate names of equal size
        m = rng.choice([x for x in v1 if x['k'] == 'reg'] or [_reg(rng, 'f.txt')])
        dup = dict(m, data=_same_size_variant(rng, m['data']) or 'q')
        ms = v1 + [dup] if m in v1 else [m, dup]
        if rng.random() < 0.3:
            ms.append(dict(m, data=m['data'] + 'longer'))
        return None, ms
    v2 = []
    for m in v1:
        if m['k'] != 'reg':
            v2.append(dict(m))
            continue
        r = rng.random()
        if r < 0.55:
            v2.append(dict(m, data=_same_size_variant(rng, m['data'])))
        elif r < 0.8:
            v2.append(dict(m, data=m['data'] + rng.choice(['+', ' updated'])))
        elif r < 0.9:
            v2.append(dict(m))
    if rng.random() < 0.5:
        v2.append(_reg(rng, rng.choice(['new_in_v2.txt', 'a/new_in_v2.txt'])))
    return v1, (v2 or [dict(v1[0])])


def _prior(rng):
    """a benign archive the same process installed before, into ANOTHER directory that the caller spelled the same way:
    real directories (and files) under the names later archives use for their links"""
    ms = []
    for n in rng.sample(['a', 'b', 'd', 'sub', 'l', 'k', 'out', 'here', 's', 't', 'n', 'q', 'c', 'x', 'ext', 'self', 'pre', 'h'],
                        rng.randint(1, 4)):
        ms.append(rng.choice([_reg(rng, n + '/readme.txt'), _dir(rng, n), _reg(rng, n + '/' + rng.choice(DIRS) + '/f.txt'),
                              _reg(rng, n)]))
    return ms


def _respelled(rng):
    """(how, prior, pre, members): the install directory is spelled relative to the working directory or through a
    symbolic link, and the process has already installed an archive into another directory spelled the same way; the
    members are judged against the directory the spelling denotes NOW"""
    how = rng.choice(HOWS_PRIOR)
    v = rng.randrange(6)
    if v == 0:          # links that are harmless in the earlier directory (real directories there), not in this one
        x = rng.choice(['a', 'b', 'd', 'sub'])
        prior = [rng.choice([_reg(rng, x + '/readme.txt'), _dir(rng, x)])]
        ms = [_sym(x, '.'), _sym('esc', x + '/..'), _reg(rng, 'esc/' + rng.choice(['pwned.txt', 'sentinel.txt']))]
        if rng.random() < 0.4:
            ms = ms[:2] + [_reg(rng, 'esc/outdir/keep.txt')]
        return how, prior, rng.choice(['fresh', 'populated']), ms
    if v == 1:          # through a link the user made in this directory only
        ms = [rng.choice([_reg(rng, 'ext/new.txt'), _reg(rng, 'ext/keep.txt'), _dir(rng, 'ext/nd'), _sym('ext/back', '../install/y'),
                          _reg(rng, 'k/old.txt'), _reg(rng, 'self/f.txt'), _hard('ext/h', 'f.txt')])]
        return how, _prior(rng), 'populated', ms
    if v == 2:
        return how, _prior(rng), rng.choice(['fresh', 'populated']), _repoint(rng)
    if v == 3:          # a hard link whose target exists in the earlier directory only / in this one only
        ms = [_hard('h', rng.choice(['a/readme.txt', 'f.txt', 'pre/old.txt', 'l/readme.txt'])), _reg(rng, 'h')]
        return how, [_reg(rng, 'a/readme.txt'), _reg(rng, 'l/readme.txt')], rng.choice(['fresh', 'populated']), ms
    if v == 4:
        kind, ms = _scenario(rng)
        return how, _prior(rng), 'populated' if kind == 'user-link' else rng.choice(['fresh', 'populated']), ms
    return how, _prior(rng), rng.choice(['fresh', 'populated']), _benign(rng, rng.randint(1, 5))


def _scenario(rng):
    r = rng.randrange(27)
    if r >= 25:
        return 'repoint', _repoint(rng)
    if r >= 23:
        return 'backslash', _backslash(rng)
    if r >= 20:
        return 'inside-links', _inside_links(rng)
    if r < 6:
        return 'benign', _benign(rng, rng.randint(1, 8))
    if r < 9:
        ms = _benign(rng, rng.randint(1, 5))
        ms.insert(rng.randint(0, len(ms)), _hostile(rng))
        return 'benign+hostile', ms
    if r < 11:      # link first, then a file through the link
        ln = rng.choice(['l', 'a/l', 'k', 'd/e/l'])
        ms = [_sym(ln, _target(rng))]
        ms.append(rng.choice([_reg(rng, ln + '/' + rng.choice(['x.txt', 'sentinel.txt', 'keep.txt'])), _reg(rng, ln),
                              _dir(rng, ln + '/newd'), _sym(ln + '/s2', _target(rng)), _hard(ln + '/h2', 'f.txt')]))
        if rng.random() < 0.4:
            ms.insert(0, rng.choice([_dir(rng, 'a'), _reg(rng, 'f.txt'), _dir(rng, ln)]))
        return 'link-then-through', ms
    if r < 13:      # hard link, then overwrite through it
        ms = []
        if rng.random() < 0.6:
            ms.append(_reg(rng, 'f.txt'))
        tgt = rng.choice(['f.txt', 'f.txt', '../sentinel.txt', '$P/sentinel.txt', 'ext/keep.txt', 'pre/old.txt', 'hl1',
                          '../outdir/keep.txt', 'a/../f.txt', 'missing'])
        ms += [_hard(rng.choice(['h', 'a/h']), tgt), _reg(rng, rng.choice(['h', 'a/h']))]
        return 'hard-then-write', ms
    if r < 15:      # duplicate a link at another depth, then use it
        x = rng.choice(['outdir', 'nonexist', 'sentinel.txt', 'install/f.txt'])
        ms = [_sym('d/l', '../' + x), _hard('out', 'd/l')]
        ms.append(rng.choice([_reg(rng, 'out'), _reg(rng, 'out/new.txt'), _sym('out/back', '../install/y'),
                              _dir(rng, 'out/nd'), _hard('out/h', 'f.txt'), _reg(rng, 'out/back')]))
        if rng.random() < 0.3:
            ms.insert(0, _reg(rng, 'f.txt'))
        return 'dup-link', ms
    if r < 16:      # through a user-made link that leaves the install directory (populated tree)
        return 'user-link', [rng.choice([_sym('ext/back', '../install/y'), _reg(rng, 'ext/new.txt'), _dir(rng, 'ext/nd'),
                                         _reg(rng, 'ext/keep.txt'), _reg(rng, 'ext/back'), _hard('ext/h', 'f.txt'),
                                         _reg(rng, 'self/f.txt'), _reg(rng, 'dang'), _reg(rng, 'k/old.txt')])] + \
            ([_reg(rng, 'after.txt')] if rng.random() < 0.5 else [])
    if r < 18:      # kind replacement at the same name
        n = rng.choice(['f.txt', 'd', 'l', 'pre', 'hl1', 'dang'])
        mk = lambda: rng.choice([_reg(rng, n), _dir(rng, n), _sym(n, _target(rng)), _hard(n, _target(rng))])  # noqa: E731
        ms = [mk(), mk()]
        if rng.random() < 0.5:
            ms.append(rng.choice([_reg(rng, rng.choice(['g.txt', 'f.txt', 'a', 'x'])), _dir(rng, 'x'), _reg(rng, n + '/in.txt')]))
        return 'replace', ms
    ms = [_random_member(rng) for _ in range(rng.randint(1, 6))]
    return 'random', ms


def _small_scope():
    """every archive of one or two members over a small alphabet of kinds, names and link targets (thorough tier)"""
    names = ['f.txt', 'a/f.txt', '../f.txt', 'l', 'l/x.txt', '..\\f.txt']
    targets = ['f.txt', '../outdir', '.', '$P/outdir', '..\\outdir']
    singles = []
    for n in names:
        singles.append({'k': 'reg', 'name': n, 'data': 'x', 'mode': 0o644})
        singles.append({'k': 'dir', 'name': n})
        for t in targets:
            singles.append(_sym(n, t))
            singles.append(_hard(n, t))
    for m in singles:
        yield [m]
    for m1 in singles:
        for m2 in singles:
            yield [m1, dict(m2, data='y') if m2['k'] == 'reg' else m2]


def gen_cases(rng, tier):
    n = 320 if tier == 'quick' else 2000
    cases = []
    # absolute member names: a fixed, small number (see _abs_member)
    for _ in range(6 if tier == 'quick' else 30):
        ms = [_abs_member(rng)]
        if rng.random() < 0.5:
            ms.insert(rng.randint(0, 1), _reg(rng, 'f.txt'))
        cases.append({'pre': rng.choice(['fresh', 'populated']), 'members': ms, 'gz': rng.random() < 0.5, 'stream': 'absolute'})
    while len(cases) < n:
        if rng.random() < 0.09:
            first, ms = _history(rng)
            cases.append({'pre': rng.choice(['fresh', 'fresh', 'populated']), 'first': first, 'members': ms,
                          'gz': rng.random() < 0.5, 'stream': 'history' if first else 'duplicate-names',
                          'how': rng.choice(HOWS) if rng.random() < 0.3 else 'abs'})
            continue
        if rng.random() < 0.07:
            how, prior, pre, ms = _respelled(rng)
            if _members_safe(ms) and _members_safe(prior):
                cases.append({'pre': pre, 'members': ms, 'gz': rng.random() < 0.5, 'stream': 'respelled', 'how': how, 'prior': prior})
            continue
        kind, ms = _scenario(rng)
        if kind not in ('benign',) and rng.random() < 0.3:
            rng.shuffle(ms)
        if rng.random() < 0.06:
            ms.append({'k': 'fifo', 'name': rng.choice(['pipe', 'a/pipe', '../pipe', 'f.txt'])})   # always last
        pre = 'populated' if (kind == 'user-link' or rng.random() < 0.4) else 'fresh'
        if not _members_safe(ms):
            continue
        case = {'pre': pre, 'members': ms, 'gz': rng.random() < 0.5, 'stream': kind}
        if rng.random() < 0.3:
            case['how'] = rng.choice(HOWS[1:])
            if case['how'] in HOWS_PRIOR and rng.random() < 0.25:
                case['prior'] = _prior(rng)
        if rng.random() < 0.15:
            for m in ms:
                m['uid'] = rng.choice([0, 1000, 65534])
        cases.append(case)
    if tier == 'thorough':
        for ms in _small_scope():
            cases.append({'pre': 'fresh', 'members': ms, 'gz': False, 'stream': 'small-scope'})
    return cases


# ---------------------------------------------------------------------------------------- implementation runner
def _snapshot(top):
    snap = {}
    for d, dirs, files in os.walk(top, followlinks=False):
        for n in dirs + files:
            p = os.path.join(d, n)
            rel = os.path.relpath(p, top)
            st = os.lstat(p)
            if stat.S_ISLNK(st.st_mode):
                snap[rel] = ['sym', os.readlink(p)]
            elif stat.S_ISDIR(st.st_mode):
                snap[rel] = ['dir']
            elif stat.S_ISREG(st.st_mode):
                with open(p, 'rb') as f:
                    snap[rel] = ['file', f.read().decode('latin-1'), st.st_ino, (st.st_mode & 0o600) == 0o600]
            else:
                snap[rel] = ['special']
    return snap


def _leaving(install):
    """the symbolic links below install that resolve outside it, as (relative path, text)"""
    real = os.path.realpath(install)
    out = set()
    for d, dirs, files in os.walk(real, followlinks=False):
        for n in dirs + files:
            p = os.path.join(d, n)
            if os.path.islink(p):
                rp = os.path.realpath(p)
                if rp != real and not rp.startswith(real + os.sep):
                    out.add((os.path.relpath(p, real), os.readlink(p)))
    return out


def _build_tree(P, pre):
    groups = {}
    for ent in OUTSIDE + [['install', 'dir']] + PRE[pre]:
        p = os.path.join(P, ent[0])
        if ent[1] == 'dir':
            os.makedirs(p, exist_ok=True)
        elif ent[1] == 'sym':
            os.symlink(ent[2], p)
        else:
            g = ent[3] if len(ent) > 3 else None
            if g and g in groups:
                os.link(groups[g], p)
            else:
                with open(p, 'wb') as f:
                    f.write(ent[2].encode())
                os.chmod(p, 0o644)
                os.utime(p, (MTIME, MTIME))      # same whole-second mtime as the archive members
                if g:
                    groups[g] = p


def _build_archive(path, members, P, top, gz):
    with tarfile.open(path, 'w:gz' if gz else 'w') as t:
        for m in members:
            ti = tarfile.TarInfo(m['name'].replace('$P', P).replace('$T', top))
            ti.mtime = MTIME
            if 'uid' in m:
                ti.uid, ti.gid, ti.uname, ti.gname = m['uid'], m['uid'], 'u%d' % m['uid'], 'g%d' % m['uid']
            if m['k'] == 'reg':
                data = m['data'].encode()
                ti.type, ti.size, ti.mode = tarfile.REGTYPE, len(data), m.get('mode', 0o644)
                t.addfile(ti, io.BytesIO(data))
                continue
            if m['k'] == 'dir':
                ti.type, ti.mode = tarfile.DIRTYPE, m.get('mode', 0o755)
            elif m['k'] == 'sym':
                ti.type, ti.linkname = tarfile.SYMTYPE, m['target'].replace('$P', P)
            elif m['k'] == 'hard':
                ti.type, ti.linkname = tarfile.LNKTYPE, m['target'].replace('$P', P)
            else:
                ti.type = tarfile.FIFOTYPE
            t.addfile(ti)


def _classify_exc(e):
    if e is None:
        return 'ok'
    for cls, tag in ((tarfile.LinkOutsideDestinationError, 'f_linkoutside'), (tarfile.OutsideDestinationError, 'f_outside'),
                     (tarfile.AbsoluteLinkError, 'f_abslink'), (tarfile.SpecialFileError, 'f_special'),
                     (tarfile.FilterError, 'f_other'), (OSError, 'oserr')):
        if isinstance(e, cls):
            return tag
    return 'other'


def _spelling(how, P, W=None):
    """(working directory or None, text): how the caller names <P>/install (<W>/install for the earlier call)"""
    base = W or P
    return {'abs': (None, os.path.join(base, 'install')),
            'trail': (None, os.path.join(base, 'install') + '/'),
            'rel': (base, 'install'),
            'dotted': (base, './install/.'),
            'dot': (os.path.join(base, 'install'), '.'),
            'up': (os.path.join(base, 'outdir'), '../install'),
            'sym': (None, os.path.join(P, 'inst')),          # <P>/inst -> install (or -> w1/install, earlier)
            'relsym': (P, 'inst')}[how]


def _call(fn, archive, cwd, text):
    """fn(archive, text) from the working directory cwd; the working directory of the harness is always restored"""
    old = os.getcwd()
    try:
        if cwd:
            os.chdir(cwd)
        fn(archive, text)
    finally:
        os.chdir(old)


def run_impl(case, ctx):
    from kapture.converter.downloader.archives import untar_file
    how = case.get('how', 'abs')
    if how not in HOWS or (case.get('prior') and (how not in HOWS_PRIOR or not _members_safe(case['prior']))):
        raise ValueError('case violates the sandbox safety bound of the harness')
    if not _members_safe(case['members']):
        raise ValueError('case violates the sandbox safety bound of the harness')
    depth = _depth_for(case['members'])
    assert depth >= 41 * max(2, max([_count_dotdot(m['name']) for m in case['members']]
                                    + [_count_dotdot(m.get('target', '')) for m in case['members']]))
    top = os.path.realpath(os.path.join(ctx['tmp'], 'sb%d' % depth))
    assert top.startswith(os.path.realpath(ctx['tmp']))
    P = os.path.join(top, *_chain(depth))
    # the chain of DEPTH directories above P is kept from one case to the next (it is verified after each case
    # and rebuilt if anything touched it); P itself is rebuilt for every case
    if os.path.lexists(P):
        shutil.rmtree(P)
    os.makedirs(P)
    install = os.path.join(P, 'install')
    old_umask = os.umask(0o022)
    try:
        _build_tree(P, case['pre'])
        first_problem = None
        cwd, text = _spelling(how, P)
        if case.get('prior'):
            # the process has installed another archive before, into <P>/w1/install, spelled exactly as the install
            # directory of the judged call is (from another working directory / through the link before it was re-pointed)
            W = os.path.join(P, 'w1')
            os.makedirs(os.path.join(W, 'install'))
            os.makedirs(os.path.join(W, 'outdir'))
            if how in ('sym', 'relsym'):
                os.symlink('w1/install', os.path.join(P, 'inst'))
            archive0 = os.path.join(os.path.realpath(ctx['tmp']), 'archive0.tar')
            _build_archive(archive0, case['prior'], P, top, False)
            snap0 = _snapshot(top)
            exc0 = None
            with warnings.catch_warnings():
                warnings.simplefilter('ignore')
                try:
                    _call(untar_file, archive0, *_spelling(how, P, W))
                except Exception as e:
                    exc0 = e
            os.unlink(archive0)
            snap1 = _snapshot(top)
            winst = os.path.join(os.path.relpath(W, top), 'install')
            moved = sorted(k for k in set(snap0) | set(snap1) if not (k == winst or k.startswith(winst + os.sep))
                           and (snap0.get(k) or [None])[:2] != (snap1.get(k) or [None])[:2])
            if moved:
                first_problem = 'earlier archive: something outside its install directory was created or modified: ' + \
                                ','.join(os.path.relpath(k, os.path.relpath(P, top)) for k in moved[:3])
            elif exc0 is not None:
                first_problem = 'earlier archive: a benign archive was not extracted: ' + type(exc0).__name__
            if how in ('sym', 'relsym'):
                os.remove(os.path.join(P, 'inst'))
        if how in ('sym', 'relsym'):
            os.symlink('install', os.path.join(P, 'inst'))
        if case.get('first'):
            # history: a first (benign) archive is extracted by the code under test, and judged, before the one compared
            if not _members_safe(case['first']):
                raise ValueError('case violates the sandbox safety bound of the harness')
            archive1 = os.path.join(os.path.realpath(ctx['tmp']), 'archive1.tar')
            _build_archive(archive1, case['first'], P, top, False)
            snap0 = _snapshot(top)
            exc1 = None
            with warnings.catch_warnings():
                warnings.simplefilter('ignore')
                try:
                    _call(untar_file, archive1, cwd, text)
                except Exception as e:
                    exc1 = e
            os.unlink(archive1)
            snap1 = _snapshot(top)
            prel0 = os.path.relpath(P, top)
            obs1 = {'outcome': _classify_exc(exc1), 'exc': repr(exc1), 'new_leaving': [], 'chain_ok': True,
                    'outside_changed': [k for k in set(snap0) | set(snap1) if not (k == prel0 + '/install' or k.startswith(prel0 + '/install/'))
                                        and (snap0.get(k) or [None])[:2] != (snap1.get(k) or [None])[:2]],
                    'pre': {os.path.relpath(k, prel0): v for k, v in snap0.items() if k.startswith(prel0 + os.sep)},
                    'final': {os.path.relpath(k, prel0): v for k, v in snap1.items() if k.startswith(prel0 + os.sep)}}
            first_problem = first_problem or oracle({'members': case['first']}, obs1)
        archive = os.path.join(os.path.realpath(ctx['tmp']), 'archive.tar' + ('.gz' if case['gz'] else ''))
        _build_archive(archive, case['members'], P, top, case['gz'])
        before = _snapshot(top)
        leaving_before = _leaving(install)
        lib = []
        with tarfile.open(archive, 'r:*') as t:
            for ti in t:
                try:
                    tarfile.data_filter(ti, install)
                    lib.append('ok')
                except Exception as e:
                    lib.append(_classify_exc(e))
        exc = None
        with warnings.catch_warnings():
            warnings.simplefilter('ignore')
            try:
                _call(untar_file, archive, cwd, text)
            except BaseException as e:      # noqa: B036  (RecursionError, KeyError, ... are observed outcomes)
                if isinstance(e, (KeyboardInterrupt, SystemExit)) or type(e).__name__ == 'CaseTimeout':
                    raise
                exc = e
        after = _snapshot(top)
        new_leaving = sorted(_leaving(install) - leaving_before) if os.path.isdir(install) else []
    finally:
        os.umask(old_umask)
        shutil.rmtree(P, ignore_errors=True)
        try:
            os.unlink(archive)
        except (OSError, UnboundLocalError):
            pass
    prel = os.path.relpath(P, top)
    inst = os.path.join(prel, 'install')

    def inside(rel):
        return rel == inst or rel.startswith(inst + os.sep)

    def strip_ino(snap):
        return {k: (v[:2] + v[3:] if v[0] == 'file' else v) for k, v in snap.items()}
    out_before = {k: v for k, v in before.items() if not inside(k)}
    out_after = {k: v for k, v in after.items() if not inside(k)}
    changed = sorted(k for k in set(out_before) | set(out_after)
                     if strip_ino(out_before).get(k) != strip_ino(out_after).get(k))
    chain_ok = all((k.startswith(prel + os.sep) or (prel == k or prel.startswith(k + os.sep)) and v == ['dir'])
                   for k, v in after.items())
    if not chain_ok:
        shutil.rmtree(top, ignore_errors=True)

    def under_p(snap):
        return {os.path.relpath(k, prel): v for k, v in snap.items() if k.startswith(prel + os.sep)}
    return {'outcome': _classify_exc(exc), 'exc': None if exc is None else f'{type(exc).__name__}: {exc}'.replace(P, '$P').replace(top, '$T')[:300],
            'pre': under_p(before), 'final': under_p(after), 'outside_changed': [c.replace(prel, '$P') for c in changed],
            'first_problem': first_problem, 'chain_ok': chain_ok, 'lib': lib, 'new_leaving': [list(x) for x in new_leaving], 'P': [c for c in P.split('/') if c], 'top': top,
            'cwd': [c for c in (cwd or P).split('/') if c], 'text': text}


# ---------------------------------------------------------------------------------------- oracle
def _plain_rel(name):
    comps = [c for c in name.split('/') if c not in ('', '.')]
    return None if (name.startswith('/') or '$P' in name or '$T' in name or '..' in comps) else comps


def _benign_expectation(case, obs):
    """None if the archive is not benign for this initial tree, else {relpath: data} of the regular members."""
    pre = obs['pre']
    kinds = {}            # path (tuple) -> 'dir' | 'file', as the archive and the initial tree define it
    for rel, v in pre.items():
        if rel == 'install' or rel.startswith('install/'):
            kinds[tuple(rel.split('/')[1:])] = v[0]
    expect = {}
    for m in case['members']:
        if m['k'] not in ('reg', 'dir'):
            return None
        comps = _plain_rel(m['name'])
        if comps is None or (m['k'] == 'reg' and (not comps or m['name'].endswith('/'))):
            return None
        for i in range(1, len(comps)):
            if kinds.setdefault(tuple(comps[:i]), 'dir') != 'dir':
                return None
        if comps:
            want = 'dir' if m['k'] == 'dir' else 'file'
            if kinds.setdefault(tuple(comps), want) != want:
                return None
        if m['k'] == 'reg':
            expect['/'.join(comps)] = m['data']
    # initial files that are hard-linked to each other would legitimately alias: not benign
    inos = [v[2] for v in pre.values() if v[0] == 'file']
    shared = {i for i in inos if inos.count(i) > 1}
    for rel in expect:
        v = pre.get('install/' + rel)
        if v and v[0] == 'file' and v[2] in shared:
            return None
    return expect


def oracle(case, obs):
    """The property, stated directly on the observed behaviour (independent of the Coq model)."""
    if obs.get('first_problem'):
        return 'first archive of the history: ' + obs['first_problem']
    if obs['outside_changed'] or not obs['chain_ok']:
        return 'something outside the install directory was created or modified: ' + ','.join(obs['outside_changed'][:3])
    if obs.get('new_leaving'):
        # usable by whatever runs next (the caller upgrades the dataset in place right after the extraction)
        return ('a symbolic link left in the install directory resolves outside it: '
                + ','.join(f'{p} -> {t}' for p, t in obs['new_leaving'][:2]))
    expect = _benign_expectation(case, obs)
    if expect is not None:
        if obs['outcome'] != 'ok':
            return 'a benign archive was not extracted: ' + str(obs['exc']).split(':')[0]
        for rel, data in expect.items():
            v = obs['final'].get('install/' + rel)
            if not v or v[0] != 'file' or v[1] != data:
                return 'a regular member of a benign archive is missing or has the wrong content'
            if not v[3]:
                return 'an extracted regular member is not owner-readable and -writable'
    return None


# ---------------------------------------------------------------------------------------- Coq encoding
_OC = {'ok': 'OOk', 'f_outside': '(OFilter FOutside)', 'f_linkoutside': '(OFilter FLinkOutside)',
       'f_abslink': '(OFilter FAbsLink)', 'f_special': '(OFilter FSpecial)', 'f_other': '(OFilter FLeaves)',
       'oserr': 'OOs', 'other': 'OOther'}
_LV = {'ok': 'LAcc', 'f_outside': '(LRej FOutside)', 'f_linkoutside': '(LRej FLinkOutside)',
       'f_abslink': '(LRej FAbsLink)', 'f_special': '(LRej FSpecial)'}


def _cpath(rel):
    return kv.clist(kv.cstr(c) for c in rel.split('/'))


def _ctree(snap, inos):
    ents = []
    for rel in sorted(snap):
        v = snap[rel]
        if v[0] == 'dir':
            n = 'ODir'
        elif v[0] == 'sym':
            n = f'(OSym {kv.cstr(v[1].encode("latin-1", "replace"))})'
        elif v[0] == 'file':
            i = inos.setdefault(v[2], len(inos) + 1)
            n = f'(OFile {kv.cnat(i)} {kv.cstr(v[1].encode("latin-1"))} {kv.cbool(v[3])})'
        else:
            n = 'OSpecial'
        ents.append(kv.cpair(_cpath(rel), n))
    return kv.clist(ents)


def encode(case, obs):
    P = '/' + '/'.join(obs['P'])
    ms = []
    for m in case['members']:
        nm = kv.cstr(m['name'].replace('$P', P).replace('$T', obs['top']))
        if m['k'] == 'reg':
            ms.append(f'(MReg {nm} {kv.cstr(m["data"])})')
        elif m['k'] == 'dir':
            ms.append(f'(MDir {nm})')
        elif m['k'] in ('sym', 'hard'):
            ms.append(f'({"MSym" if m["k"] == "sym" else "MHard"} {nm} {kv.cstr(m["target"].replace("$P", P))})')
        else:
            ms.append(f'(MSpecial {nm})')
    inos = {}
    pre = _ctree(obs['pre'], inos)
    fin = _ctree(obs['final'], inos)
    lib = kv.clist(_LV.get(x, 'LOther') for x in obs['lib'])
    return ('{| c_P := %s; c_pre := %s; c_members := %s; c_cwd := %s; c_text := %s; o_outcome := %s; o_final := %s; '
            'o_outside_same := %s; o_lib := %s |}'
            % (kv.clist(kv.cstr(c) for c in obs['P']), pre, kv.clist(ms), kv.clist(kv.cstr(c) for c in obs['cwd']),
               kv.cstr(obs['text']), _OC[obs['outcome']], fin,
               kv.cbool(not obs['outside_changed'] and obs['chain_ok']), lib))


# ---------------------------------------------------------------------------------------- evidence helpers
def nontrivial(case, obs):
    return len(obs['final']) != len(obs['pre']) or obs['outcome'].startswith('f_') or len(case['members']) > 1


def classify(case, obs):
    kinds = ''.join(sorted({m['k'][0] for m in case['members']}))
    return f'{case.get("stream", "corpus")}/{case["pre"]}/{obs["outcome"]}/kinds={kinds}/{"gz" if case["gz"] else "tar"}'


def describe(case, obs):
    new = sorted(set(obs['final']) - set(obs['pre']))
    return {'pre': case['pre'], 'gz': case['gz'], 'first': case.get('first'), 'members': case['members'],
            'observed': {'outcome': obs['outcome'], 'exc': obs['exc'], 'created': new[:8], 'lib': obs['lib']}}


def shrink(case):
    ms = case['members']
    for i in range(len(ms)):
        if len(ms) > 1:
            yield dict(case, members=ms[:i] + ms[i + 1:])
    first = case.get('first') or []
    for i in range(len(first)):
        yield dict(case, first=first[:i] + first[i + 1:])
    if case['pre'] != 'fresh':
        yield dict(case, pre='fresh')
    if case['gz']:
        yield dict(case, gz=False)


TECHNIQUE = ('Coq proof (confinement of every file-system effect of every member, by induction over arbitrary member lists '
             'with an inode-sharing invariant; refinement of benign archives to their content) over an executable Gallina '
             'model of the extraction filter, tarfile\'s extraction and link fallbacks, realpath and the POSIX calls used; '
             'differential correspondence on real archives by vm_compute')
LEVEL_TEXT = ('Theorems in coq/Props/C18.v hold for every archive (any members, any order) and every initial tree: whatever '
              'the outcome (extracted, refused by the filter, OS error), nodes and file contents outside the install '
              'directory are unchanged; benign archives are extracted completely, every regular member with its content and '
              'owner read/write. The install directory may be spelled in any way (C18_untar_spelled_confined, validated where written: '
              'C18_spelling_validated_where_written) and a process may install any number of archives, the same text denoting '
              'another directory each time (C18_history_confined). The pre-fix behaviour and tarfile\'s "data" filter alone are refuted by computed witnesses. '
              'The model is tied to the code by extracting generated archives with the real untar_file in a sandbox and '
              'comparing outcome class, complete resulting tree (kinds, link texts, contents, hard-link classes, owner rw '
              'bits), the directory the text of the call denotes (resolved by the model from the working directory) and the standard '
              'filter\'s verdict on each member inside Coq.')
LEVEL_NOTE = ('partial: the model of the standard library (tarfile 3.12 extraction, data_filter, posixpath.realpath) and of '
              'POSIX path resolution is validated only by the correspondence run; symlink chains that exhaust the model\'s '
              'fuel are compared on the safety outcome only; races with concurrent modification are out of scope.')
