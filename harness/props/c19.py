"""C19 — clearing a dataset directory removes only dataset files, with consent.
Implementation under test: kapture.io.structure.delete_existing_kapture_files."""
import builtins
import itertools
import os
import re
import shutil

import kv

ID = 'C19'
COQ_MODELS = ['MClear']
COQ_HEADER = 'From KV Require Import Eqb Str.\nFrom KV.Model Require Import MClear.'
CASE_TYPE = 'MClear.case'
CHECK_FN = 'MClear.check_case'
RULE = ('state = kind (absent/file/folder with files/empty folder/folder of empty folders/symlink to folder, file, '
        'nothing) of each candidate path of Gen.Tables plus foreign files; selection = only/skip lists of part types; '
        'consent = forced / answered y / answered n. A case is a SESSION of one or more calls made by one freshly '
        'loaded kapture.io.structure: each call on the directory as the previous calls left it or on a fresh copy '
        'of the initial directory. Enumerated: every single candidate x kind, every pair of candidates x kinds for '
        'a fixed selection set, clear-then-call-again for every candidate x kind, pairs of `only` calls on fresh '
        'directories, plus random states/selections/sessions. Non-trivial = at least one candidate exists AND '
        '(a selection is given or consent is refused or the session has several calls); distinct = distinct '
        '(state, calls).')
TRUSTED = ['host file system semantics of os.remove / shutil.rmtree / os.path.lexists (modelled by kind only)']
ASSUMPTIONS = ['an empty `only` list is treated by the code as "no selection" (everything is deleted); the harness '
               'never passes only=[] and the oracle does not judge it',
               'only/skip are drawn from the part types listed in CSV_FILENAMES / FEATURES_DATA_DIRNAMES',
               'symlink targets live outside the dataset directory; the oracle checks they are untouched',
               'state carried from one call to the next is looked for in kapture.io.structure and kapture.utils.paths (the '
               'modules reloaded before each case); sessions have at most 5 calls']
EXHAUSTIVE = {'quick': False, 'thorough': False}
KINDS = ['absent', 'file', 'dir', 'link_dir', 'link_file', 'link_broken', 'dir_empty', 'dir_empty_nested']
KINDS_OLD = KINDS[1:6]
KINDS_EMPTY = KINDS[6:]
# names for the dataset directory itself; for each, a SIBLING directory with a look-alike name (other unicode
# normalisation form / case / blanks) holds dataset files too and must never be touched
ROOTNAMES = ['cafe\u0301', 'caf\u00e9', 'data set', 'Data', 'data.v1', '\u1100\u1161', 'a\u030a', 'x/../data2', 'data3/']
LOOKALIKE = {'cafe\u0301': 'caf\u00e9', 'caf\u00e9': 'cafe\u0301', 'data set': 'dataset', 'Data': 'data',
             'data.v1': 'data', '\u1100\u1161': '\uac00', 'a\u030a': '\u00e5', 'x/../data2': 'data', 'data3/': 'data'}


def _tables():
    import kapture  # noqa
    import kapture.io.csv as kcsv
    import kapture.io.features as kfeat
    import kapture.io.records as krec
    from kapture.core.Records import RecordsFilePath
    types = {}
    rows = []
    for t, fn in list(kcsv.CSV_FILENAMES.items()) + list(kfeat.FEATURES_DATA_DIRNAMES.items()):
        types[t.__name__] = t
        rows.append((t.__name__, fn.replace('\\', '/'), issubclass(t, RecordsFilePath)))
    rdata = os.path.relpath(krec.get_record_fullpath('/kvroot'), '/kvroot').replace('\\', '/')
    return types, rows, rdata


def _steps(case):
    """The calls of a case: a session ('steps') or the single call given by the top-level fields."""
    if case.get('steps'):
        return [{'only': c.get('only'), 'skip': c.get('skip'), 'consent': c['consent'], 'fresh': bool(c.get('fresh'))}
                for c in case['steps']]
    return [{'only': case['only'], 'skip': case['skip'], 'consent': case['consent'], 'fresh': False}]


def gen_cases(rng, tier):
    types, rows, rdata = _tables()
    paths = sorted({r[1] for r in rows} | {rdata})
    names = [r[0] for r in rows]
    cases = []
    FOREIGN = ['notes.md', 'sensors/mine.txt', 'reconstruction/extra/x.bin']

    def mk(state, only, skip, consent, rootname='data'):
        cases.append({'state': state, 'only': only, 'skip': skip, 'consent': consent, 'rootname': rootname,
                      'foreign': list(FOREIGN)})

    def mks(state, steps, rootname='data'):
        cases.append({'state': state, 'rootname': rootname, 'foreign': list(FOREIGN),
                      'steps': [{'only': o, 'skip': k, 'consent': c, 'fresh': f} for (o, k, c, f) in steps]})
    sel_small = [(None, None), (None, ['RecordsCamera']), (['Keypoints'], None), (None, ['Keypoints', 'Matches']),
                 (['RecordsCamera', 'RecordsDepth', 'RecordsLidar'], None), (None, ['Sensors'])]
    # every single candidate in every kind, every selection of the small set, three consent modes
    for p in paths:
        for k in KINDS_OLD:
            for only, skip in sel_small:
                for consent in ('force', 'y', 'n'):
                    mk({p: k}, only, skip, consent)
        # folders that hold no file (interrupted import, layout prepared by hand): consent is needed all the same
        for k in KINDS_EMPTY:
            for only, skip in sel_small:
                for consent in ('n', 'y'):
                    mk({p: k}, only, skip, consent)
    # singleton only / skip for every type with a full directory
    full = {p: ('dir' if not p.endswith('.txt') else 'file') for p in paths}
    for n in names:
        mk(dict(full), [n], None, 'force')
        mk(dict(full), None, [n], 'force')
        nd = dict(full)
        nd.pop(rdata, None)
        mk(nd, None, [n], 'y')
    # whole layouts made of empty folders only / of empty folders next to dataset files
    dirs_only = {p: 'dir_empty' for p in paths if not p.endswith('.txt')}
    nested_only = {p: 'dir_empty_nested' for p in paths if not p.endswith('.txt')}
    mixed = {p: ('dir_empty' if not p.endswith('.txt') else 'file') for p in paths}
    for stt in (dirs_only, nested_only, mixed):
        for only, skip in sel_small:
            for consent in ('n', 'y', '', 'force'):
                mk(dict(stt), only, skip, consent)
    # dataset directories whose own name is unusual: the call must act on exactly the directory it was given
    # (decomposed / composed accents are distinct names on Linux; spaces, dots, trailing slash, '..' detours)
    for rootname in ROOTNAMES:
        for consent in ('force', 'y', 'n'):
            mk(dict(full), None, None, consent, rootname)
            mk({'sensors/sensors.txt': 'file', rdata: 'dir'}, None, ['RecordsCamera'], consent, rootname)
    # pairs of candidates
    pair_budget = 250 if tier == 'quick' else 4000
    pairs = list(itertools.combinations(paths, 2))
    rng.shuffle(pairs)
    for (p, q) in pairs[:pair_budget]:
        only, skip = rng.choice(sel_small)
        mk({p: rng.choice(KINDS[1:]), q: rng.choice(KINDS[1:])}, only, skip, rng.choice(['force', 'y', 'n']))
    # random states and selections

    def rand_state():
        st = {p: rng.choice(KINDS) for p in paths if rng.random() < rng.choice([0.2, 0.6, 0.95])}
        return {p: k for p, k in st.items() if k != 'absent'}

    def rand_sel():
        mode = rng.choice(['none', 'only', 'skip', 'skip'])
        only = skip = None
        if mode == 'only':
            only = rng.sample(names, rng.randint(1, rng.choice([1, 3, len(names)])))
        elif mode == 'skip':
            skip = rng.sample(names, rng.randint(0, rng.choice([1, 3, len(names)])))
        return only, skip
    n_rand = 300 if tier == 'quick' else 6000
    for _ in range(n_rand):
        only, skip = rand_sel()
        mk(rand_state(), only, skip, rng.choice(['force', 'y', 'n', 'Y', '']))
    # ---- sessions: several calls made by one process
    # (a) clear, then call again on the cleared directory without consent: nothing is left to ask about
    for p in paths:
        for k in KINDS[1:]:
            mks({p: k}, [(None, None, rng.choice(['force', 'y']), False), (None, None, 'n', False)])
    # (b) two `only` / `skip` calls on two fresh full directories: the second must not depend on the first
    file_types = [t for t, _, f in rows if f]
    n_pairs = 40 if tier == 'quick' else 400
    for _ in range(n_pairs):
        a, b = rng.sample(names, 2)
        if _ % 3 == 2:
            mks(dict(full), [(None, [a], 'force', True), (None, [b], rng.choice(['force', 'y']), True)])
        else:
            mks(dict(full), [([a], None, 'force', True), ([b], None, rng.choice(['force', 'y']), True)])
    for x in rng.sample(names, 6 if tier == 'quick' else len(names)):
        mks(dict(full), [(list(file_types), None, 'force', True), ([x], None, 'force', True)])
        mks(dict(full), [(None, [x], 'y', True), (None, None, 'n', True), (None, [x], 'force', True)])
    # (c) random sessions
    n_sess = 120 if tier == 'quick' else 2000
    for _ in range(n_sess):
        st = rand_state() if rng.random() < 0.7 else dict(full)
        steps = []
        for _i in range(rng.randint(2, 5)):
            only, skip = rand_sel()
            steps.append((only, skip, rng.choice(['force', 'y', 'n', 'n', '']), rng.random() < 0.5))
        mks(st, steps)
    return cases


def _snapshot(root):
    snap = {}
    for d, dirs, files in os.walk(root, followlinks=False):
        for n in list(dirs) + files:
            p = os.path.join(d, n)
            rel = os.path.relpath(p, root).replace('\\', '/')
            if os.path.islink(p):
                snap[rel] = 'link:' + os.readlink(p)
            elif os.path.isdir(p):
                snap[rel] = 'dir'
            else:
                with open(p, 'rb') as f:
                    snap[rel] = 'file:' + f.read().hex()
    return snap


def _populate(root, state, outside, foreign):
    for rel, kind in state.items():
        p = os.path.join(root, rel)
        os.makedirs(os.path.dirname(p), exist_ok=True)
        if kind == 'file':
            with open(p, 'wb') as f:
                f.write(b'x')
        elif kind == 'dir':
            os.makedirs(os.path.join(p, 'sub'))
            with open(os.path.join(p, 'sub', 'a.bin'), 'wb') as f:
                f.write(b'y')
        elif kind == 'dir_empty':
            os.makedirs(p)
        elif kind == 'dir_empty_nested':
            os.makedirs(os.path.join(p, 'cam0', 'left'))
            os.makedirs(os.path.join(p, 'cam1'))
        elif kind == 'link_dir':
            os.symlink(os.path.join(outside, 'target_dir'), p)
        elif kind == 'link_file':
            os.symlink(os.path.join(outside, 'target_file'), p)
        elif kind == 'link_broken':
            os.symlink(os.path.join(outside, 'nonexistent'), p)
    for rel in foreign:
        p = os.path.join(root, rel)
        os.makedirs(os.path.dirname(p), exist_ok=True)
        with open(p, 'wb') as f:
            f.write(b'user')


def _build(case, base, outside):
    rootname = case.get('rootname', 'data')
    given = os.path.join(base, 'w', rootname)          # the path handed to the function, as spelled
    root = os.path.normpath(given)                      # the directory it denotes
    os.makedirs(os.path.join(base, 'w', 'x'), exist_ok=True)
    os.makedirs(root)
    if not os.path.exists(outside):
        os.makedirs(os.path.join(outside, 'target_dir'))
        with open(os.path.join(outside, 'target_dir', 'keep.bin'), 'wb') as f:
            f.write(b'precious')
        with open(os.path.join(outside, 'target_file'), 'wb') as f:
            f.write(b'precious-file')
    _populate(root, case['state'], outside, case.get('foreign', []))
    look = LOOKALIKE.get(rootname)
    if look:
        sib = os.path.join(base, 'w', look)
        if not os.path.exists(sib):
            os.makedirs(sib)
            _populate(sib, case['state'], outside, case.get('foreign', []))
    return given, root


def _fresh_function():
    """delete_existing_kapture_files of freshly executed modules: every case starts from the state a new process
    has, so that what a case observes depends on the calls of the case only (replays reproduce)."""
    import importlib
    import kapture.utils.paths as kpaths
    import kapture.io.structure as kstruct
    importlib.reload(kpaths)
    kstruct = importlib.reload(kstruct)
    return kstruct.delete_existing_kapture_files


def _announced(text):
    """The dataset paths named in the question / the refusal message ('"a", "b" already ...'), if it has that form."""
    if not text or ' already ' not in text:
        return None
    head = text.split(' already ')[0]
    if head.startswith('ValueError: '):
        head = head[len('ValueError: '):]
    names = re.findall(r'"([^"]*)"', head)
    if not names or ', '.join(f'"{n}"' for n in names) != head:
        return None
    return [n.replace('\\', '/') for n in names]


def run_impl(case, ctx):
    delete_existing_kapture_files = _fresh_function()
    types, rows, rdata = _tables()
    cand = sorted({r[1] for r in rows} | {rdata})
    base = os.path.join(ctx['tmp'], 'c')
    shutil.rmtree(base, ignore_errors=True)
    os.makedirs(base)
    outside = os.path.join(base, 'outside')
    given = root = None
    steps_obs = []
    old_input = builtins.input
    try:
        for i, step in enumerate(_steps(case)):
            if root is None or step['fresh']:
                given, root = _build(case, os.path.join(base, f'd{i}'), outside)

            def _snap_out():
                snap = _snapshot(base)
                pref = os.path.relpath(root, base).replace('\\', '/')
                return {k: v for k, v in snap.items() if not (k == pref or k.startswith(pref + '/'))}
            before_in, before_out = _snapshot(root), _snap_out()
            only = None if step['only'] is None else [types[n] for n in step['only']]
            skip = None if step['skip'] is None else [types[n] for n in step['skip']]
            only_arg, skip_arg = (None if only is None else list(only)), (None if skip is None else list(skip))
            asked = []

            def fake_input(prompt='', _asked=asked, _answer=step['consent']):
                _asked.append(prompt)
                return _answer
            builtins.input = fake_input
            outcome, exc = 'ret', None
            try:
                delete_existing_kapture_files(given, force_erase=(step['consent'] == 'force'), only=only_arg, skip=skip_arg)
            except ValueError as e:
                exc = f'ValueError: {e}'
                outcome = 'refused' if 'already exist' in str(e) else 'crash'
            except Exception as e:
                exc = f'{type(e).__name__}: {e}'
                outcome = 'crash'
            finally:
                builtins.input = old_input
            after_in, after_out = _snapshot(root), _snap_out()
            removed_top = sorted((p for p in cand if p in before_in and p not in after_in), reverse=True)
            # anything else that changed inside (not beneath a removed candidate)
            other = []
            for rel in set(before_in) | set(after_in):
                if before_in.get(rel) != after_in.get(rel):
                    if rel in removed_top or any(rel.startswith(t + '/') for t in removed_top):
                        continue
                    other.append(rel)
            announced = _announced(asked[0] if asked else (exc if outcome == 'refused' else None))
            steps_obs.append({'announced': announced, 'outcome': outcome, 'exc': exc, 'removed': removed_top, 'other_changes': sorted(other),
                              'outside_changed': before_out != after_out, 'asked': len(asked),
                              'present_before': {p: before_in[p].split(':')[0] for p in cand if p in before_in},
                              'args_mutated': (only_arg != only) or (skip_arg != skip)})
    finally:
        builtins.input = old_input
        shutil.rmtree(base, ignore_errors=True)
    return {'steps': steps_obs}


def _consented(step):
    return step['consent'] == 'force' or step['consent'].lower() == 'y'


def _oracle_step(rows, rdata, step, obs):
    """The property for one call, on the directory as it was observed just before the call."""
    st = obs['present_before']
    only, skip = step['only'], step['skip']
    if obs['outside_changed']:
        return 'something outside the dataset directory was modified (symlink followed?)'
    if obs['other_changes']:
        return 'a path that is not a selected dataset file changed: ' + ','.join(obs['other_changes'][:3])
    if not _consented(step):
        if obs['removed']:
            return 'deleted without consent: ' + ','.join(obs['removed'][:3])
        if obs['outcome'] == 'crash':
            return 'unexpected exception without consent: ' + str(obs['exc'])
        return None
    if obs['outcome'] != 'ret':
        return f'call did not succeed although consent was given: {obs["exc"]}'
    if step['consent'] != 'force' and obs['removed'] and not obs['asked']:
        return 'deleted without being forced and without asking: ' + ','.join(obs['removed'][:3])
    if step['consent'] != 'force' and obs.get('announced') is not None and set(obs['removed']) - set(obs['announced']):
        return 'deleted a path that the confirmed question did not name: ' + ','.join(sorted(set(obs['removed']) - set(obs['announced']))[:3])

    def selected(t):
        if only:
            return t in only
        return t not in (skip or [])
    kept_needs_files = any(f and not selected(t) for t, _, f in rows)
    expect = set()
    for t, p, _ in rows:
        if p != rdata and selected(t) and p in st:
            expect.add(p)
    if rdata in st and not kept_needs_files:
        expect.add(rdata)
    if set(obs['removed']) != expect:
        return (f'deleted set differs from the selected existing dataset paths: extra={sorted(set(obs["removed"]) - expect)} '
                f'missing={sorted(expect - set(obs["removed"]))}')
    return None


def oracle(case, obs):
    """The property, stated directly on the observed behaviour (independent of the Coq model), at every call."""
    types, rows, rdata = _tables()
    steps = _steps(case)
    for i, (step, so) in enumerate(zip(steps, obs['steps'])):
        sig = _oracle_step(rows, rdata, step, so)
        if sig:
            return sig if len(steps) == 1 else f'call {i + 1} of {len(steps)} in one process: {sig}'
    if len(obs['steps']) != len(steps):
        return 'session did not run to its end'
    return None


_K = {'file': 'File', 'dir': 'Dir', 'dir_empty': 'Dir', 'dir_empty_nested': 'Dir',
      'link_dir': 'Link', 'link_file': 'Link', 'link_broken': 'Link'}
_OC = {'ret': 'ORet', 'refused': 'ORefused', 'crash': 'OCrash'}


def encode(case, obs):
    st = kv.clist(kv.cpair(kv.cstr(p), _K[k]) for p, k in sorted(case['state'].items()))
    terms = []
    for step, so in zip(_steps(case), obs['steps']):
        call = '{| k_only := %s; k_skip := %s; k_force := %s; k_yes := %s; k_fresh := %s |}' % (
            kv.clist(kv.cstr(x) for x in (step['only'] or [])), kv.clist(kv.cstr(x) for x in (step['skip'] or [])),
            kv.cbool(step['consent'] == 'force'), kv.cbool(step['consent'].lower() == 'y'), kv.cbool(step['fresh']))
        terms.append('{| s_call := %s; o_outcome := %s; o_removed := %s; o_asked := %s; o_announced := %s |}' % (
            call, _OC[so['outcome']], kv.clist(kv.cstr(x) for x in so['removed']), kv.cbool(so['asked'] > 0),
            kv.copt(None if so.get('announced') is None else kv.clist(kv.cstr(x) for x in so['announced']))))
    return '{| c_state := %s; c_steps := %s |}' % (st, kv.clist(terms))


def nontrivial(case, obs):
    steps = _steps(case)
    return bool(case['state']) and (len(steps) > 1 or bool(steps[0]['only']) or bool(steps[0]['skip'])
                                    or not _consented(steps[0]))


def classify(case, obs):
    steps = _steps(case)
    step, so = steps[-1], obs['steps'][-1]
    sel = 'only' if step['only'] else ('skip' if step['skip'] else 'all')
    empt = '/emptydirs' if any(k in KINDS_EMPTY for k in case['state'].values()) else ''
    return (f'calls={len(steps)}/{sel}/{"consent" if _consented(step) else "noconsent"}/{so["outcome"]}'
            f'/n={min(len(case["state"]), 5)}{empt}')


def describe(case, obs):
    return {'state': case['state'], 'calls': _steps(case),
            'observed': [{k: so[k] for k in ('outcome', 'removed', 'asked', 'exc')} for so in obs['steps']]}


def shrink(case):
    steps = _steps(case)
    if len(steps) > 1:
        for i in range(len(steps)):
            c = {k: v for k, v in case.items() if k not in ('only', 'skip', 'consent')}
            c['steps'] = steps[:i] + steps[i + 1:]
            yield c
    for p in list(case['state']):
        c = dict(case)
        c['state'] = {q: k for q, k in case['state'].items() if q != p}
        yield c
    for i, step in enumerate(steps):
        for key in ('only', 'skip'):
            if step[key] and len(step[key]) > 1:
                for x in step[key]:
                    c = {k: v for k, v in case.items() if k not in ('only', 'skip', 'consent')}
                    c['steps'] = [dict(s2) for s2 in steps]
                    c['steps'][i][key] = [y for y in step[key] if y != x]
                    yield c

TECHNIQUE = ('Coq proof (iff-characterisation of the deleted set, totality, action-by-kind, prompt iff, and invariants of '
             'sessions of calls by induction on the history) over a Gallina model instantiated with tables regenerated '
             'from the source; differential correspondence by vm_compute over single calls and sessions')
LEVEL_TEXT = ('Theorems in coq/Props/C19.v hold for every directory state, every only/skip selection, both consent values and '
              'every history of calls: nothing is deleted without consent and a refused call leaves the directory as it was, '
              'the call always succeeds with consent, the deleted set is exactly the existing paths of selected parts '
              '(records_data kept iff a kept part stores record files), the user is asked iff not forced and something would '
              'be deleted, the question names exactly what a yes deletes, links and files are unlinked and only real folders '
              'removed recursively, candidate paths are pairwise non-nested; over sessions: foreign paths keep their kind, '
              'paths only disappear, a cleared selection stays quiet, a call on a fresh directory after any history behaves '
              'as the call alone. The model is tied to the code by running delete_existing_kapture_files of freshly loaded '
              'modules on real directories (all kinds incl. folders without files, symlinks to an outside sentinel, dangling '
              'links), alone and in sessions, and comparing outcome, removed set, whether input() was called and the paths '
              'named in the question / refusal inside Coq at every call.')
LEVEL_NOTE = ('Trusted: Coq kernel + vm_compute, harness encoders, os.remove/rmtree/lexists semantics (modelled by kind only), '
              'tables read by introspection. only=[] is outside the judged domain. Module state is reset (importlib.reload of '
              'kapture.utils.paths and kapture.io.structure) before every case, so histories are exactly the calls of a case.')
