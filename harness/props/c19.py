"""C19 — clearing a dataset directory removes only dataset files, with consent.
Implementation under test: kapture.io.structure.delete_existing_kapture_files."""
import builtins
import itertools
import os
import shutil

import kv

ID = 'C19'
COQ_MODELS = ['MClear']
COQ_HEADER = 'From KV Require Import Eqb Str.\nFrom KV.Model Require Import MClear.'
CASE_TYPE = 'MClear.case'
CHECK_FN = 'MClear.check_case'
RULE = ('state = kind (absent/file/folder/symlink) of each candidate path of Gen.Tables plus foreign files; '
        'selection = only/skip lists of part types; consent = forced / answered y / answered n. '
        'Enumerated: every single candidate x kind, every pair of candidates x kinds for a fixed selection set, '
        'plus random states/selections. Non-trivial = at least one candidate exists AND a selection is given or '
        'consent is refused; distinct = distinct (state, only, skip, consent-mode).')
TRUSTED = ['host file system semantics of os.remove / shutil.rmtree / os.path.lexists (modelled by kind only)']
ASSUMPTIONS = ['an empty `only` list is treated by the code as "no selection" (everything is deleted); the harness '
               'never passes only=[] and the oracle does not judge it',
               'only/skip are drawn from the part types listed in CSV_FILENAMES / FEATURES_DATA_DIRNAMES',
               'symlink targets live outside the dataset directory; the oracle checks they are untouched']
EXHAUSTIVE = {'quick': False, 'thorough': False}
KINDS = ['absent', 'file', 'dir', 'link_dir', 'link_file', 'link_broken']
# names for the dataset directory itself; for each, a SIBLING directory with a look-alike name (other unicode
# normalisation form / case / blanks) holds dataset files too and must never be touched
ROOTNAMES = ['cafe\u0301', 'caf\u00e9', 'data set', 'Data', 'data.v1', '\u1100\u1161', 'a\u030a', 'x/../data2', 'data3/']
LOOKALIKE = {'cafe\u0301': 'caf\u00e9', 'caf\u00e9': 'cafe\u0301', 'data set': 'dataset', 'Data': 'data',
             'data.v1': 'data', '\u1100\u1161': '\uac00', 'a\u030a': '\u00e5', 'x/../data2': 'data', 'data3/': 'data'}


def _tables():
    import kapture  # noqa
    import kapture.io.csv as kcsv
    import kapture.io.features as kfeat
    import kapture.io.records as krec
    from kapture.core.Records import RecordsFilePath
    types = {}
    rows = []
    for t, fn in list(kcsv.CSV_FILENAMES.items()) + list(kfeat.FEATURES_DATA_DIRNAMES.items()):
        types[t.__name__] = t
        rows.append((t.__name__, fn.replace('\\', '/'), issubclass(t, RecordsFilePath)))
    rdata = os.path.relpath(krec.get_record_fullpath('/kvroot'), '/kvroot').replace('\\', '/')
    return types, rows, rdata


def gen_cases(rng, tier):
    types, rows, rdata = _tables()
    paths = sorted({r[1] for r in rows} | {rdata})
    names = [r[0] for r in rows]
    cases = []

    def mk(state, only, skip, consent, rootname='data'):
        cases.append({'state': state, 'only': only, 'skip': skip, 'consent': consent, 'rootname': rootname,
                      'foreign': ['notes.md', 'sensors/mine.txt', 'reconstruction/extra/x.bin']})
    sel_small = [(None, None), (None, ['RecordsCamera']), (['Keypoints'], None), (None, ['Keypoints', 'Matches']),
                 (['RecordsCamera', 'RecordsDepth', 'RecordsLidar'], None), (None, ['Sensors'])]
    # every single candidate in every kind, every selection of the small set, three consent modes
    for p in paths:
        for k in KINDS[1:]:
            for only, skip in sel_small:
                for consent in ('force', 'y', 'n'):
                    mk({p: k}, only, skip, consent)
    # singleton only / skip for every type with a full directory
    full = {p: ('dir' if not p.endswith('.txt') else 'file') for p in paths}
    for n in names:
        mk(dict(full), [n], None, 'force')
        mk(dict(full), None, [n], 'force')
        nd = dict(full)
        nd.pop(rdata, None)
        mk(nd, None, [n], 'y')
    # dataset directories whose own name is unusual: the call must act on exactly the directory it was given
    # (decomposed / composed accents are distinct names on Linux; spaces, dots, trailing slash, '..' detours)
    for rootname in ROOTNAMES:
        for consent in ('force', 'y', 'n'):
            mk(dict(full), None, None, consent, rootname)
            mk({'sensors/sensors.txt': 'file', rdata: 'dir'}, None, ['RecordsCamera'], consent, rootname)
    # pairs of candidates
    pair_budget = 250 if tier == 'quick' else 4000
    pairs = list(itertools.combinations(paths, 2))
    rng.shuffle(pairs)
    for (p, q) in pairs[:pair_budget]:
        only, skip = rng.choice(sel_small)
        mk({p: rng.choice(KINDS[1:]), q: rng.choice(KINDS[1:])}, only, skip, rng.choice(['force', 'y', 'n']))
    # random states and selections
    n_rand = 300 if tier == 'quick' else 6000
    for _ in range(n_rand):
        st = {p: rng.choice(KINDS) for p in paths if rng.random() < rng.choice([0.2, 0.6, 0.95])}
        st = {p: k for p, k in st.items() if k != 'absent'}
        mode = rng.choice(['none', 'only', 'skip', 'skip'])
        only = skip = None
        if mode == 'only':
            only = rng.sample(names, rng.randint(1, rng.choice([1, 3, len(names)])))
        elif mode == 'skip':
            skip = rng.sample(names, rng.randint(0, rng.choice([1, 3, len(names)])))
        mk(st, only, skip, rng.choice(['force', 'y', 'n', 'Y', '']))
    return cases


def _snapshot(root):
    snap = {}
    for d, dirs, files in os.walk(root, followlinks=False):
        for n in list(dirs) + files:
            p = os.path.join(d, n)
            rel = os.path.relpath(p, root).replace('\\', '/')
            if os.path.islink(p):
                snap[rel] = 'link:' + os.readlink(p)
            elif os.path.isdir(p):
                snap[rel] = 'dir'
            else:
                with open(p, 'rb') as f:
                    snap[rel] = 'file:' + f.read().hex()
    return snap


def _populate(root, state, outside, foreign):
    for rel, kind in state.items():
        p = os.path.join(root, rel)
        os.makedirs(os.path.dirname(p), exist_ok=True)
        if kind == 'file':
            with open(p, 'wb') as f:
                f.write(b'x')
        elif kind == 'dir':
            os.makedirs(os.path.join(p, 'sub'))
            with open(os.path.join(p, 'sub', 'a.bin'), 'wb') as f:
                f.write(b'y')
        elif kind == 'link_dir':
            os.symlink(os.path.join(outside, 'target_dir'), p)
        elif kind == 'link_file':
            os.symlink(os.path.join(outside, 'target_file'), p)
        elif kind == 'link_broken':
            os.symlink(os.path.join(outside, 'nonexistent'), p)
    for rel in foreign:
        p = os.path.join(root, rel)
        os.makedirs(os.path.dirname(p), exist_ok=True)
        with open(p, 'wb') as f:
            f.write(b'user')


def _build(case, base):
    rootname = case.get('rootname', 'data')
    given = os.path.join(base, 'w', rootname)          # the path handed to the function, as spelled
    root = os.path.normpath(given)                      # the directory it denotes
    outside = os.path.join(base, 'outside')
    os.makedirs(os.path.join(base, 'w', 'x'), exist_ok=True)
    os.makedirs(root)
    os.makedirs(os.path.join(outside, 'target_dir'))
    with open(os.path.join(outside, 'target_dir', 'keep.bin'), 'wb') as f:
        f.write(b'precious')
    with open(os.path.join(outside, 'target_file'), 'wb') as f:
        f.write(b'precious-file')
    _populate(root, case['state'], outside, case['foreign'])
    look = LOOKALIKE.get(rootname)
    if look:
        sib = os.path.join(base, 'w', look)
        if not os.path.exists(sib):
            os.makedirs(sib)
            _populate(sib, case['state'], outside, case['foreign'])
    return given, root, outside


def run_impl(case, ctx):
    from kapture.io.structure import delete_existing_kapture_files
    types, rows, rdata = _tables()
    base = os.path.join(ctx['tmp'], 'c')
    shutil.rmtree(base, ignore_errors=True)
    os.makedirs(base)
    given, root, outside = _build(case, base)

    def _snap_out():
        snap = _snapshot(base)
        pref = os.path.relpath(root, base).replace('\\', '/')
        return {k: v for k, v in snap.items() if not (k == pref or k.startswith(pref + '/'))}
    before_in, before_out = _snapshot(root), _snap_out()
    only = None if case['only'] is None else [types[n] for n in case['only']]
    skip = None if case['skip'] is None else [types[n] for n in case['skip']]
    asked = []
    old_input = builtins.input

    def fake_input(prompt=''):
        asked.append(prompt)
        return case['consent']
    builtins.input = fake_input
    outcome, exc = 'ret', None
    try:
        delete_existing_kapture_files(given, force_erase=(case['consent'] == 'force'), only=only, skip=skip)
    except ValueError as e:
        exc = f'ValueError: {e}'
        outcome = 'refused' if 'already exist' in str(e) else 'crash'
    except Exception as e:
        exc = f'{type(e).__name__}: {e}'
        outcome = 'crash'
    finally:
        builtins.input = old_input
    after_in, after_out = _snapshot(root), _snap_out()
    cand = sorted({r[1] for r in rows} | {rdata})
    removed_top = sorted((p for p in cand if p in before_in and p not in after_in), reverse=True)
    # anything else that changed inside (not beneath a removed candidate)
    other = []
    for rel in set(before_in) | set(after_in):
        if before_in.get(rel) != after_in.get(rel):
            if rel in removed_top or any(rel.startswith(t + '/') for t in removed_top):
                continue
            other.append(rel)
    shutil.rmtree(base, ignore_errors=True)
    return {'outcome': outcome, 'exc': exc, 'removed': removed_top, 'other_changes': sorted(other),
            'outside_changed': before_out != after_out, 'asked': len(asked)}


def _consented(case):
    return case['consent'] == 'force' or case['consent'].lower() == 'y'


def oracle(case, obs):
    """The property, stated directly on the observed behaviour (independent of the Coq model)."""
    types, rows, rdata = _tables()
    st = case['state']
    only, skip = case['only'], case['skip']
    if obs['outside_changed']:
        return 'something outside the dataset directory was modified (symlink followed?)'
    if obs['other_changes']:
        return 'a path that is not a selected dataset file changed: ' + ','.join(obs['other_changes'][:3])
    if not _consented(case):
        if obs['removed']:
            return 'deleted without consent: ' + ','.join(obs['removed'][:3])
        if obs['outcome'] == 'crash':
            return 'unexpected exception without consent: ' + str(obs['exc'])
        return None
    if obs['outcome'] != 'ret':
        return f'call did not succeed although consent was given: {obs["exc"]}'

    def selected(t):
        if only:
            return t in only
        return t not in (skip or [])
    kept_needs_files = any(f and not selected(t) for t, _, f in rows)
    expect = set()
    for t, p, _ in rows:
        if p != rdata and selected(t) and p in st:
            expect.add(p)
    if rdata in st and not kept_needs_files:
        expect.add(rdata)
    if set(obs['removed']) != expect:
        return (f'deleted set differs from the selected existing dataset paths: extra={sorted(set(obs["removed"]) - expect)} '
                f'missing={sorted(expect - set(obs["removed"]))}')
    return None


_K = {'file': 'File', 'dir': 'Dir', 'link_dir': 'Link', 'link_file': 'Link', 'link_broken': 'Link'}


def encode(case, obs):
    st = kv.clist(kv.cpair(kv.cstr(p), _K[k]) for p, k in sorted(case['state'].items()))
    oc = {'ret': 'ORet', 'refused': 'ORefused', 'crash': 'OCrash'}[obs['outcome']]
    return ('{| c_only := %s; c_skip := %s; c_state := %s; c_consent := %s; o_outcome := %s; o_removed := %s |}' % (
        kv.clist(kv.cstr(x) for x in (case['only'] or [])), kv.clist(kv.cstr(x) for x in (case['skip'] or [])),
        st, kv.cbool(_consented(case)), oc, kv.clist(kv.cstr(x) for x in obs['removed'])))


def nontrivial(case, obs):
    return bool(case['state']) and (bool(case['only']) or bool(case['skip']) or not _consented(case))


def classify(case, obs):
    sel = 'only' if case['only'] else ('skip' if case['skip'] else 'all')
    return f'{sel}/{"consent" if _consented(case) else "noconsent"}/{obs["outcome"]}/n={min(len(case["state"]), 5)}'


def describe(case, obs):
    return {'state': case['state'], 'only': case['only'], 'skip': case['skip'], 'consent': case['consent'],
            'observed': {k: obs[k] for k in ('outcome', 'removed', 'exc')}}


def shrink(case):
    for p in list(case['state']):
        c = dict(case)
        c['state'] = {q: k for q, k in case['state'].items() if q != p}
        yield c
    for key in ('only', 'skip'):
        if case[key] and len(case[key]) > 1:
            for x in case[key]:
                c = dict(case)
                c[key] = [y for y in case[key] if y != x]
                yield c

TECHNIQUE = 'Coq proof (iff-characterisation of the deleted set, totality, action-by-kind) over a Gallina model instantiated with tables regenerated from the source; differential correspondence by vm_compute'
LEVEL_TEXT = ('Theorems in coq/Props/C19.v hold for every directory state, every only/skip selection and both consent values: '
              'nothing is deleted without consent, the call always succeeds with consent, the deleted set is exactly the '
              'existing paths of selected parts (records_data kept iff a kept part stores record files), links and files are '
              'unlinked and only real folders removed recursively, candidate paths are pairwise non-nested. The model is tied '
              'to the code by running delete_existing_kapture_files on real directories (all kinds incl. symlinks to an outside '
              'sentinel) and comparing outcome and removed set inside Coq.')
LEVEL_NOTE = ('Trusted: Coq kernel + vm_compute, harness encoders, os.remove/rmtree/lexists semantics (modelled by kind only), '
              'tables read by introspection. only=[] is outside the judged domain.')
