"""C20 — upgrading a 1.0 dataset to 1.1 preserves all of its content.
Implementation under test:
  kapture.utils.upgrade.upgrade_1_0_to_1_1_inplace        (in place; what the downloader runs after install)
  tools/kapture_upgrade_1_0_to_1_1.upgrade_1_0_to_1_1     (copy into a new directory, one image transfer strategy)
  tools/kapture_download_dataset.Dataset.install / .upgrade (histories of installs into one install directory)
observed through the resulting directory trees and kapture.io.csv.kapture_from_dir on them."""
import copy
import logging
import os
import re
import shutil

import kv

ID = 'C20'
COQ_MODELS = ['MUpgrade', 'MDlUpgrade']
COQ_HEADER = ('From KV Require Import Eqb Str AL.\nFrom KV.Model Require Import MUpgrade MDlUpgrade.\n'
              'Local Open Scope string_scope.\nLocal Open Scope list_scope.')
CASE_TYPE = 'MDlUpgrade.xcase'
CHECK_FN = 'MDlUpgrade.check_xcase'
SHARD_SIZE = 12
CASE_TIMEOUT = 120
SEARCH_CAP = 400

RULE = ('case = a version 1.0 dataset directory (text tables written by kapture_to_dir from random datasets and put back '
        'into the 1.0 layout: version line 1.0 / spelled differently / absent, extra comment and blank lines, padded fields, '
        'final newline or not; feature folders with a 3-column descriptor file, data files for nested image names, side json '
        'files, foreign files, image folders named like the feature type; observations without type column, unsorted, with '
        'repeated points) + explicit or defaulted type names + metric names + image transfer strategies. Every case is '
        'upgraded by the in-place route (on a copy) and by the copy route once per listed strategy; each result is listed '
        'file by file and loaded with kapture_from_dir. Every element type name in every spelling (13 names x bare / np. / numpy. prefix, as far as the readers under test accept them) occurs in a 1.0 descriptor file of a deterministic block; every subset of the five reconstruction parts is enumerated on a two-image dataset (quick: defaulted names, version lines present; thorough: x explicit keypoints type x version lines absent). A further stream holds trees outside the domain (wrong or missing '
        'version lines, unknown element type, unnamed feature without explicit type, matches/observations without a '
        'keypoints type, malformed observation rows, already upgraded trees). A third stream holds downloader histories: '
        '1 to 4 dataset archives installed one after the other by the real Dataset.install() (archive deflated, marked, '
        'Dataset.upgrade()) into one install directory (names with blanks, glob characters, hidden folders), through one '
        'InstallDir object or a new one per step, mixed with runs of the upgrade command, with directories that are no 1.0 '
        'dataset (left alone) and, last, one the upgrade refuses; every dataset directory is listed after every step and '
        'loaded at the end. Non-trivial = in the domain of at least one '
        'route and holding at least one reconstruction part or three tables; distinct = distinct (tree, arguments, strategies).')
TRUSTED = ['kapture_from_dir followed by kapture_to_dir is used as the canonical printer of the loaded text tables '
           '(their own correctness is the subject of C01/C02/C04)',
           'host file system semantics of rename/copy/symlink (shutil.move, shutil.copy, os.symlink)',
           'the literal side-file names extract_local_features.json, extract_global_features.json, run_matching.json '
           'are fixed in the model (not introspectable)']
ASSUMPTIONS = ['text files use LF line ends and contain no NUL; fields contain no comma',
               'the version pattern, when present in the first line of a file, sits in a comment line (starts with #)',
               'type names (explicit or defaulted from the 1.0 descriptor) are plain directory names: non-empty, no slash, not . or ..',
               'element type names are float16/32/64, int8..64, uint8..64, float, int, optionally prefixed by np. or numpy. '
               '(each spelling is generated when the 1.0 reader of the tree under test takes it and the 1.1 reader knows the bare name)',
               'the body of the 13 unchanged text tables already has the 1.1 column layout (the premise stated in the upgrade code)',
               'input and output directories are given as absolute paths (root_link with a relative input path makes a dangling link)',
               'image names have a base name with at least one character other than a dot',
               'whitespace / digits / case folding outside ASCII are not modelled (str.strip, \\s, \\d, str.lower)']
EXHAUSTIVE = {'quick': False, 'thorough': False}     # the part-subset scope is enumerated completely, the rest is sampled
TECHNIQUE = ('Coq proofs over an executable file-tree model of both upgrade routes and of the 1.1 loader (content of the '
             'upgraded tree = relabelled content of the 1.0 tree, both routes agree, version declared, frame conditions, '
             'guard on already upgraded trees, pre-repair behaviour refuted); differential correspondence by vm_compute on '
             'real directories upgraded by both real routes')
LEVEL_TEXT = ('Theorems in coq/Props/C20.v hold for every 1.0 file tree, every choice of type names and every image transfer '
              'strategy. The model is tied to the code on every run: generated 1.0 directories are upgraded by both real '
              'routes, the resulting trees (every file, line by line / byte token) and the datasets loaded from them are '
              'compared with the model inside Coq.')
LEVEL_NOTE = ('Trusted: Coq kernel + vm_compute, harness encoders, kapture_from_dir/kapture_to_dir as canonical printer of '
              'loaded tables, file-system primitives. The content of the unchanged text tables is modelled as its sequence '
              'of data rows (field semantics belong to C01/C02).')

FOLDERS = {'kp': 'reconstruction/keypoints', 'ds': 'reconstruction/descriptors', 'gf': 'reconstruction/global_features',
           'mt': 'reconstruction/matches', 'rd': 'sensors/records_data'}
FKIND = {'kp': ('keypoints.txt', '.kpt'), 'ds': ('descriptors.txt', '.desc'), 'gf': ('global_features.txt', '.gfeat')}
STRATEGIES = ['skip', 'root_link', 'copy', 'move', 'link_absolute', 'link_relative']
CSV_1_0 = ['sensors/sensors.txt', 'sensors/trajectories.txt', 'sensors/rigs.txt', 'sensors/records_camera.txt',
           'sensors/records_depth.txt', 'sensors/records_lidar.txt', 'sensors/records_wifi.txt',
           'sensors/records_bluetooth.txt', 'sensors/records_gnss.txt', 'sensors/records_accelerometer.txt',
           'sensors/records_gyroscope.txt', 'sensors/records_magnetic.txt', 'reconstruction/points3d.txt']
OBS = 'reconstruction/observations.txt'
FMT11 = '# kapture format: 1.1'
DTYPES = ['float16', 'float32', 'float64', 'int8', 'int16', 'int32', 'int64', 'uint8', 'uint16', 'uint32', 'uint64',
          'float', 'int']
EMPTY_DIR = ['B', '<empty directory>']      # how a listing shows a directory without entries (key = its path + '/')
VERSION_RE = re.compile(r'# kapture format\:\s*(?P<version>\d+\.\d+)')


def _quiet():
    import kapture.utils.logging  # noqa: F401  (sets its own level at import: import first, silence after)
    logging.getLogger('kapture').setLevel(logging.CRITICAL + 1)
    logging.getLogger('upgrade_1_0_to_1_1').setLevel(logging.CRITICAL + 1)


# ------------------------------------------------------------------------------------------------ trees on disk
def _is_text(rel):
    return rel.endswith('.txt')


def materialise(tree, root):
    os.makedirs(root)
    for rel, (kind, text) in tree['top'].items():
        p = os.path.join(root, rel)
        os.makedirs(os.path.dirname(p), exist_ok=True)
        with open(p, 'w', encoding='utf-8', newline='') as f:
            f.write(text)
    for key, sub in FOLDERS.items():
        if tree.get(key) is None:
            continue
        d = os.path.join(root, sub)
        os.makedirs(d, exist_ok=True)
        for rel, (kind, text) in tree[key].items():
            p = os.path.join(d, rel)
            os.makedirs(os.path.dirname(p), exist_ok=True)
            with open(p, 'w', encoding='utf-8', newline='') as f:
                f.write(text)


def _read(p):
    with open(p, 'rb') as f:
        return f.read().decode('utf-8', errors='surrogateescape')


def _folder_snapshot(d, empty_dirs=True):
    if not os.path.isdir(d) or os.path.islink(d):
        return None
    out = {}
    for dp, dns, fns in os.walk(d):
        if empty_dirs and not dns and not fns and dp != d:      # an empty directory below the folder is part of the directory tree
            out[os.path.relpath(dp, d).replace('\\', '/') + '/'] = list(EMPTY_DIR)
        for fn in fns:
            p = os.path.join(dp, fn)
            rel = os.path.relpath(p, d).replace('\\', '/')
            out[rel] = ['T' if _is_text(rel) else 'B', _read(p)]
    return out


def snapshot(root):
    """The directory as a tree: files outside the five special folders under 'top', each special folder apart."""
    tree = {'top': {}}
    for key, sub in FOLDERS.items():
        tree[key] = _folder_snapshot(os.path.join(root, sub), empty_dirs=key != 'rd')   # (record files: moved away by the
        #                                                        copy route's `move`, never touched in place)
    specials = [os.path.join(root, s) for s in FOLDERS.values()]
    for dp, dns, fns in os.walk(root):
        dns[:] = [x for x in dns if os.path.join(dp, x) not in specials]
        for fn in fns:
            p = os.path.join(dp, fn)
            if p in specials:            # a symbolic link in place of a special folder
                continue
            rel = os.path.relpath(p, root).replace('\\', '/')
            tree['top'][rel] = ['T' if _is_text(rel) else 'B', _read(p)]
    return tree


def rd_snapshot(out_root, src_root):
    """How sensors/records_data of the output looks: none / files / links / rootlink (+ content read through links)."""
    p = os.path.join(out_root, FOLDERS['rd'])
    if os.path.islink(p):
        target = os.path.realpath(p)
        ok = target == os.path.realpath(os.path.join(src_root, FOLDERS['rd']))
        return {'kind': 'rootlink', 'target_is_source': ok, 'files': _folder_snapshot_follow(p)}
    if not os.path.isdir(p):
        return {'kind': 'none', 'files': {}}
    files, links, regular = {}, 0, 0
    for dp, dns, fns in os.walk(p):
        for fn in fns:
            q = os.path.join(dp, fn)
            rel = os.path.relpath(q, p).replace('\\', '/')
            if os.path.islink(q):
                links += 1
                files[rel] = ['B', _read(q)] if os.path.exists(q) else ['B', '<dangling link>']
            else:
                regular += 1
                files[rel] = ['B', _read(q)]
    if not files:
        return {'kind': 'none', 'files': {}}
    return {'kind': 'links' if links and not regular else ('files' if regular and not links else 'mixed'), 'files': files}


def _folder_snapshot_follow(d):
    out = {}
    for dp, dns, fns in os.walk(d, followlinks=True):
        for fn in fns:
            p = os.path.join(dp, fn)
            out[os.path.relpath(p, d).replace('\\', '/')] = ['B', _read(p)]
    return out


# ------------------------------------------------------------------------------------------------ text helpers (python side of the property)
def py_rows(text):
    """kapture's table reader, restated: data rows of a text file as lists of stripped fields."""
    out = []
    for line in text.split('\n'):
        line = line.rstrip('\n\r')
        if not line.strip() or line.startswith('#'):
            continue
        out.append([f.strip() for f in line.split(',')])
    return out


def py_version(text):
    m = VERSION_RE.search(text.split('\n')[0])
    return m['version'] if m else None


def py_int(s):
    s = s.strip()
    if re.fullmatch(r'[+-]?[0-9]+', s):
        return int(s)
    return None


def py_dtype(s):
    for pfx in ('np.', 'numpy.'):
        if s.startswith(pfx):
            s = s[len(pfx):]
            break
    return s if s in DTYPES else None


def py_has_ext(rel, ext):
    return os.path.splitext(rel)[1].lower() == ext


# ------------------------------------------------------------------------------------------------ the loaded dataset, canonicalised
def view_of(root, scratch):
    """kapture_from_dir(root) as plain data; None + reason when the load raises."""
    import kapture
    import kapture.io.csv as kcsv
    import kapture.io.features as kfeat
    try:
        kd = kcsv.kapture_from_dir(root)
    except Exception as e:  # noqa
        return None, f'{type(e).__name__}: {e}'
    shutil.rmtree(scratch, ignore_errors=True)
    kcsv.kapture_to_dir(scratch, kd)
    tables = {}
    for rel in CSV_1_0:
        p = os.path.join(scratch, rel)
        if os.path.isfile(p):
            tables[rel] = py_rows(_read(p))
    shutil.rmtree(scratch, ignore_errors=True)
    v = {'version': kd.__version__, 'tables': tables, 'kp': {}, 'ds': {}, 'gf': {}, 'mt': [], 'obs': []}
    for key, cls, coll in (('kp', kapture.Keypoints, kd.keypoints), ('ds', kapture.Descriptors, kd.descriptors),
                           ('gf', kapture.GlobalFeatures, kd.global_features)):
        for ty, feats in (coll or {}).items():
            cfg = [feats.type_name, feats.dtype.__name__, str(feats.dsize)]
            if key == 'ds':
                cfg += [feats.keypoints_type, feats.metric_type]
            if key == 'gf':
                cfg += [feats.metric_type]
            data = {}
            for img in feats:
                data[img] = _read(kfeat.get_features_fullpath(cls, ty, root, img))
            v[key][ty] = {'cfg': cfg, 'data': data}
    for kt, ms in (kd.matches or {}).items():
        for a, b in ms:
            v['mt'].append([kt, a, b, _read(kfeat.get_matches_fullpath((a, b), kt, root))])
    v['mt'].sort()
    v['mt_types'] = sorted((kd.matches or {}).keys())
    if kd.observations is not None:
        for p, kt in sorted(kd.observations.key_pairs()):
            v['obs'].append([p, kt, [[i, k] for i, k in kd.observations[p, kt]]])
    return v, None


# ------------------------------------------------------------------------------------------------ running the implementation
def _call(fn):
    try:
        fn()
        return 'done', None
    except AssertionError as e:
        return 'refused', f'AssertionError: {e}'
    except Exception as e:  # noqa
        return 'crashed', f'{type(e).__name__}: {e}'


def run_impl(case, ctx):
    _quiet()
    if 'session' in case:
        return run_session(case, ctx)
    from kapture.utils.upgrade import upgrade_1_0_to_1_1_inplace
    from kapture_upgrade_1_0_to_1_1 import upgrade_1_0_to_1_1
    from kapture.io.binary import TransferAction
    base = os.path.join(ctx['tmp'], 'c')
    shutil.rmtree(base, ignore_errors=True)
    os.makedirs(base)
    a = case['args']
    obs = {}
    # what the loader reads from the text tables of the 1.0 directory itself (it loads sensors, rigs, trajectories and
    # records of an older version and skips the reconstruction): the reference for "same sensors, ..., records"
    src0 = os.path.join(base, 'src0')
    materialise(case['tree'], src0)
    v0, _ = view_of(src0, os.path.join(base, 'resave'))
    obs['baseline_tables'] = None if v0 is None else {k: r for k, r in v0['tables'].items() if not k.endswith('points3d.txt')}
    shutil.rmtree(src0, ignore_errors=True)
    # in place, on a private copy
    inp = os.path.join(base, 'inplace')
    materialise(case['tree'], inp)
    oc, exc = _call(lambda: upgrade_1_0_to_1_1_inplace(inp, a['kt'], a['dt'], a['gt'], a['dm'], a['gm']))
    obs['inplace'] = {'outcome': oc, 'exc': exc, 'tree': snapshot(inp)}
    if oc == 'done':
        obs['inplace']['view'], obs['inplace']['load_exc'] = view_of(inp, os.path.join(base, 'resave'))
    # copy route, once per strategy, each from a fresh source
    obs['copies'] = []
    for s in case['strategies']:
        src = os.path.join(base, 'src_' + s)
        out = os.path.join(base, 'out_' + s)
        materialise(case['tree'], src)
        before = snapshot(src)
        oc, exc = _call(lambda: upgrade_1_0_to_1_1(src, out, a['kt'], a['dt'], a['gt'], a['dm'], a['gm'],
                                                   TransferAction[s], True))
        o = {'strategy': s, 'outcome': oc, 'exc': exc}
        after = snapshot(src)
        o['src_rd'] = after['rd']
        o['src_changed'] = sorted(k for k in before if k != 'rd' and before[k] != after[k])
        o['src_rd_changed'] = before['rd'] != after['rd']
        if oc == 'done':
            t = snapshot(out)
            t['rd'] = None
            o['tree'] = t
            o['rd'] = rd_snapshot(out, src)
            o['view'], o['load_exc'] = view_of(out, os.path.join(base, 'resave'))
        obs['copies'].append(o)
        shutil.rmtree(out, ignore_errors=True)
        shutil.rmtree(src, ignore_errors=True)
    shutil.rmtree(base, ignore_errors=True)
    return obs



# ------------------------------------------------------------------------------------------------ downloader histories
DL_ARGS = {'kt': None, 'dt': None, 'gt': None, 'dm': 'L2', 'gm': 'L2'}


def _single(tree):
    """A dataset directory of a history, seen as a case of the in-place route the way the downloader calls it."""
    return {'tree': tree, 'args': DL_ARGS, 'strategies': []}


def wants_upgrade(tree):
    """Dataset.upgrade looks at the first line of sensors/sensors.txt: version 1.0 or none."""
    f = tree['top'].get('sensors/sensors.txt')
    return f is not None and py_version(f[1]) in (None, '1.0')


def run_session(case, ctx):
    """The real downloader: every install step makes a real archive of the dataset, and Dataset.install() deflates it,
    marks it and runs Dataset.upgrade(); only the size request to the server is answered locally."""
    import tarfile
    import kapture_download_dataset as dl
    logging.getLogger('downloader').setLevel(logging.CRITICAL + 1)
    logging.getLogger('downloader').propagate = False
    sess = case['session']
    base = os.path.join(ctx['tmp'], 'c')
    shutil.rmtree(base, ignore_errors=True)
    iroot = os.path.join(base, 'install', sess['root'])
    os.makedirs(iroot)
    obs = {'steps': [], 'baselines': {}, 'views': {}}
    installed = []           # (dataset name, directory below the install root)
    idir = None
    real_size = dl.get_remote_file_size
    try:
        for st in sess['steps']:
            if idir is None or st.get('fresh'):
                idir = dl.InstallDir(index_filepath=os.path.join(iroot, dl.INDEX_FILENAME), install_dir_path=iroot)
            so = {'raised': False, 'exc': None, 'ret': None}
            if st['op'] == 'install':
                stage = os.path.join(base, 'stage')
                shutil.rmtree(stage, ignore_errors=True)
                materialise(st['tree'], os.path.join(stage, st['sub']))
                v0, _ = view_of(os.path.join(stage, st['sub']), os.path.join(base, 'resave'))
                obs['baselines'][st['sub']] = None if v0 is None else {
                    k: r for k, r in v0['tables'].items() if not k.endswith('points3d.txt')}
                archive = os.path.join(iroot, st['name'] + '.tar.gz')
                top = st['sub'].split('/')[0]
                with tarfile.open(archive, 'w:gz') as tf:
                    tf.add(os.path.join(stage, top), arcname=top)
                shutil.rmtree(stage, ignore_errors=True)
                size = os.path.getsize(archive)
                dl.get_remote_file_size = lambda url, _size=size: _size
                ds = dl.Dataset(name=st['name'], install_dir=idir, archive_url='http://localhost/%s.tar.gz' % st['name'],
                                archive_sha256sum=dl.compute_sha256sum(archive))
                installed.append((st['name'], st['sub']))
                try:
                    so['ret'] = ds.install()
                except Exception as e:  # noqa
                    so['raised'], so['exc'] = True, f'{type(e).__name__}: {e}'
            else:
                name = installed[st.get('which', 0) % len(installed)][0]
                ds = dl.Dataset(name=name, install_dir=idir, archive_url='http://localhost/%s.tar.gz' % name,
                                archive_sha256sum='0')
                try:
                    so['ret'] = ds.upgrade()
                except Exception as e:  # noqa
                    so['raised'], so['exc'] = True, f'{type(e).__name__}: {e}'
            so['root'] = [[sub, snapshot(os.path.join(iroot, sub))] for _, sub in installed]
            obs['steps'].append(so)
        for _, sub in installed:
            v, exc = view_of(os.path.join(iroot, sub), os.path.join(base, 'resave'))
            obs['views'][sub] = {'view': v, 'exc': exc}
    finally:
        dl.get_remote_file_size = real_size
        shutil.rmtree(base, ignore_errors=True)
    return obs


def _session_trees(case):
    return [(st['sub'], st['tree']) for st in case['session']['steps'] if st['op'] == 'install']


def session_kind(tree):
    """'1.0' = a 1.0 dataset in the domain of the property (all names defaulted), 'other' = no 1.0 dataset for the
    downloader (left alone), 'bad' = looks like 1.0 to the downloader but is outside the domain."""
    if not wants_upgrade(tree):
        return 'other'
    return '1.0' if expected_content(_single(tree), strict=False) is not None else 'bad'


def oracle_session(case, obs):
    trees = _session_trees(case)
    kinds = {sub: session_kind(t) for sub, t in trees}
    calm = 'bad' not in kinds.values()
    steps = case['session']['steps']
    first_seen = {}
    for i, (st, so) in enumerate(zip(steps, obs['steps'])):
        if calm and so['raised']:
            return f'downloader: step {st["op"]} raises on 1.0 datasets: {so["exc"]}'
        if calm and st['op'] == 'install' and so['ret'] != 'installed':
            return f'downloader: install does not end as installed ({so["ret"]})'
        if calm and st['op'] != 'install' and so['ret'] is not True:
            return 'downloader: the upgrade command reports a failure'
        for sub, snap in so['root']:
            first_seen.setdefault(sub, i)
            t0 = dict(trees)[sub]
            if kinds[sub] == 'other' and snap != _norm_tree(t0):
                return 'downloader: a directory that is no 1.0 dataset was modified'
            if kinds[sub] == '1.0' and calm:
                if py_version(snap['top']['sensors/sensors.txt'][1]) != '1.1':
                    return ('downloader: a 1.0 dataset is still in 1.0 after its installation' if first_seen[sub] == i
                            else 'downloader: a 1.0 dataset is still in 1.0 after a later pass')
                if first_seen[sub] < i and snap != dict(map(tuple, obs['steps'][i - 1]['root']))[sub]:
                    return 'downloader: an upgraded dataset was modified by a later step'
    if not calm:
        return None
    for sub, t0 in trees:
        if kinds[sub] != '1.0':
            continue
        who = 'downloader'
        exp = expected_content(_single(t0), strict=False)
        o = obs['views'][sub]
        if o['view'] is None:
            return f'{who}: the installed dataset does not load: {o["exc"]}'
        if o['view']['version'] != '1.1':
            return f'{who}: the installed dataset does not load as version 1.1'
        final = dict(map(tuple, obs['steps'][-1]['root']))[sub]
        sig = _cmp_view(o['view'], exp, who, obs['baselines'].get(sub), final.get('mt')) or _declares_11(final, who) \
            or _empty_dirs_left(t0, final, who, exp['kt'])
        if sig:
            return sig
        if final['rd'] != t0.get('rd'):
            return f'{who}: sensors/records_data changed'
        for rel, v in t0['top'].items():
            if rel not in CSV_1_0 and rel != OBS and final['top'].get(rel) != v:
                return f'{who}: unrelated file {rel} changed'
    return None


def _norm_tree(t):
    """A case tree in the shape snapshot() gives (absent folders None, file entries as lists)."""
    out = {'top': {k: list(v) for k, v in t['top'].items()}}
    for key in FOLDERS:
        F = t.get(key)
        out[key] = None if F is None else {k: list(v) for k, v in F.items()}
    # an empty folder that materialise() creates is seen as an empty folder
    return out


def encode_session(case, obs):
    trees = dict(_session_trees(case))
    kinds = {sub: session_kind(t) for sub, t in trees.items()}
    any_raise = any(so['raised'] for so in obs['steps'])
    steps = []
    for st, so in zip(case['session']['steps'], obs['steps']):
        step = '(Install %s %s)' % (kv.cstr(st['sub']), c_tree(st['tree'])) if st['op'] == 'install' else 'Again'
        root = kv.clist(kv.cpair(kv.cstr(sub), c_tree(_enc_tree(snap, trees[sub], DL_ARGS))) for sub, snap in so['root'])
        steps.append('(mkStepObs %s %s %s)' % (step, 'true' if so['raised'] else 'false', root))
    views = []
    for sub in trees:
        if kinds[sub] == '1.0' and not any_raise:
            views.append(kv.cpair(kv.cstr(sub), '(Some %s)' % c_view(obs['views'][sub]['view'])))
        else:
            views.append(kv.cpair(kv.cstr(sub), 'None'))
    return '(MDlUpgrade.Session (mkSess %s %s))' % (kv.clist(steps), kv.clist(views))


# ------------------------------------------------------------------------------------------------ the property, stated on the observations
def _desc(tree, key):
    """(name, dtype, dsize) of the 1.0 descriptor of a feature folder; None when absent; 'bad' when unreadable."""
    F = tree.get(key)
    if F is None or FKIND[key][0] not in F:
        return None
    rows = py_rows(F[FKIND[key][0]][1])
    if not rows or len(rows[0]) != 3 or py_int(rows[0][2]) is None or py_dtype(rows[0][1]) is None:
        return 'bad'
    return rows[0][0], py_dtype(rows[0][1]), str(py_int(rows[0][2]))


def _plain(name):
    return name not in ('', '.', '..') and '/' not in name and '\\' not in name and ',' not in name \
        and name == name.strip() and not name.startswith('#')


def expected_content(case, strict):
    """The content of the 1.0 directory, labelled with the type names asked for; None when the directory is not
    in the domain of the route (strict = copy route: every version line must be present except in points3d.txt)."""
    tree, a = case['tree'], case['args']
    top = tree['top']

    def version_ok(text, lenient):
        v = py_version(text)
        return v == '1.0' or (v is None and lenient)
    if 'sensors/sensors.txt' not in top:
        return None
    for rel in CSV_1_0:
        if rel in top and not version_ok(top[rel][1], (not strict) or rel.endswith('points3d.txt')):
            return None
        if rel in top and py_version(top[rel][1]) is not None and not top[rel][1].startswith('#'):
            return None
    exp = {'tables': {rel: py_rows(top[rel][1]) for rel in CSV_1_0 if rel in top},
           'kp': {}, 'ds': {}, 'gf': {}, 'mt': [], 'obs': []}
    images = None
    if 'sensors/records_camera.txt' in top:
        rows = py_rows(top['sensors/records_camera.txt'][1])
        if any(len(r) < 3 for r in rows):
            return None
        images = [r[2] for r in rows]
    if images is None and any(tree.get(k) is not None for k in ('kp', 'ds', 'gf', 'mt')):
        return None                       # the loader insists on image records as soon as a feature folder exists
    names = {}
    for key, given in (('kp', a['kt']), ('ds', a['dt']), ('gf', a['gt'])):
        d = _desc(tree, key)
        if d is None:
            continue
        F = tree[key]
        if d == 'bad' or not version_ok(F[FKIND[key][0]][1], not strict) or images is None:
            return None
        ty = given if given is not None else d[0]
        if not _plain(ty) or not _plain(d[0] or 'x'):
            return None
        names[key] = ty
        ext = FKIND[key][1]
        exp[key][ty] = {'cfg': list(d), 'data': {i: F[i + ext][1] for i in images if (i + ext) in F}}
    kt = names.get('kp', a['kt'])
    if 'ds' in names:
        if kt is None or not _plain(kt) or not _plain(a['dm']):
            return None
        exp['ds'][names['ds']]['cfg'] += [kt, a['dm']]
    if 'gf' in names:
        if not _plain(a['gm']):
            return None
        exp['gf'][names['gf']]['cfg'] += [a['gm']]
    exp['kt'] = kt
    if tree.get('mt') is not None:
        if kt is None or not _plain(kt) or images is None:
            return None
        for rel, (_, text) in tree['mt'].items():
            if py_has_ext(rel, '.matches'):
                parts = rel[:-len('.matches')].split('.overlapping/')
                if len(parts) == 2 and parts[0] in images and parts[1] in images:
                    exp['mt'].append([kt, parts[0], parts[1], text])
        exp['mt'].sort()
    if OBS in top:
        if kt is None or 'kp' not in names or 'reconstruction/points3d.txt' not in top:
            return None
        if not version_ok(top[OBS][1], not strict):
            return None
        kpimgs = set(exp['kp'][names['kp']]['data'])
        merged = {}
        for r in py_rows(top[OBS][1]):
            p = py_int(r[0])
            if p is None:
                return None
            pairs = r[1:]
            if len(pairs) > 1:
                for i, k in zip(pairs[0::2], pairs[1::2]):
                    if py_int(k) is None:
                        return None
                    merged.setdefault(p, []).append([i, py_int(k)])
        for p in sorted(merged):
            kept = [ik for ik in merged[p] if ik[0] in kpimgs]
            if kept:
                exp['obs'].append([p, kt, kept])
    return exp


def _cmp_view(view, exp, who, baseline=None, mt_after=None):
    """None when the loaded dataset holds exactly the expected content.  Text tables: the rows the same loader read
    from the 1.0 directory (baseline) when it could, else the data rows of the 1.0 files."""
    def ms(rows):
        return sorted(map(tuple, rows))
    for rel in set(exp['tables']) | set(view['tables']):
        e, g = exp['tables'].get(rel, []), view['tables'].get(rel, [])
        if baseline is not None and not rel.endswith('points3d.txt'):
            e = baseline.get(rel, [])
        if ms(e) != ms(g):
            return f'{who}: rows of {rel} differ after the upgrade'
    for key, label in (('kp', 'keypoints'), ('ds', 'descriptors'), ('gf', 'global features')):
        if set(view[key]) != set(exp[key]):
            return f'{who}: {label} types after the upgrade are {sorted(view[key])}, expected {sorted(exp[key])}'
        for ty in exp[key]:
            if view[key][ty]['cfg'] != exp[key][ty]['cfg']:
                return f'{who}: {label} description differs: {view[key][ty]["cfg"]} instead of {exp[key][ty]["cfg"]}'
            if set(view[key][ty]['data']) != set(exp[key][ty]['data']):
                return (f'{who}: {label} image set differs: missing {sorted(set(exp[key][ty]["data"]) - set(view[key][ty]["data"]))[:3]} '
                        f'extra {sorted(set(view[key][ty]["data"]) - set(exp[key][ty]["data"]))[:3]}')
            if view[key][ty]['data'] != exp[key][ty]['data']:
                return f'{who}: {label} data file bytes differ'
    if sorted(map(tuple, view['mt'])) != sorted(map(tuple, exp['mt'])):
        return f'{who}: matches differ after the upgrade'
    extra = sorted(set(view.get('mt_types', [])) - {m[0] for m in exp['mt']} - {exp.get('kt')})
    extra = [x for x in extra if not any(rel.startswith(x + '/') and not rel.endswith('/') for rel in (mt_after or {}))]
    if extra:
        return f'{who}: matches are loaded under keypoints types that the dataset does not have: {extra}'
    if view['obs'] != exp['obs']:
        return f'{who}: observations differ after the upgrade'
    return None



def _empty_dirs_left(before, after, who, kt=None):
    """The complete directory tree of the feature folders: a directory without entries after the upgrade must have
    been one before (the folder of the keypoints type under matches excepted: it is made before anything is moved)."""
    for key in list(FOLDERS):
        for rel in (after.get(key) or {}):
            if key == 'mt' and kt is not None and rel == kt + '/':
                continue
            if rel.endswith('/') and rel not in (before.get(key) or {}):
                return f'{who}: empty directory left behind: {FOLDERS.get(key, "")}/{rel}'.replace(': /', ': ')
    return None


def _declares_11(tree, who):
    for rel, (kind, text) in tree['top'].items():
        if (rel in CSV_1_0 or rel == OBS) and text.split('\n')[0] != FMT11:
            return f'{who}: {rel} does not declare version 1.1'
    for key, (descname, _) in FKIND.items():
        for rel, (kind, text) in (tree.get(key) or {}).items():
            if rel.count('/') == 1 and rel.endswith('/' + descname) and text.split('\n')[0] != FMT11:
                return f'{who}: {FOLDERS[key]}/{rel} does not declare version 1.1'
    return None


def oracle(case, obs):
    """The property, stated on what the two routes did (independent of the Coq model)."""
    if 'session' in case:
        return oracle_session(case, obs)
    tree = case['tree']
    exp_in = expected_content(case, strict=False)
    exp_cp = expected_content(case, strict=True)
    views = []
    if exp_in is not None:
        o = obs['inplace']
        if o['outcome'] != 'done':
            return f'in-place route fails on a 1.0 dataset: {o["exc"]}'
        if o['view'] is None:
            return f'in-place route: the result does not load: {o["load_exc"]}'
        if o['view']['version'] != '1.1':
            return 'in-place route: the result does not load as version 1.1'
        sig = _cmp_view(o['view'], exp_in, 'in-place route', obs.get('baseline_tables'), o['tree'].get('mt')) or _declares_11(o['tree'], 'in-place route') \
            or _empty_dirs_left(tree, o['tree'], 'in-place route', exp_in['kt'])
        if sig:
            return sig
        # frame: record files and files that are no part of the dataset are left alone
        if o['tree']['rd'] != tree.get('rd'):
            return 'in-place route: sensors/records_data changed'
        for rel, v in tree['top'].items():
            if rel not in CSV_1_0 and rel != OBS and o['tree']['top'].get(rel) != v:
                return f'in-place route: unrelated file {rel} changed'
        views.append(('in-place', o['view']))
    for o in obs['copies']:
        who = f'copy route ({o["strategy"]})'
        if o['src_changed'] or (o['src_rd_changed'] and not (o['strategy'] == 'move' and o['outcome'] == 'done')):
            return f'{who}: the source directory was modified'
        if exp_cp is None:
            continue
        if o['outcome'] != 'done':
            return f'{who} fails on a 1.0 dataset: {o["exc"]}'
        if o['view'] is None:
            return f'{who}: the result does not load: {o["load_exc"]}'
        if o['view']['version'] != '1.1':
            return f'{who}: the result does not load as version 1.1'
        sig = _cmp_view(o['view'], exp_cp, who, obs.get('baseline_tables'), o['tree'].get('mt')) or _declares_11(o['tree'], who) \
            or _empty_dirs_left({}, o['tree'], who, exp_cp['kt'])
        if sig:
            return sig
        src_rd = tree.get('rd') or {}
        rd = o['rd']
        s = o['strategy']
        if s == 'skip':
            if rd['kind'] != 'none':
                return f'{who}: record files were transferred'
        elif s == 'root_link':
            if tree.get('rd') is not None and not (rd['kind'] == 'rootlink' and rd['target_is_source']):
                return f'{who}: records_data is not a link to the source folder'
        else:
            want = {'copy': 'files', 'move': 'files', 'link_absolute': 'links', 'link_relative': 'links'}[s]
            if src_rd and (rd['kind'] != want or rd['files'] != src_rd):
                return f'{who}: record files of the result differ from the source ({rd["kind"]})'
            if not src_rd and rd['kind'] != 'none':
                return f'{who}: unexpected record files'
        views.append((who, o['view']))
    for (w1, v1), (w2, v2) in zip(views, views[1:]):
        if {k: v for k, v in v1.items() if k != 'mt_types'} != {k: v for k, v in v2.items() if k != 'mt_types'}:
            return f'the two routes disagree: {w1} versus {w2}'
    return None


# ------------------------------------------------------------------------------------------------ Coq encoding
def c_content(kind, text):
    if kind == 'T':
        return 'Txt ' + kv.clist(kv.cstr(s) for s in text.split('\n'))
    return 'Bin ' + kv.cstr(text)


def c_folder(d):
    return kv.clist(kv.cpair(kv.cstr(p), '(' + c_content(*v) + ')') for p, v in sorted(d.items()))


def c_ofolder(d):
    return 'None' if d is None else '(Some ' + c_folder(d) + ')'


def c_tree(t):
    return '(mkTree %s %s %s %s %s %s)' % (c_folder(t['top']), c_ofolder(t.get('kp')), c_ofolder(t.get('ds')),
                                          c_ofolder(t.get('gf')), c_ofolder(t.get('mt')), c_ofolder(t.get('rd')))


def c_ostr(s):
    return kv.copt(None if s is None else kv.cstr(s))


def c_args(a):
    return '(mkArgs %s %s %s %s %s)' % (c_ostr(a['kt']), c_ostr(a['dt']), c_ostr(a['gt']), kv.cstr(a['dm']), kv.cstr(a['gm']))


def c_view(v):
    if v is None:
        return 'None'
    tables = kv.clist(kv.cpair(kv.cstr(rel), kv.clist(kv.clist(kv.cstr(f) for f in r) for r in rows))
                      for rel, rows in sorted(v['tables'].items()))

    def feats(d):
        return kv.clist(kv.cpair(kv.cstr(ty), kv.clist(kv.cstr(x) for x in e['cfg']),
                                 kv.clist(kv.cpair(kv.cstr(i), '(Bin ' + kv.cstr(c) + ')') for i, c in sorted(e['data'].items())))
                        for ty, e in sorted(d.items()))
    mt = kv.clist(kv.cpair(kv.cstr(k), kv.cstr(x), kv.cstr(y), '(Bin ' + kv.cstr(c) + ')') for k, x, y, c in v['mt'])
    ob = kv.clist(kv.cpair(kv.cz(p), kv.cstr(kt), kv.clist(kv.cpair(kv.cstr(i), kv.cz(k)) for i, k in l)) for p, kt, l in v['obs'])
    return '(Some (mkView %s %s %s %s %s %s))' % (tables, feats(v['kp']), feats(v['ds']), feats(v['gf']), mt, ob)


_OC = {'done': 'ODone', 'refused': 'ORefused', 'crashed': 'OCrashed'}
_ST = {'skip': 'Skip', 'root_link': 'RootLink', 'copy': 'Copy', 'move': 'Move', 'link_absolute': 'LinkAbs',
       'link_relative': 'LinkRel'}
_EMPTY = {'top': {}}


def c_rd(rd):
    if rd is None or rd['kind'] == 'none':
        return 'RNone'
    if rd['kind'] == 'rootlink':
        return 'RRootLink'
    if rd['kind'] == 'files':
        return '(RFiles ' + c_folder(rd['files']) + ')'
    if rd['kind'] == 'links':
        return '(RLinks ' + c_folder(rd['files']) + ')'
    raise ValueError('records_data of the output mixes links and files')



def _kt_guess(tree, a):
    """The keypoints type the routes file the matches under (explicit, else the name in the 1.0 keypoints descriptor)."""
    if a.get('kt') is not None:
        return a['kt']
    d = _desc(tree, 'kp')
    return d[0] if d not in (None, 'bad') else None


def _enc_tree(snap, tree0, a):
    """The listing as the model sees it: the folder of the keypoints type under matches, made before anything is moved,
    is no entry of the model when it stays empty (every other empty directory is one)."""
    kt = _kt_guess(tree0, a)
    if kt is None or not snap.get('mt') or (kt + '/') not in snap['mt']:
        return snap
    out = dict(snap)
    out['mt'] = {k: v for k, v in snap['mt'].items() if k != kt + '/'}
    return out


def encode(case, obs):
    if 'session' in case:
        return encode_session(case, obs)
    o = obs['inplace']
    copies = []
    for k in obs['copies']:
        done = k['outcome'] == 'done'
        copies.append('(mkCopyObs %s %s %s %s %s %s)' % (
            _ST[k['strategy']], _OC[k['outcome']], c_tree(k['tree'] if done else _EMPTY), c_rd(k.get('rd')),
            c_ofolder(k['src_rd']), c_view(k.get('view'))))
    return '(MDlUpgrade.Single (mkCase %s %s %s %s %s %s))' % (
        c_tree(case['tree']), c_args(case['args']), _OC[o['outcome']], c_tree(_enc_tree(o['tree'], case['tree'], case['args'])),
        c_view(o.get('view')), kv.clist(copies))


# ------------------------------------------------------------------------------------------------ generator
IMG_POOL = ['a.jpg', 'cam0/0001.jpg', 'cam0/0002.jpg', 'cam0/sub/x.png', 'SIFT/x.jpg', 'SIFT/SIFT/x.jpg', 'r2d2/y.jpg',
            'my img.jpg', 'café/é.jpg', 'b.v2.jpeg', 'apgem/z.jpg', 'D/w.jpg']
NAME_POOL = ['SIFT', 'r2d2', 'D2-Net', 'my kp', 'sift.v2', 'café', 'D', 'apgem']
METRICS = ['L2', 'L1', 'cosine', 'my metric']


def _version_line(rng, allow_absent):
    r = rng.random()
    if allow_absent and r < 0.45:
        return None
    return rng.choice(['# kapture format: 1.0', '# kapture format: 1.0', '# kapture format:1.0', '# kapture format:   1.0',
                       '# kapture format: 1.0  ', '# kapture format: 1.0 (naver labs)'])


def _relayout(rng, text11, version_line, pad=True, numpy_reader=False):
    """A 1.1 text table written by kapture, put back into a 1.0 dress: other version line, extra comment and blank lines,
    padded fields; the data rows keep their fields."""
    lines = text11.split('\n')
    assert lines[0] == FMT11 and lines[-1] == ''
    body = lines[1:-1]
    out = []
    if version_line is not None:
        out.append(version_line)
    for ln in body:
        if rng.random() < 0.12 and out:
            out.append(rng.choice(['', '# a comment', '#', '# kapture format: 7.0 is not here'] + ([] if numpy_reader else ['   '])))
        if ln.startswith('#') or not pad:
            out.append(ln)
        else:
            fields = [f.strip() for f in ln.split(',')]
            sty = rng.random()
            if sty < 0.4:
                out.append(', '.join(fields))
            elif sty < 0.7:
                out.append(','.join(fields))
            else:
                out.append(','.join(' ' * rng.randint(0, 3) + f + ' ' * rng.randint(0, 2) for f in fields))
    if version_line is None and rng.random() < 0.3 and out and out[0].startswith('#'):
        out = out[1:]          # no comment line at all before the data
    while version_line is None and out and VERSION_RE.search(out[0]):
        out = out[1:]          # (a comment that happens to carry the version pattern must not come first)
    text = '\n'.join(out)
    if rng.random() < 0.85 or not out:
        text += '\n'
    return text


def _random_dataset(rng, images):
    import numpy as np
    import kapture
    k = kapture.Kapture()
    k.sensors = kapture.Sensors()
    cams = ['cam%d' % i for i in range(rng.randint(1, 2))]
    for c in cams:
        if rng.random() < 0.5:
            k.sensors[c] = kapture.Camera(kapture.CameraType.SIMPLE_PINHOLE,
                                          [640, 480, rng.choice([500, 500.5, 612.25]), 320, 240], rng.choice(['cam', 'my cam', None]))
        else:
            k.sensors[c] = kapture.create_sensor('camera', ['OPENCV', 640, 480, 500, 501, 320, 240, .1, .01, .001, .0001], c)
    extra = {'depth0': ('depth', ['SIMPLE_PINHOLE', 640, 480, 500, 320, 240]), 'lidar0': ('lidar', []), 'wifi0': ('wifi', []),
             'bt0': ('bluetooth', []), 'gnss0': ('gnss', ['EPSG:4326']), 'acc0': ('accelerometer', []),
             'gyro0': ('gyroscope', []), 'mag0': ('magnetic', [])}
    have = {}
    for sid, (st, params) in extra.items():
        if rng.random() < 0.4:
            k.sensors[sid] = kapture.create_sensor(st, params, rng.choice([sid, 'n ' + sid, None]))
            have[st] = sid

    def pose():
        r = rng.choice([[1, 0, 0, 0], [0.5, 0.5, -0.5, 0.5], [0.6, 0.8, 0, 0], [0.1, 0.2, 0.3, 0.4], None])
        t = [rng.choice([0, 1, -2, 0.25, 1 / 3, 1e-3, 12345.678]) for _ in range(3)]
        return kapture.PoseTransform(r=r, t=t)
    if rng.random() < 0.4:
        k.rigs = kapture.Rigs()
        for c in cams:
            k.rigs['rig', c] = pose()
    if rng.random() < 0.6:
        k.trajectories = kapture.Trajectories()
        for ts in range(rng.randint(1, 3)):
            k.trajectories[ts * 10, 'rig' if k.rigs is not None else cams[0]] = pose()
    if images:
        k.records_camera = kapture.RecordsCamera()
        for i, im in enumerate(images):
            k.records_camera[i, cams[i % len(cams)]] = im
    fl = lambda: rng.choice([0.0, 1.5, -2.25, 1 / 3, 9.81, 1e-5])   # noqa: E731
    if 'depth' in have and rng.random() < 0.8:
        k.records_depth = kapture.RecordsDepth()
        k.records_depth[0, have['depth']] = 'd/0.depth'
    if 'lidar' in have and rng.random() < 0.8:
        k.records_lidar = kapture.RecordsLidar()
        k.records_lidar[0, have['lidar']] = 'lidar/0.pcd'
    if 'wifi' in have and rng.random() < 0.8:
        k.records_wifi = kapture.RecordsWifi()
        k.records_wifi[0, have['wifi']] = kapture.RecordWifi(
            {'68:72:51:80:52:df': kapture.RecordWifiSignal(frequency=2417, rssi=-33.5, ssid='M1X', scan_time_start=1, scan_time_end=2)})
    if 'bluetooth' in have and rng.random() < 0.8:
        k.records_bluetooth = kapture.RecordsBluetooth()
        k.records_bluetooth[0, have['bluetooth']] = kapture.RecordBluetooth(
            {'35:A8:4B:D9:95:06': kapture.RecordBluetoothSignal(rssi=-73.0, name='x')})
    if 'gnss' in have and rng.random() < 0.8:
        k.records_gnss = kapture.RecordsGnss()
        k.records_gnss[5, have['gnss']] = kapture.RecordGnss(fl(), fl(), fl(), 1234, 0.5)
    if 'accelerometer' in have and rng.random() < 0.8:
        k.records_accelerometer = kapture.RecordsAccelerometer()
        k.records_accelerometer[1, have['accelerometer']] = kapture.RecordAccelerometer(fl(), fl(), fl())
    if 'gyroscope' in have and rng.random() < 0.8:
        k.records_gyroscope = kapture.RecordsGyroscope()
        k.records_gyroscope[1, have['gyroscope']] = kapture.RecordGyroscope(fl(), fl(), fl())
    if 'magnetic' in have and rng.random() < 0.8:
        k.records_magnetic = kapture.RecordsMagnetic()
        k.records_magnetic[1, have['magnetic']] = kapture.RecordMagnetic(fl(), fl(), fl())
    npts = 0
    if rng.random() < 0.6:
        npts = rng.randint(1, 4)
        cols = rng.choice([3, 6])
        arr = [[rng.choice([0, 1, -2.5, 1 / 3, 100.125]) for _ in range(3)] + [rng.choice([0, 10, 255]) for _ in range(3)]
               for _ in range(npts)]
        k.points3d = kapture.Points3d(np.array([r[:cols] for r in arr], dtype=float))
    return k, npts


_READER_KNOWS = {}


def _reader_knows(name):
    """Does the 1.1 descriptor reader of the tree under test accept this bare element type name?  (The present
    reader evaluates the field and only knows a few names; the whitelist reader of fix C16 knows them all.)"""
    if name not in _READER_KNOWS:
        import tempfile
        import kapture.io.csv as kcsv
        d = tempfile.mkdtemp(prefix='kv-c20-probe-', dir='/var/tmp')
        try:
            fp = os.path.join(d, 'keypoints.txt')
            with open(fp, 'w') as f:
                f.write(FMT11 + '\n# name, dtype, dsize\nprobe, ' + name + ', 2\n')
            try:
                kcsv.keypoints_config_from_file(fp)
                _READER_KNOWS[name] = True
            except Exception:  # noqa
                _READER_KNOWS[name] = False
        finally:
            shutil.rmtree(d, ignore_errors=True)
    return _READER_KNOWS[name]


_SPELLING_OK = {}


def _spelling_ok(token):
    """Is this spelling of an element type usable in a 1.0 descriptor file of the tree under test: the 1.0 reader
    (read_old_image_features_csv) takes it without raising, and the 1.1 reader knows the bare name the upgrade writes?"""
    if token not in _SPELLING_OK:
        import tempfile
        from kapture.utils.upgrade import read_old_image_features_csv
        ok = py_dtype(token) is not None and _reader_knows(py_dtype(token))
        if ok:
            d = tempfile.mkdtemp(prefix='kv-c20-probe-', dir='/var/tmp')
            try:
                fp = os.path.join(d, 'keypoints.txt')
                with open(fp, 'w') as f:
                    f.write('# kapture format: 1.0\n# name, dtype, dsize\nprobe, ' + token + ', 2\n')
                try:
                    read_old_image_features_csv(fp)
                except Exception:  # noqa
                    ok = False
            finally:
                shutil.rmtree(d, ignore_errors=True)
        _SPELLING_OK[token] = ok
    return _SPELLING_OK[token]


SPELLINGS = ['', 'np.', 'numpy.']


def _dtype_token(rng):
    """An element type spelling (bare, np. or numpy. prefix) the readers of the tree under test accept."""
    for _ in range(8):
        token = rng.choice(SPELLINGS) + rng.choice(DTYPES)
        if _spelling_ok(token):
            return token
    return rng.choice(['float32', 'uint8'])


def gen_dtype_block():
    """Deterministic: every element type name in every spelling (13 x bare / np. / numpy.) the readers accept occurs
    in a 1.0 descriptor file at least once per run; one dataset per type name, its keypoints, descriptors and global
    features spelling the same type in the three ways."""
    H = '# kapture format: 1.0\n'
    out = []
    for i, name in enumerate(DTYPES):
        t = {'top': {'sensors/sensors.txt': ['T', H + 'cam0, cam, camera, SIMPLE_PINHOLE, 640, 480, 500, 320, 240\n'],
                     'sensors/records_camera.txt': ['T', H + '0, cam0, a.jpg\n']},
             'kp': None, 'ds': None, 'gf': None, 'mt': None, 'rd': None}
        for j, (key, feat) in enumerate((('kp', 'KP'), ('ds', 'DS'), ('gf', 'GF'))):
            token = SPELLINGS[(i + j) % 3] + name
            if not _spelling_ok(token):
                continue
            descname, ext = FKIND[key]
            t[key] = {descname: ['T', H + '# name, dtype, dsize\n%s, %s, 4\n' % (feat, token)],
                      'a.jpg' + ext: ['B', '%s:%s' % (key, token)]}
        if t['kp'] is None and t['ds'] is not None:
            a_kt = 'KT'
        else:
            a_kt = None
        out.append({'tree': t, 'args': {'kt': a_kt, 'dt': None, 'gt': None, 'dm': 'L2', 'gm': 'L2'},
                    'strategies': ['skip'], 'stream': 'dtypes'})
    return out


def _feature_folder(rng, key, images, name, version_line, with_json=True):
    descname, ext = FKIND[key]
    lines = []
    if version_line is not None:
        lines.append(version_line)
    if rng.random() < 0.8:
        lines.append('# name, dtype, dsize')
    if rng.random() < 0.15:
        lines.append('')
    row = [name, _dtype_token(rng), rng.choice(['2', '4', '128', '0128', ' 64 '])]
    lines.append(rng.choice([', ', ',', ' , ']).join(row))
    if rng.random() < 0.1:
        lines.append('# end')
    text = '\n'.join(lines) + ('\n' if rng.random() < 0.9 else '')
    F = {descname: ['T', text]}
    for im in images:
        if rng.random() < 0.9:
            F[im + ext] = ['B', f'{key}:{im}:{rng.randint(0, 999)}']
    if rng.random() < 0.15:
        F['ghost/none.jpg' + ext] = ['B', 'ghost']                 # a data file for an image that is not recorded
    if rng.random() < 0.1 and images:
        F[images[0] + ext.upper()] = ['B', 'upper-case extension']
    json_name = {'kp': 'extract_local_features.json', 'gf': 'extract_global_features.json'}.get(key)
    if with_json and json_name and rng.random() < 0.3:
        F[json_name] = ['B', '{"tool": 1}']
    if rng.random() < 0.15:
        F[rng.choice(['notes.md', 'cam0/readme.md', 'other.bin'])] = ['B', 'foreign']
    return F


def gen_valid(rng, tmp):
    """A 1.0 directory in the domain of the in-place route (and, unless a version line is missing, of the copy route)."""
    import kapture.io.csv as kcsv
    images = rng.sample(IMG_POOL, rng.choice([0, 1, 2, 3, 3, 4, 5]))
    k, npts = _random_dataset(rng, images)
    d = os.path.join(tmp, 'gen')
    shutil.rmtree(d, ignore_errors=True)
    kcsv.kapture_to_dir(d, k)
    strict = rng.random() < 0.75            # every version line present (what the copy route insists on)
    top = {}
    for rel in CSV_1_0:
        p = os.path.join(d, rel)
        if os.path.isfile(p):
            allow_absent = (not strict) or (rel.endswith('points3d.txt') and rng.random() < 0.5)
            top[rel] = ['T', _relayout(rng, _read(p), _version_line(rng, allow_absent), numpy_reader=rel.endswith('points3d.txt'))]
            if rel == 'sensors/sensors.txt' and py_version(top[rel][1]) is None and strict:
                top[rel] = ['T', _relayout(rng, _read(p), '# kapture format: 1.0')]
    shutil.rmtree(d, ignore_errors=True)
    tree = {'top': top, 'kp': None, 'ds': None, 'gf': None, 'mt': None, 'rd': None}
    a = {'kt': None, 'dt': None, 'gt': None, 'dm': rng.choice(METRICS), 'gm': rng.choice(METRICS)}

    def vl():
        return _version_line(rng, not strict)
    kt = None
    if images and rng.random() < 0.6:
        name = rng.choice(NAME_POOL + [''])
        if name == '' or rng.random() < 0.35:
            a['kt'] = rng.choice(NAME_POOL)
        kt = a['kt'] if a['kt'] is not None else name
        tree['kp'] = _feature_folder(rng, 'kp', images, name, vl())
    elif rng.random() < 0.15:
        a['kt'] = rng.choice(NAME_POOL)
        kt = a['kt']
    elif rng.random() < 0.1:
        tree['kp'] = {'orphan.bin': ['B', 'no descriptor here']} if rng.random() < 0.5 else {}
    if images and kt is not None and rng.random() < 0.5:
        name = rng.choice(NAME_POOL + [''])
        if name == '' or rng.random() < 0.35:
            a['dt'] = rng.choice(NAME_POOL)
        tree['ds'] = _feature_folder(rng, 'ds', images, name, vl())
    if images and rng.random() < 0.5:
        name = rng.choice(NAME_POOL + [''])
        if name == '' or rng.random() < 0.35:
            a['gt'] = rng.choice(NAME_POOL)
        tree['gf'] = _feature_folder(rng, 'gf', images, name, vl())
    if images and kt is not None and rng.random() < 0.5:
        F = {}
        for x in images:
            for y in images:
                if x < y and rng.random() < 0.5:
                    F[f'{x}.overlapping/{y}.matches'] = ['B', f'mt:{x}|{y}']
        if rng.random() < 0.3:
            F['run_matching.json'] = ['B', '{}']
        if rng.random() < 0.15:
            F['ghost.jpg.overlapping/none.jpg.matches'] = ['B', 'ghost pair']
        if rng.random() < 0.1:
            F['a.jpg.overlapping/readme.md'] = ['B', 'foreign']
        tree['mt'] = F
    if tree['kp'] and FKIND['kp'][0] in tree['kp'] and npts and rng.random() < 0.7:
        kpimgs = [i for i in images if (i + '.kpt') in tree['kp']] or images
        lines = []
        v = vl()
        if v is not None:
            lines.append(v)
        lines.append('# point3d_id, [image_path, feature_id]*')
        for p in rng.sample(range(npts + 2), rng.randint(0, npts + 2)):
            n = rng.choice([0, 1, 2, 3])
            fields = [rng.choice(['%d', '%03d', ' %d ']) % p]
            for _ in range(n):
                fields += [rng.choice(kpimgs if rng.random() < 0.9 else ['ghost/none.jpg']), str(rng.randint(0, 50))]
            lines.append(rng.choice([', ', ',']).join(fields))
            if rng.random() < 0.2:
                lines.append(f'{p}, {rng.choice(kpimgs)}, {rng.randint(51, 99)}')       # the same point on a second row
        tree['top'][OBS] = ['T', '\n'.join(lines) + '\n']
    # record files
    r = rng.random()
    if r < 0.7:
        rd = {im: ['B', 'IMG:' + im] for im in images if rng.random() < 0.9}
        if 'sensors/records_lidar.txt' in top:
            rd['lidar/0.pcd'] = ['B', 'PCD']
        if rng.random() < 0.1:
            rd['unlisted/extra.bin'] = ['B', 'x']
        tree['rd'] = rd
    # files that are no part of the dataset
    if rng.random() < 0.3:
        rel = rng.choice(['notes.md', 'sensors/extra.txt', 'reconstruction/other/x.bin', 'README'])
        tree['top'][rel] = ['T' if _is_text(rel) else 'B', 'user file']
    if rng.random() < 0.1:
        tree['top']['sensors/mine.txt'] = ['T', '# kapture format: 1.0\nmine\n']
    strategies = rng.sample(STRATEGIES, rng.choice([1, 1, 2]))
    if rng.random() < 0.08:
        strategies = list(STRATEGIES)
    return {'tree': tree, 'args': a, 'strategies': strategies, 'stream': 'valid'}


def gen_malformed(rng, tmp):
    """Trees outside the domain: what the routes do there is compared with the model, the oracle only checks the frame."""
    c = gen_valid(rng, tmp)
    c['stream'] = 'malformed'
    t = c['tree']
    kind = rng.choice(['version', 'version', 'dtype', 'cols', 'noname', 'nokt-matches', 'nokt-obs', 'obs-int', 'empty-desc',
                       'already-1.1', 'no-sensors', 'desc-version'])
    c['malformation'] = kind
    txt = [rel for rel in t['top'] if rel in CSV_1_0]
    if kind == 'version' and txt:
        rel = rng.choice(txt)
        body = t['top'][rel][1].split('\n')
        new = rng.choice(['# kapture format: 1.1', '# kapture format: 2.0', '# kapture format: 0.9', '# kapture format: 1.00',
                          '# kapture format 1.0', None])
        if py_version(t['top'][rel][1]) is not None:
            body = body[1:]
        t['top'][rel] = ['T', '\n'.join(([new] if new else []) + body)]
    elif kind in ('dtype', 'cols', 'noname', 'empty-desc', 'desc-version'):
        keys = [k for k in ('kp', 'ds', 'gf') if t.get(k) and FKIND[k][0] in t[k]]
        if keys:
            k = rng.choice(keys)
            dn = FKIND[k][0]
            if kind == 'dtype':
                t[k][dn] = ['T', '# kapture format: 1.0\nX, ' + rng.choice(['double', 'np.foo', 'float33', '']) + ', 4\n']
            elif kind == 'cols':
                t[k][dn] = ['T', '# kapture format: 1.0\n' + rng.choice(['X, float32', 'X, float32, 4, L2', 'X, float32, four']) + '\n']
            elif kind == 'noname':
                t[k][dn] = ['T', '# kapture format: 1.0\n, float32, 4\n']
                c['args'][{'kp': 'kt', 'ds': 'dt', 'gf': 'gt'}[k]] = None
            elif kind == 'empty-desc':
                t[k][dn] = ['T', rng.choice(['', '# kapture format: 1.0\n', '# kapture format: 1.0\n# name, dtype, dsize\n'])]
            else:
                t[k][dn] = ['T', rng.choice(['# kapture format: 1.1', '# kapture format: 3.4']) + '\nX, float32, 4\n']
    elif kind == 'nokt-matches':
        t['kp'] = None
        c['args']['kt'] = None
        t['mt'] = {'a.jpg.overlapping/b.jpg.matches': ['B', 'm']} if rng.random() < 0.7 else {}
        t['ds'] = None
        t['top'].pop(OBS, None)
    elif kind == 'nokt-obs':
        t['kp'] = None
        c['args']['kt'] = None
        t['mt'] = None
        t['ds'] = None
        t['top'][OBS] = ['T', '# kapture format: 1.0\n0, a.jpg, 1\n']
    elif kind == 'obs-int':
        if t.get('kp') and FKIND['kp'][0] in t['kp']:
            t['top'][OBS] = ['T', '# kapture format: 1.0\n' + rng.choice(['x, a.jpg, 1', '0, a.jpg, one', '0.5, a.jpg, 1', '1, a.jpg, 2, b.jpg, 3.0']) + '\n']
            t['top'].setdefault('reconstruction/points3d.txt', ['T', '# kapture format: 1.0\n# X, Y, Z\n1,2,3\n'])
    elif kind == 'already-1.1':
        for rel in list(t['top']):
            if rel in CSV_1_0 or rel == OBS:
                body = t['top'][rel][1].split('\n')
                if py_version(t['top'][rel][1]) is not None:
                    body = body[1:]
                t['top'][rel] = ['T', '\n'.join([FMT11] + body)]
    elif kind == 'no-sensors':
        t['top'].pop('sensors/sensors.txt', None)
    return c


def gen_exhaustive(kt_given, versions):
    """Every subset of the five reconstruction parts on a two-image dataset (2^5 trees), type names defaulted or
    the keypoints type given explicitly, version lines all present or all absent."""
    H = '# kapture format: 1.0\n' if versions else ''
    imgs = ['a.jpg', 'd/b.jpg']
    base = {'sensors/sensors.txt': ['T', H + 'cam0, cam, camera, SIMPLE_PINHOLE, 640, 480, 500, 320, 240\n'],
            'sensors/records_camera.txt': ['T', H + '0, cam0, a.jpg\n1, cam0, d/b.jpg\n']}
    out = []
    for mask in range(32):
        kp, ds, gf, mt, ob = [(mask >> i) & 1 for i in range(5)]
        t = {'top': dict(base), 'kp': None, 'ds': None, 'gf': None, 'mt': None,
             'rd': {i: ['B', 'IMG:' + i] for i in imgs}}
        if kp:
            t['kp'] = dict([('keypoints.txt', ['T', H + 'KP, float32, 2\n'])] + [(i + '.kpt', ['B', 'k:' + i]) for i in imgs])
        if ds:
            t['ds'] = dict([('descriptors.txt', ['T', H + 'DS, uint8, 8\n'])] + [(i + '.desc', ['B', 'd:' + i]) for i in imgs])
        if gf:
            t['gf'] = dict([('global_features.txt', ['T', H + 'GF, float32, 4\n'])] + [(i + '.gfeat', ['B', 'g:' + i]) for i in imgs])
        if mt:
            t['mt'] = {'a.jpg.overlapping/d/b.jpg.matches': ['B', 'm']}
        if ob:
            t['top']['reconstruction/points3d.txt'] = ['T', H + '# X, Y, Z\n1.0000000000,2.0000000000,3.0000000000\n']
            t['top'][OBS] = ['T', H + '0, a.jpg, 1, d/b.jpg, 2\n']
        a = {'kt': 'KT' if kt_given else None, 'dt': None, 'gt': None, 'dm': 'L2', 'gm': 'L2'}
        out.append({'tree': t, 'args': a, 'strategies': ['copy'], 'stream': 'subsets'})
    return out



ROOT_POOL = ['datasets', 'my datasets', 'data[1]', 'kapture*sets', '.cache/kapture', 'a?b', 'donn\u00e9es', '[v1.0]']


def _downloadable(rng, tmp):
    """A 1.0 dataset in the domain when every type name is defaulted and both metrics are L2 (what the downloader asks)."""
    for _ in range(40):
        c = gen_valid(rng, tmp)
        a = c['args']
        if a['kt'] is None and a['dt'] is None and a['gt'] is None and wants_upgrade(c['tree']) \
                and expected_content(_single(c['tree']), strict=False) is not None:
            return c['tree']
    return gen_exhaustive(False, True)[rng.randrange(32)]['tree']


def _not_a_1_0_dataset(rng, tmp):
    """A directory the downloader must leave alone: its sensors.txt declares 1.1 or something else (no feature folders:
    the orphan-features pass is not modelled)."""
    t = _downloadable(rng, tmp)
    for k in ('kp', 'ds', 'gf', 'mt'):
        t[k] = None
    t['top'].pop(OBS, None)
    new = rng.choice([FMT11, FMT11, '# kapture format: 2.0', '# kapture format: 0.9'])
    for rel in list(t['top']):
        if rel in CSV_1_0:
            body = t['top'][rel][1].split('\n')
            if py_version(t['top'][rel][1]) is not None:
                body = body[1:]
            t['top'][rel] = ['T', '\n'.join([new] + body)]
    return t


def gen_session(rng, tmp):
    n = rng.choice([1, 2, 2, 2, 3, 3, 4])
    shared = rng.random() < 0.75           # one InstallDir object for the whole history (one run of the tool)
    steps = []
    bad_last = rng.random() < 0.08
    for i in range(n):
        name = 'ds%s' % 'ABCD'[i]
        sub = name + rng.choice(['', '', '/mapping', '/query', '/.v1', '/a b'])
        r = rng.random()
        if bad_last and i == n - 1:
            for _ in range(20):
                tree = gen_malformed(rng, tmp)['tree']
                if wants_upgrade(tree) and expected_content(_single(tree), strict=False) is None:
                    break
            else:
                tree = _downloadable(rng, tmp)
        elif r < 0.15:
            tree = _not_a_1_0_dataset(rng, tmp)
        else:
            tree = _downloadable(rng, tmp)
        steps.append({'op': 'install', 'name': name, 'sub': sub, 'tree': tree, 'fresh': (not shared) or rng.random() < 0.1})
        if rng.random() < 0.2 and not (bad_last and i == n - 1):
            steps.append({'op': 'again', 'which': rng.randrange(4), 'fresh': (not shared) or rng.random() < 0.3})
    return {'session': {'root': rng.choice(ROOT_POOL), 'steps': steps}, 'stream': 'session'}


def gen_cases(rng, tier):
    _quiet()
    tmp = os.path.join(kv.BUILD, 'tmp', 'C20-gen-%d' % os.getpid())
    os.makedirs(tmp, exist_ok=True)
    n_valid, n_mal, n_sess = (85, 35, 24) if tier == 'quick' else (850, 280, 200)
    cases = gen_exhaustive(False, True) + gen_dtype_block()
    if tier != 'quick':
        cases += gen_exhaustive(True, True) + gen_exhaustive(False, False) + gen_exhaustive(True, False)
    try:
        for _ in range(n_valid):
            cases.append(gen_valid(rng, tmp))
        for _ in range(n_mal):
            cases.append(gen_malformed(rng, tmp))
        for _ in range(n_sess):
            cases.append(gen_session(rng, tmp))
    finally:
        shutil.rmtree(tmp, ignore_errors=True)
    return cases


# ------------------------------------------------------------------------------------------------ evidence helpers
def nontrivial(case, obs):
    if 'session' in case:
        return sum(1 for _, t in _session_trees(case) if session_kind(t) == '1.0') >= 1
    t = case['tree']
    if expected_content(case, strict=False) is None:
        return False
    parts = sum(1 for k in ('kp', 'ds', 'gf', 'mt') if t.get(k)) + (1 if OBS in t['top'] else 0)
    return parts >= 1 or sum(1 for rel in t['top'] if rel in CSV_1_0) >= 3


def classify(case, obs):
    if 'session' in case:
        ks = [session_kind(t) for _, t in _session_trees(case)]
        steps = case['session']['steps']
        shared = not any(st.get('fresh') for st in steps[1:])
        return 'session/datasets=%d/other=%d/bad=%d/again=%d/%s/raised=%d' % (
            len(ks), ks.count('other'), ks.count('bad'), sum(1 for st in steps if st['op'] != 'install'),
            'one-object' if shared else 'new-objects', sum(1 for so in obs['steps'] if so['raised']))
    t = case['tree']
    parts = ''.join(c for c, k in (('K', 'kp'), ('D', 'ds'), ('G', 'gf'), ('M', 'mt')) if t.get(k) is not None)
    parts += 'O' if OBS in t['top'] else ''
    dom = 'both' if expected_content(case, True) is not None else ('inplace-only' if expected_content(case, False) is not None else 'outside')
    cps = ','.join(sorted({o['outcome'] for o in obs['copies']}))
    return f'{case.get("stream", "corpus")}/{dom}/parts={parts or "-"}/in={obs["inplace"]["outcome"]}/cp={cps}'


def describe(case, obs):
    if 'session' in case:
        return {'install_root': case['session']['root'],
                'steps': [{'op': st['op'], 'dir': st.get('sub'), 'new InstallDir object': bool(st.get('fresh')),
                           'kind': session_kind(st['tree']) if st['op'] == 'install' else None,
                           'raised': so['raised'], 'exc': so['exc'], 'returned': so['ret']}
                          for st, so in zip(case['session']['steps'], obs['steps'])]}
    t = case['tree']
    return {'files': {k: sorted(t[k]) if t.get(k) is not None else None for k in ('top', 'kp', 'ds', 'gf', 'mt', 'rd')},
            'args': case['args'], 'strategies': case['strategies'],
            'inplace': {'outcome': obs['inplace']['outcome'], 'exc': obs['inplace']['exc'],
                        'after': {k: sorted(v) if v is not None else None for k, v in obs['inplace']['tree'].items()}},
            'copies': [{'strategy': o['strategy'], 'outcome': o['outcome'], 'exc': o['exc']} for o in obs['copies']]}


def shrink(case):
    """Smaller variants that stay reference-closed: strategies, whole feature folders, record files, files that are no
    part of the dataset, tables nothing else refers to, single feature data files."""
    if 'session' in case:
        steps = case['session']['steps']
        for i in range(len(steps)):
            rest = steps[:i] + steps[i + 1:]
            if any(st['op'] == 'install' for st in rest) and rest[0]['op'] == 'install':
                c = copy.deepcopy(case)
                c['session']['steps'] = copy.deepcopy(rest)
                yield c
        if case['session']['root'] != 'datasets':
            c = copy.deepcopy(case)
            c['session']['root'] = 'datasets'
            yield c
        for i, st in enumerate(steps):
            if st['op'] == 'install':
                for sm in shrink({'tree': st['tree'], 'args': DL_ARGS, 'strategies': []}):
                    c = copy.deepcopy(case)
                    c['session']['steps'][i]['tree'] = sm['tree']
                    yield c
        return
    t = case['tree']
    if len(case['strategies']) > 1:
        for s in case['strategies']:
            c = copy.deepcopy(case)
            c['strategies'] = [s]
            yield c
    has_obs = OBS in t['top']
    for key in ('mt', 'ds', 'gf', 'rd') + (() if has_obs else ('kp',)):
        if t.get(key) is not None:
            c = copy.deepcopy(case)
            c['tree'][key] = None
            yield c
    removable = [OBS, 'sensors/trajectories.txt'] + [r for r in CSV_1_0 if 'records_' in r and 'camera' not in r]
    if not has_obs:
        removable.append('reconstruction/points3d.txt')
    if all(t.get(k) is None for k in ('kp', 'ds', 'gf', 'mt')):
        removable.append('sensors/records_camera.txt')
    for rel in list(t['top']):
        if rel in removable or (rel not in CSV_1_0 and rel != OBS):
            c = copy.deepcopy(case)
            del c['tree']['top'][rel]
            yield c
    for key in ('kp', 'ds', 'gf', 'mt', 'rd'):
        for rel in list(t.get(key) or {}):
            if key in FKIND and rel == FKIND[key][0]:
                continue
            c = copy.deepcopy(case)
            del c['tree'][key][rel]
            yield c
