"""Tables for property C03 (coq/Gen/Tbinary.v), read from the kapture tree on PYTHONPATH and from numpy:
element types and item sizes, feature directories / extensions / pair separator, records directory,
the fixed element types of matches and depth maps, and what kapture_format.adoc says about binary files."""
import os
import re
import sys

import kv

DTYPES = ['float16', 'float32', 'float64', 'int8', 'int16', 'int32', 'int64', 'uint8', 'uint16', 'uint32', 'uint64']


def facts():
    """Everything the Coq side and the harness oracle need, as plain Python values."""
    import inspect
    import numpy as np
    import kapture
    import kapture.io.features as kfeat
    import kapture.io.records as krec
    f = {}
    if sys.byteorder != 'little':
        raise RuntimeError('the C03 model assumes a little-endian host')
    f['host_little'] = True
    dts = []
    for n in DTYPES:
        t = getattr(np, n)
        if not isinstance(t, type):
            raise RuntimeError(f'np.{n} is not accepted by array_from_file')
        d = np.dtype(t)
        if d.name != n:
            raise RuntimeError(f'np.{n} is {d.name}')
        dts.append((n, d.itemsize, d.kind))
    f['dtypes'] = dts
    kinds = [('Keypoints', kapture.Keypoints), ('Descriptors', kapture.Descriptors),
             ('GlobalFeatures', kapture.GlobalFeatures), ('Matches', kapture.Matches)]
    f['feature_dir'] = [(n, kfeat.FEATURES_DATA_DIRNAMES[t].replace('\\', '/')) for n, t in kinds]
    f['feature_ext'] = [(n, kfeat.FEATURE_FILE_EXTENSION[t]) for n, t in kinds]
    f['pair_sep'] = kfeat.FEATURE_PAIR_PATH_SEPARATOR[kapture.Matches]
    f['records_dir'] = krec.RECORD_DATA_DIRNAME
    # matches reader: dtype and column count it passes to array_from_file (observed by interception)
    seen = {}
    orig = kfeat.array_from_file
    try:
        kfeat.array_from_file = lambda filepath, dtype, dsize: seen.update(dtype=dtype, dsize=dsize)
        kfeat.image_matches_from_file('x')
    finally:
        kfeat.array_from_file = orig
    f['matches_dtype'] = np.dtype(seen['dtype']).name
    f['matches_cols'] = int(seen['dsize'])
    f['depth_dtype'] = np.dtype(kapture.RecordsDepth.dtype).name
    # the specification
    adoc = open(os.path.join(os.path.dirname(os.path.dirname(inspect.getfile(kapture))), 'kapture_format.adoc'),
                encoding='utf-8').read()
    m = re.search(r'^=== Binary files\n(.*?)^=== ', adoc, re.S | re.M)
    if not m:
        raise RuntimeError('adoc: section "Binary files" not found')
    sec = m.group(1)
    f['spec_little_endian'] = bool(re.search(r'^\s*-\s*little-endian\s*,?\s*$', sec, re.M))
    f['spec_raw_dump'] = bool(re.search(r'^\s*-\s*raw binary dump', sec, re.M))
    em = re.search(r'with extensions (.*?),?\s*$', sec, re.M)
    f['spec_ext'] = re.findall(r'`(\.[a-z]+)`', em.group(1)) if em else []
    mm = re.search(r'`\.matches` files are binary dump of numpy array of type `np\.(\w+)` on (\d+) columns', adoc)
    f['spec_matches_dtype'] = mm.group(1) if mm else ''
    f['spec_matches_cols'] = int(mm.group(2)) if mm else 0
    dm = re.search(r'A `\.depth` file is an array of float formatted as binary\.\s*\n'
                   r'The data type of the array is signed float on (\d+) bits', adoc)
    f['spec_depth_bits'] = int(dm.group(1)) if dm else 0
    # example paths of the specification: ".reconstruction/<kind>/<type>/<image><ext> (in binary format)"
    ex = []
    for p in re.findall(r'^\.(reconstruction/\S+) \(in binary format\)\s*$', adoc, re.M):
        parts = p.split('/')
        kind_dir = '/'.join(parts[:2])
        kind = [n for n, d in f['feature_dir'] if d == kind_dir]
        ext = os.path.splitext(p)[1]
        if not kind or (kind[0], ext) not in f['feature_ext']:
            raise RuntimeError('adoc: example path of unknown kind: ' + p)
        ex.append((kind[0], parts[2], '/'.join(parts[3:])[:-len(ext)], p))
    f['spec_examples'] = ex
    # example match files of the specification's tree: "<a>.overlapping/<b>.matches"
    pm = re.search(r'^<image_path1>(\S*?)<image_path2>(\S*)\s*$', adoc, re.M)
    if not pm:
        raise RuntimeError('adoc: pattern of the .matches path not found')
    f['spec_match_pattern'] = (pm.group(1), pm.group(2))
    f['spec_match_order_note'] = bool(re.search(r'by convention `image_path1 < image_path2`', adoc))
    f['spec_match_examples'] = sorted(set(
        re.findall(r'^[ \u2502\u251c\u2514\u2500]+(\S+)\.overlapping/(\S+)\.matches\b', adoc, re.M)
        + re.findall(r'^\.(\S+)\.overlapping/(\S+)\.matches \(binary dump\)\s*$', adoc, re.M)))
    if not f['spec_match_examples']:
        raise RuntimeError('adoc: no example of a .matches path found')
    # depth map example names
    f['spec_depth_examples'] = sorted(set(re.findall(r'^\d+,\s*\w+,\s*(\S+\.depth)\s*$', adoc, re.M)))
    return f


def emit():
    f = facts()
    s, L = kv.cstr, []
    w = L.append
    w('Local Open Scope string_scope.')
    w('(* numpy element types accepted by the readers: (name, itemsize in bytes, numpy kind) *)')
    w('Definition dtypes : list (string * N * string) := '
      + kv.clist(kv.cpair(s(n), kv.cn(sz), s(k)) for n, sz, k in f['dtypes']) + '.')
    w('Definition host_little_endian : bool := ' + kv.cbool(f['host_little']) + '.')
    w('(* FEATURES_DATA_DIRNAMES / FEATURE_FILE_EXTENSION / FEATURE_PAIR_PATH_SEPARATOR / RECORD_DATA_DIRNAME *)')
    w('Definition feature_dir : list (string * string) := '
      + kv.clist(kv.cpair(s(n), s(d)) for n, d in f['feature_dir']) + '.')
    w('Definition feature_ext : list (string * string) := '
      + kv.clist(kv.cpair(s(n), s(d)) for n, d in f['feature_ext']) + '.')
    w('Definition pair_sep : string := ' + s(f['pair_sep']) + '.')
    w('Definition records_dir : string := ' + s(f['records_dir']) + '.')
    w('(* what image_matches_from_file passes to array_from_file; RecordsDepth.dtype *)')
    w('Definition matches_dtype : string := ' + s(f['matches_dtype']) + '.')
    w('Definition matches_cols : N := ' + kv.cn(f['matches_cols']) + '.')
    w('Definition depth_dtype : string := ' + s(f['depth_dtype']) + '.')
    w('(* kapture_format.adoc, section "Binary files" and the .matches / .depth syntax paragraphs *)')
    w('Definition spec_little_endian : bool := ' + kv.cbool(f['spec_little_endian']) + '.')
    w('Definition spec_raw_dump : bool := ' + kv.cbool(f['spec_raw_dump']) + '.')
    w('Definition spec_ext : list string := ' + kv.clist(s(e) for e in f['spec_ext']) + '.')
    w('Definition spec_matches_dtype : string := ' + s(f['spec_matches_dtype']) + '.')
    w('Definition spec_matches_cols : N := ' + kv.cn(f['spec_matches_cols']) + '.')
    w('Definition spec_depth_bits : N := ' + kv.cn(f['spec_depth_bits']) + '.')
    w('(* example paths printed in the specification: (kind, feature type, image name, path) *)')
    w('Definition spec_examples : list (string * string * string * string) := '
      + kv.clist(kv.cpair(s(a), s(b), s(c), s(d)) for a, b, c, d in f['spec_examples']) + '.')
    w('(* "<image_path1>MID<image_path2>TAIL": (MID, TAIL);  NOTE by convention image_path1 < image_path2 *)')
    w('Definition spec_match_pattern : string * string := '
      + kv.cpair(s(f['spec_match_pattern'][0]), s(f['spec_match_pattern'][1])) + '.')
    w('Definition spec_match_order_note : bool := ' + kv.cbool(f['spec_match_order_note']) + '.')
    w('Definition spec_match_examples : list (string * string) := '
      + kv.clist(kv.cpair(s(a), s(b)) for a, b in f['spec_match_examples']) + '.')
    w('Definition spec_depth_examples : list string := ' + kv.clist(s(a) for a in f['spec_depth_examples']) + '.')
    return L
