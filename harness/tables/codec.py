"""Tables for the text codec (C01, C02) -> coq/Gen/Tcodec.v.

Everything is obtained by importing and running the kapture tree under test (no AST matching):
  - version line, file names (CSV_FILENAMES / FEATURES_CSV_FILENAMES)
  - for every writer: the header line and the padding it hands to table_to_file, captured by calling the
    real writer on an empty container with table_to_file wrapped; the two points3d header lines by saving
    empty clouds
  - record dataclass schemas (field name, type name) by dataclasses.fields
  - camera model parameter counts, the sensor types treated as cameras
  - which element-type names the three feature-descriptor readers accept (probed by calling them)
  - the `[source,txt]` syntax line under each file heading of kapture_format.adoc
  - the UTF-8 encodings of Python's non-ASCII white space
"""
import dataclasses
import os
import re
import shutil
import tempfile

import kv

DTYPE_CANDIDATES = ['float16', 'float32', 'float64', 'int8', 'int16', 'int32', 'int64',
                    'uint8', 'uint16', 'uint32', 'uint64', 'float', 'int']
DTYPE_PREFIXES = ['', 'np.', 'numpy.']

# adoc heading (as it appears after the tree-drawing characters) -> logical file name
ADOC_FILES = ['sensors.txt', 'rigs.txt', 'trajectories.txt', 'records_camera.txt', 'records_depth.txt',
              'records_gnss.txt', 'records_lidar.txt', 'records_wifi.txt', 'records_bluetooth.txt',
              'records_accelerometer.txt', 'records_gyroscope.txt', 'records_magnetic.txt',
              'keypoints.txt', 'descriptors.txt', 'global_features.txt', 'points3d.txt', 'observations.txt']


def adoc_syntax(repo):
    """logical file name -> first non-empty line of the first [source,txt] block after the '==== syntax'
    heading of the file's section; 'pairsfile' -> the block under '== Pairsfile'."""
    text = open(os.path.join(repo, 'kapture_format.adoc'), encoding='utf-8').read().split('\n')
    out = {}
    cur, in_syntax = None, False
    i = 0
    while i < len(text):
        line = text[i]
        m = re.match(r'^=+\s+`?[^`A-Za-z_*]*([A-Za-z_0-9]+\.txt)`?\s*$', line)
        if m:
            cur, in_syntax = m.group(1), False
        elif re.match(r'^==\s+Pairsfile\s*$', line):
            cur, in_syntax = 'pairsfile', True
        elif re.match(r'^=+\s+syntax\s*$', line):
            in_syntax = True
        elif re.match(r'^=+\s+\S', line):
            in_syntax = False
        elif line.strip() == '[source,txt]' and cur and in_syntax and cur not in out:
            j = i + 1
            if text[j].strip() == '----':
                j += 1
            while not text[j].strip():
                j += 1
            out[cur] = text[j].strip()
        i += 1
    return out


def writer_headers():
    """(logical name -> (header line, padding list)) captured from the real writers."""
    import numpy as np
    import kapture
    import kapture.io.csv as kcsv
    cap = {}
    real = kcsv.table_to_file
    tmp = tempfile.mkdtemp(prefix='kv-tcodec-', dir=os.path.join(kv.BUILD, 'tmp') if os.path.isdir(os.path.join(kv.BUILD, 'tmp')) else None)
    try:
        def run(name, fn, path, obj):
            def wrapped(file, table, header=None, padding=None):
                cap[name] = (header, list(padding) if padding else [])
                return real(file, table, header=header, padding=padding)
            kcsv.table_to_file = wrapped
            try:
                os.makedirs(os.path.dirname(path), exist_ok=True)
                fn(path, obj)
            finally:
                kcsv.table_to_file = real
        j = os.path.join
        run('sensors.txt', kcsv.sensors_to_file, j(tmp, 's', 'sensors.txt'), kapture.Sensors())
        run('rigs.txt', kcsv.rigs_to_file, j(tmp, 's', 'rigs.txt'), kapture.Rigs())
        run('trajectories.txt', kcsv.trajectories_to_file, j(tmp, 's', 'trajectories.txt'), kapture.Trajectories())
        for nm, cls, fn in [('records_camera.txt', kapture.RecordsCamera, kcsv.records_camera_to_file),
                            ('records_depth.txt', kapture.RecordsDepth, kcsv.records_depth_to_file),
                            ('records_lidar.txt', kapture.RecordsLidar, kcsv.records_lidar_to_file),
                            ('records_wifi.txt', kapture.RecordsWifi, kcsv.records_wifi_to_file),
                            ('records_bluetooth.txt', kapture.RecordsBluetooth, kcsv.records_bluetooth_to_file),
                            ('records_gnss.txt', kapture.RecordsGnss, kcsv.records_gnss_to_file),
                            ('records_accelerometer.txt', kapture.RecordsAccelerometer, kcsv.records_accelerometer_to_file),
                            ('records_gyroscope.txt', kapture.RecordsGyroscope, kcsv.records_gyroscope_to_file),
                            ('records_magnetic.txt', kapture.RecordsMagnetic, kcsv.records_magnetic_to_file)]:
            run(nm, fn, j(tmp, 's', nm), cls())
        run('observations.txt', kcsv.observations_to_file, j(tmp, 'r', 'observations.txt'), kapture.Observations())
        run('keypoints.txt', kcsv.keypoints_to_file, j(tmp, 'k', 'keypoints.txt'), kapture.Keypoints('n', np.float32, 2))
        run('descriptors.txt', kcsv.descriptors_to_file, j(tmp, 'd', 'descriptors.txt'),
            kapture.Descriptors('n', np.float32, 2, 'k', 'L2'))
        run('global_features.txt', kcsv.global_features_to_file, j(tmp, 'g', 'global_features.txt'),
            kapture.GlobalFeatures('n', np.float32, 2, 'L2'))
        # points3d: written by numpy.savetxt, read the two header lines back
        p3 = {}
        for w in (3, 6):
            p = j(tmp, 'p%d' % w, 'points3d.txt')
            kcsv.points3d_to_file(p, kapture.Points3d(np.zeros((0, w))))
            with open(p, encoding='utf-8') as f:
                ls = f.read().split('\n')
            p3[w] = (ls[0], ls[1])
        # which dtype names do the descriptor readers accept, and as what
        probes = []
        for kind, reader, ncol in [('keypoints', kcsv.keypoints_config_from_file, 3),
                                   ('descriptors', kcsv.descriptors_config_from_file, 5),
                                   ('global_features', kcsv.global_features_config_from_file, 4)]:
            for pre in DTYPE_PREFIXES:
                for nm in DTYPE_CANDIDATES:
                    p = j(tmp, 'probe', kind + '.txt')
                    os.makedirs(os.path.dirname(p), exist_ok=True)
                    row = {3: ['n', pre + nm, '2'], 5: ['n', pre + nm, '2', 'k', 'L2'], 4: ['n', pre + nm, '2', 'L2']}[ncol]
                    with open(p, 'w', encoding='utf-8') as f:
                        f.write(kcsv.KAPTURE_FORMAT_1 + '\n' + ', '.join(row) + '\n')
                    try:
                        cfg = reader(p)
                        dt = cfg.dtype
                        canon = str(dt) if isinstance(dt, np.dtype) else dt.__name__
                        probes.append((kind, pre + nm, canon))
                    except Exception:
                        pass
    finally:
        kcsv.table_to_file = real
        shutil.rmtree(tmp, ignore_errors=True)
    return cap, p3, probes


def emit():
    import kapture
    import kapture.io.csv as kcsv
    import importlib
    KS = importlib.import_module("kapture.core.Sensors")
    L = ['From KV Require Import Str.', 'Local Open Scope string_scope.', '']
    w = L.append
    w('Definition version_line : string := %s.' % kv.cstr(kcsv.KAPTURE_FORMAT_1))
    # file names
    names = {}
    for t, fn in kcsv.CSV_FILENAMES.items():
        names[os.path.basename(fn)] = fn.replace('\\', '/')
    for t, f in kcsv.FEATURES_CSV_FILENAMES.items():
        p = f('TYPE').replace('\\', '/')
        names[os.path.basename(p)] = p
    w('(* logical name -> path below the dataset root (TYPE = feature type directory) *)')
    w('Definition file_paths : list (string * string) := ' +
      kv.clist(kv.cpair(kv.cstr(k), kv.cstr(v)) for k, v in names.items()) + '.')
    cap, p3, probes = writer_headers()
    w('(* header line and padding each writer passes to table_to_file (captured on an empty container) *)')
    w('Definition writer_headers : list (string * string) := ' +
      kv.clist(kv.cpair(kv.cstr(k), kv.cstr(h)) for k, (h, _) in cap.items()) + '.')
    w('Definition writer_paddings : list (string * list nat) := ' +
      kv.clist(kv.cpair(kv.cstr(k), kv.clist(kv.cnat(x) for x in p)) for k, (_, p) in cap.items()) + '.')
    w('(* first two lines of points3d.txt written for an empty Nx3 / Nx6 cloud *)')
    w('Definition p3d_lines3 : string * string := %s.' % kv.cpair(kv.cstr(p3[3][0]), kv.cstr(p3[3][1])))
    w('Definition p3d_lines6 : string * string := %s.' % kv.cpair(kv.cstr(p3[6][0]), kv.cstr(p3[6][1])))
    w('Definition p3d_xyz : string := %s.' % kv.cstr(kcsv.XYZ_COLUMNS))
    w('Definition p3d_rgb : string := %s.' % kv.cstr(kcsv.RGB_COLUMNS))
    # record dataclasses
    recs = [('records_wifi.txt', kapture.RecordWifiSignal), ('records_bluetooth.txt', kapture.RecordBluetoothSignal),
            ('records_gnss.txt', kapture.RecordGnss), ('records_accelerometer.txt', kapture.RecordAccelerometer),
            ('records_gyroscope.txt', kapture.RecordGyroscope), ('records_magnetic.txt', kapture.RecordMagnetic)]
    rows = []
    for nm, cls in recs:
        fs = [(f.name, f.type.__name__ if isinstance(f.type, type) else str(f.type)) for f in dataclasses.fields(cls)]
        rows.append(kv.cpair(kv.cstr(nm), kv.clist(kv.cpair(kv.cstr(a), kv.cstr(b)) for a, b in fs)))
    w('(* dataclasses.fields of the record types: (field name, declared type) *)')
    w('Definition record_fields : list (string * list (string * string)) := ' + kv.clist(rows) + '.')
    w('Definition camera_models : list (string * nat) := ' +
      kv.clist(kv.cpair(kv.cstr(k), kv.cnat(v)) for k, v in KS.CAMERA_TYPE_PARAMS_COUNT_FROM_NAME.items()) + '.')
    w('Definition camera_sensor_types : list string := ' + kv.clist(kv.cstr(x) for x in KS.ALL_CAMERA_SENSOR_TYPES) + '.')
    w('(* element-type field texts accepted by the descriptor readers of this tree, with the name the writer emits *)')
    w('Definition dtype_accepts : list (string * string * string) := ' +
      kv.clist(kv.cpair(kv.cstr(a), kv.cstr(b), kv.cstr(c)) for a, b, c in probes) + '.')
    syn = adoc_syntax(kv.REPO)
    missing = [f for f in ADOC_FILES + ['pairsfile'] if f not in syn]
    if missing:
        raise RuntimeError('kapture_format.adoc: no syntax block found for ' + ', '.join(missing))
    w('(* kapture_format.adoc: the [source,txt] syntax line of each file section *)')
    w('Definition adoc_syntax : list (string * string) := ' +
      kv.clist(kv.cpair(kv.cstr(k), kv.cstr(syn[k])) for k in ADOC_FILES + ['pairsfile']) + '.')
    uws = [c for c in range(128, 0x110000) if chr(c).isspace()]
    w('(* UTF-8 encodings of the non-ASCII code points c with chr(c).isspace() *)')
    w('Definition py_space_utf8 : list (list N) := ' +
      kv.clist(kv.clist(kv.cn(b) for b in chr(c).encode('utf-8')) for c in uws) + '.')
    asc = [c for c in range(128) if chr(c).isspace()]
    w('Definition py_space_ascii : list N := ' + kv.clist(kv.cn(c) for c in asc) + '.')
    return L
