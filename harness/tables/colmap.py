"""Tables for property C13 (COLMAP export / import) -> coq/Gen/Tcolmap.v, regenerated on every check by importing
the converter modules of the kapture tree under test (no AST matching).

- camera_model_name_id : kapture.converter.colmap.cameras.CAMERA_MODEL_NAME_ID (name, COLMAP model id)
- camera_model_names / camera_model_ids : the two derived dicts the converters actually use
- kapture_camera_params_count : kapture.core.Sensors.CAMERA_TYPE_PARAMS_COUNT (w, h included), by type name
- colmap_num_params : REFERENCE constants, not read from the tree: num_params of each model in COLMAP's
  src/base/camera_models.h (the converter has no such table; it passes camera_params[2:] through).  The theorem
  C13_camera_tables says kapture's count is 2 + COLMAP's for every model of the table.
- max_image_id : kapture.converter.colmap.database.MAX_IMAGE_ID
- default_focal_length_factor : cameras.DEFAULT_FOCAL_LENGTH_FACTOR (only used for UNKNOWN_CAMERA)
- cam_name_samples : get_camera_kapture_id_from_colmap_id evaluated on a sample of ids (the model keeps that function
  abstract and assumes it injective; the sample is checked for collisions inside Coq)
- pair_id_samples : image_ids_to_pair_id / pair_id_to_image_ids of the tree on boundary ids"""
from fractions import Fraction

import kv

COLMAP_NUM_PARAMS = [('SIMPLE_PINHOLE', 3), ('PINHOLE', 4), ('SIMPLE_RADIAL', 4), ('RADIAL', 5), ('OPENCV', 8),
                     ('OPENCV_FISHEYE', 8), ('FULL_OPENCV', 12), ('FOV', 5), ('SIMPLE_RADIAL_FISHEYE', 4),
                     ('RADIAL_FISHEYE', 5), ('THIN_PRISM_FISHEYE', 12)]


def facts():
    import kapture
    import kapture.converter.colmap.cameras as ccam
    import kapture.converter.colmap.database as cdb
    from kapture.core.Sensors import CAMERA_TYPE_PARAMS_COUNT
    f = {}
    f['name_id'] = [(str(n), int(i)) for n, i in ccam.CAMERA_MODEL_NAME_ID]
    f['names'] = [(int(i), str(n)) for i, n in ccam.CAMERA_MODEL_NAMES.items()]
    f['ids'] = [(str(n), int(i)) for n, i in ccam.CAMERA_MODEL_IDS.items()]
    f['kcount'] = [(t.name, int(c)) for t, c in CAMERA_TYPE_PARAMS_COUNT.items()]
    f['unknown'] = kapture.CameraType.UNKNOWN_CAMERA.name
    f['unknown_as'] = kapture.CameraType.SIMPLE_RADIAL.value
    f['max_image_id'] = int(cdb.MAX_IMAGE_ID)
    f['focal_factor'] = Fraction(*float(ccam.DEFAULT_FOCAL_LENGTH_FACTOR).as_integer_ratio())
    ids = list(range(0, 120)) + [999, 1000, 9999, 10000, 99999, 100000, 100001, 123456, 2 ** 31 - 2]
    f['cam_names'] = [(i, ccam.get_camera_kapture_id_from_colmap_id(i)) for i in ids]
    m = f['max_image_id']
    pairs = [(0, 0), (0, 1), (1, 0), (1, 1), (1, 2), (2, 1), (m - 1, 0), (0, m - 1), (m - 1, m - 1), (m - 2, m - 1),
             (m - 1, m - 2), (7, 3), (3, 7), (65536, 65535), (2 ** 30, 2 ** 30 + 1)]
    f['pair_samples'] = []
    for a, b in pairs:
        p = cdb.image_ids_to_pair_id(a, b)
        x, y = cdb.pair_id_to_image_ids(p)
        f['pair_samples'].append((a, b, int(p), int(x), int(y)))
    return f


def emit():
    f = facts()
    s, z = kv.cstr, kv.cz
    L = ['Local Open Scope string_scope.']
    w = L.append
    w('(* kapture.converter.colmap.cameras.CAMERA_MODEL_NAME_ID *)')
    w('Definition camera_model_name_id : list (string * Z) := ' + kv.clist(kv.cpair(s(n), z(i)) for n, i in f['name_id']) + '.')
    w('(* CAMERA_MODEL_NAMES (id -> name) and CAMERA_MODEL_IDS (name -> id), in dict order *)')
    w('Definition camera_model_names : list (Z * string) := ' + kv.clist(kv.cpair(z(i), s(n)) for i, n in f['names']) + '.')
    w('Definition camera_model_ids : list (string * Z) := ' + kv.clist(kv.cpair(s(n), z(i)) for n, i in f['ids']) + '.')
    w('(* kapture.core.Sensors.CAMERA_TYPE_PARAMS_COUNT by type name (w and h included) *)')
    w('Definition kapture_camera_params_count : list (string * Z) := ' + kv.clist(kv.cpair(s(n), z(c)) for n, c in f['kcount']) + '.')
    w('Definition unknown_camera : string := ' + s(f['unknown']) + '.')
    w('Definition unknown_camera_exported_as : string := ' + s(f['unknown_as']) + '.')
    w('(* reference: num_params per model in COLMAP src/base/camera_models.h (constants of harness/tables/colmap.py) *)')
    w('Definition colmap_num_params : list (string * Z) := ' + kv.clist(kv.cpair(s(n), z(c)) for n, c in COLMAP_NUM_PARAMS) + '.')
    w('(* kapture.converter.colmap.database.MAX_IMAGE_ID *)')
    w('Definition max_image_id : Z := ' + z(f['max_image_id']) + '.')
    w('Definition default_focal_length_factor : Q := ' + kv.cq(f['focal_factor']) + '.')
    w('(* get_camera_kapture_id_from_colmap_id on a sample of ids *)')
    w('Definition cam_name_samples : list (Z * string) := ' + kv.clist(kv.cpair(z(i), s(n)) for i, n in f['cam_names']) + '.')
    w('(* (a, b, image_ids_to_pair_id a b, pair_id_to_image_ids of that) on boundary ids *)')
    w('Definition pair_id_samples : list (Z * Z * Z * Z * Z) := '
      + kv.clist(kv.cpair(z(a), z(b), z(p), z(x), z(y)) for a, b, p, x, y in f['pair_samples']) + '.')
    return L
