"""Tables for property C08 (dataset comparison), obtained by CALLING the comparison of the kapture tree
under test on datasets that differ in exactly one part (introspection by behaviour, not by reading the
source), plus the constants the comparison relies on.  Output: coq/Gen/Tcompare.v (regenerated on every check)."""
import inspect

import kv


def emit():
    import logging
    import numpy as np
    import kapture
    import kapture.algo.compare as kcmp
    from props import c08

    logging.disable(logging.CRITICAL)
    rng = kv.make_rng('C08', 0, 'tables')
    spec = c08.gen_spec(rng)
    full = c08.build(spec)
    assert all(getattr(full, p) is not None and len(getattr(full, p)) > 0 for p in c08.parts()), 'base dataset must populate every part'
    if not (kcmp.equal_kapture(full, c08.build(spec)) is True):
        raise RuntimeError('equal_kapture is not true on two builds of the same dataset')

    def differs(sa, sb):
        a, b = c08.build(sa), c08.build(sb)
        return (kcmp.equal_kapture(a, b) is False) and (kcmp.equal_kapture(b, a) is False)

    visits = []
    for p in c08.parts():
        without = dict(spec)
        without[p] = None
        if differs(spec, without) and differs(without, spec):
            visits.append(p)
    # single entries: every add* / remove* mutation of the part, on either side, in both argument orders
    seen = {'add': {}, 'remove': {}}
    for tag, mutated, expect in c08.mutations(spec, kv.make_rng('C08', 0, 'tables-mut')):
        op, part = tag.split(':')
        kind = 'add' if op.startswith('add') else ('remove' if op.startswith('remove') else None)
        if kind is None or expect != 'ne':
            continue
        ok = differs(spec, mutated) and differs(mutated, spec)
        seen[kind][part] = seen[kind].get(part, True) and ok
    L = []
    L.append('(* parts p such that equal_kapture(d, d without p) is False in both argument orders, d having all parts *)')
    L.append('Definition visits : list string := ' + kv.clist(kv.cstr(p) for p in visits) + '.')
    L.append('(* parts in which one added (resp. removed) entry, on either side, is reported in both argument orders *)')
    L.append('Definition detects_add : list string := ' +
             kv.clist(kv.cstr(p) for p in c08.parts() if seen['add'].get(p)) + '.')
    L.append('Definition detects_remove : list string := ' +
             kv.clist(kv.cstr(p) for p in c08.parts() if seen['remove'].get(p)) + '.')
    L.append('(* kapture.ALL_CAMERA_SENSOR_TYPES *)')
    L.append('Definition camera_sensor_types : list string := ' +
             kv.clist(kv.cstr(t) for t in kapture.ALL_CAMERA_SENSOR_TYPES) + '.')
    sig = inspect.signature(np.isclose).parameters
    L.append('(* defaults of numpy.isclose, as the exact rationals the floats denote *)')
    L.append('Definition isclose_rtol : Q := ' + kv.cq(float(sig['rtol'].default)) + '.')
    L.append('Definition isclose_atol : Q := ' + kv.cq(float(sig['atol'].default)) + '.')
    thr = inspect.signature(kcmp.is_distance_within_threshold).parameters['pose_thresholds'].default
    zero = inspect.signature(kcmp.float_iszero).parameters['threshold'].default
    L.append('(* default thresholds of is_distance_within_threshold (translation, rotation) and float_iszero *)')
    L.append('Definition pose_thresholds : list Q := ' + kv.clist(kv.cq(float(t)) for t in list(thr) + [zero]) + '.')
    # the error branch: which (helper, class of the object passed on both sides) raise TypeError; which Kapture setters
    # refuse an object of which other part's class (observed by calling them)
    helper_rejects, setter_rejects = [], []
    for h in c08.TYPED_HELPERS:
        for q in c08.parts():
            obj = getattr(full, q)
            try:
                c08.helper_of(h)(obj, obj)
            except TypeError:
                helper_rejects.append((h, q))
            except Exception:
                pass
            try:
                setattr(kapture.Kapture(), h, obj)
            except TypeError:
                setter_rejects.append((h, q))
            except Exception:
                pass
    L.append('(* (typed helper h, part q): equal_<h>(d.q, d.q) raises TypeError *)')
    L.append('Definition helper_rejects : list (string * string) := ' +
             kv.clist(kv.cpair(kv.cstr(h), kv.cstr(q)) for h, q in helper_rejects) + '.')
    L.append('(* (attribute h of a typed helper, part q): Kapture().h = d.q raises TypeError *)')
    L.append('Definition setter_rejects : list (string * string) := ' +
             kv.clist(kv.cpair(kv.cstr(h), kv.cstr(q)) for h, q in setter_rejects) + '.')
    return L
