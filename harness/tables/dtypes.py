"""Tables for property C16 (element-type field of keypoints / descriptors / global_features descriptor files),
OBSERVED on the kapture tree under test.  Output: coq/Gen/Tdtypes.v (regenerated on every check).

A probe universe of a few thousand candidate element-type fields (every public attribute name of numpy and of
builtins and every numpy scalar-type alias, each bare and behind np. / numpy.; every whitelisted name inside the
decorations a partial match would let through: str(type) / repr(dtype) wrappers, text before / after, brackets,
quotes, calls, case changes) is handed, in a real descriptor file, to each of the four readers of that field:
   kapture.io.csv.keypoints_config_from_file / descriptors_config_from_file / global_features_config_from_file
   kapture.utils.upgrade.read_old_image_features_csv
and the fields each reader accepts are listed.  Props/C16.v proves (vm_compute) that on the whole universe each
reader accepts exactly what the model's parse_dtype accepts.  No probe contains a call of anything but a type name
(nothing happens even if a reader evaluated it)."""
import builtins
import os
import re
import shutil
import tempfile
import warnings

import kv

PLAIN = re.compile(r'^[\x20-\x7e]*$')        # what kv.cstr writes as a plain Coq string literal

CANON = ['float16', 'float32', 'float64', 'int8', 'int16', 'int32', 'int64', 'uint8', 'uint16', 'uint32', 'uint64',
         'float', 'int']
WRAP = ["<class '{n}'>", "<class '{n}'>x", "<class '{n}'>.type", "<class '{n}'>()", "<class '{n}'><class 'x'>", "<type '{n}'>",
        "<class '{n}'", "class '{n}'>", "<class {n}>", '<class "{n}">', "dtype('{n}')", 'dtype({n})', "dtype('{n}').type", '<{n}>',
        "'{n}'>", "x<class '{n}'>", '({n})', '[{n}]', '{{n}}', "'{n}'", '"{n}"', '{n}.type', '{n}.__name__', '{n}(0)', '{n}()',
        '{n} x', 'x {n}', 'x{n}', '{n}x', '{n}.', '.{n}', '{n}:4', '{n}=4', '{n}|{n}', '{n}.{n}', 'np.{n}', 'numpy.{n}', '{n}-',
        '-{n}', '{n}/x', '../{n}', '{n}\\', '${n}', '%{n}', '{n};', '{n}_', '_{n}', '{n}0', '0{n}', '{n} or {n}']


def universe():
    import numpy as np
    names = {}          # name -> is it (possibly) the name of a type
    for mod in (np, builtins):
        for n in dir(mod):
            if not n.startswith('__'):
                with warnings.catch_warnings():
                    warnings.simplefilter('ignore')
                    try:
                        names[n] = names.get(n, False) or isinstance(getattr(mod, n), type)
                    except Exception:
                        names[n] = True
    for k in getattr(np, 'sctypeDict', {}):
        if isinstance(k, str):
            names[k] = True
    for t in CANON:
        for k in (np.dtype(t).str, np.dtype(t).char, np.dtype(t).name, t):
            names[k] = True
    for k in ('', 'np', 'numpy', 'f4', 'u1', 'i8', 'f8', 'float128', 'float96', 'int0', 'uint0', 'int128', 'uint', 'object'):
        names[k] = True
    probes = set()
    for n, is_type in names.items():
        for pre in (('', 'np.', 'numpy.', 'np.np.', 'numpy.np.') if is_type else ('', 'np.', 'numpy.')):
            probes.add(pre + n)
    for n in CANON:
        for m in (n.upper(), n.capitalize(), 'NP.' + n, 'Numpy.' + n, 'np.np.' + n, 'numpy.numpy.' + n, 'np.numpy.' + n):
            probes.add(m)
        for m in (n, 'np.' + n, 'numpy.' + n):
            probes.add(m)
            for w in WRAP:
                probes.add(w.replace('{n}', m))
    ok = [p for p in probes if PLAIN.match(p) and p == p.strip() and ',' not in p and not p.startswith('#')]
    return sorted(ok)


def emit():
    import kapture.io.csv as kcsv
    import kapture.utils.upgrade as kup
    probes = universe()
    # ~12000 tiny files are rewritten: a memory file system when there is one (a disk costs ~2 ms per rewrite)
    shm = '/dev/shm'
    tmp = tempfile.mkdtemp(prefix='kv-tdtypes-', dir=shm if (os.path.isdir(shm) and os.access(shm, os.W_OK)) else '/var/tmp')
    cwd = os.getcwd()
    readers = [('keypoints', kcsv.keypoints_config_from_file, '# kapture format: 1.1\n# name, dtype, dsize\nN, %s, 4\n'),
               ('descriptors', kcsv.descriptors_config_from_file,
                '# kapture format: 1.1\n# name, dtype, dsize, keypoints_type, metric_type\nN, %s, 4, K, L2\n'),
               ('global_features', kcsv.global_features_config_from_file,
                '# kapture format: 1.1\n# name, dtype, dsize, metric_type\nN, %s, 4, L2\n'),
               ('upgrade', kup.read_old_image_features_csv, '# kapture format: 1.0\n# name, dtype, dsize\nN, %s, 4\n')]
    accepted = {}
    try:
        os.chdir(tmp)           # a reader that evaluated a probe could only touch this folder
        with warnings.catch_warnings():
            warnings.simplefilter('ignore')
            for tag, fn, text in readers:
                acc = []
                fp = os.path.join(tmp, tag + '.txt')
                for p in probes:
                    with open(fp, 'w', encoding='utf-8', newline='') as f:
                        f.write(text % p)
                    try:
                        fn(fp)
                        acc.append(p)
                    except Exception:
                        pass
                accepted[tag] = acc
    finally:
        os.chdir(cwd)
        shutil.rmtree(tmp, ignore_errors=True)
    for n in CANON:
        for tag in accepted:
            if n not in accepted[tag]:
                raise RuntimeError('the %s reader refuses the element type %s' % (tag, n))
    L = ['Local Open Scope string_scope.',
         '(* candidate element-type fields handed to the four readers of the tree under test *)',
         'Definition dtype_probe_universe : list string := ' + kv.clist(kv.cstr(p) for p in probes) + '.']
    for tag in ('keypoints', 'descriptors', 'global_features', 'upgrade'):
        L.append('(* the probes accepted by the %s reader *)' % tag)
        L.append('Definition code_accepts_%s : list string := %s.' % (tag, kv.clist(kv.cstr(p) for p in accepted[tag])))
    return L
