"""Tables for property C04 (loading a dataset directory), read by introspection from the kapture tree under
test.  Output: coq/Gen/Tload.v (regenerated on every check).

- current_version: what kapture.io.csv.current_format_version() returns now.
- ver_thr / ver_thr_incl: the version gate is `float(version) > float(current)`.  For a decimal string denoting
  the exact rational q, CPython's float() is the correctly rounded binary64 value, so the test is equivalent to
  q > thr (or q >= thr when ver_thr_incl), where thr is the midpoint between float(current) and the next
  binary64 above it.  The midpoint is computed exactly here; which side the tie falls on is *observed* by
  handing CPython the exact decimal expansion of the midpoint.
- record_parts: the dataset parts named records_* (Kapture.__init__), sensor_types: SensorType names.
- loadable_types: the parts skip_list can name (KAPTURE_LOADABLE_TYPES)."""
import inspect
import math
from fractions import Fraction

import kv


def exact_decimal(fr):
    """Exact finite decimal expansion of a positive rational whose denominator is a power of two."""
    den = fr.denominator
    assert den & (den - 1) == 0
    k = den.bit_length() - 1
    num = fr.numerator * 5 ** k          # fr = num / 10^k
    s = str(num).rjust(k + 1, '0')
    return s[:-k] + '.' + s[-k:] if k else s + '.0'


def emit():
    import kapture
    import kapture.io.csv as kcsv

    cur = kcsv.current_format_version()
    if not isinstance(cur, str):
        raise RuntimeError('current_format_version() is not a string')
    d = float(cur)
    nxt = math.nextafter(d, math.inf)
    mid = (Fraction(d) + Fraction(nxt)) / 2
    mid_txt = exact_decimal(mid)
    assert Fraction(mid_txt) == mid
    incl = float(mid_txt) > d
    # sanity of the claimed equivalence on both sides of the midpoint
    assert float(exact_decimal(mid) + '1') > d          # mid + tiny
    lo = exact_decimal(Fraction(d))                     # d itself
    assert not (float(lo) > d)
    L = []
    L.append('(* kapture.io.csv.current_format_version() *)')
    L.append('Definition current_version : string := ' + kv.cstr(cur) + '.')
    L.append('(* float(current_version) as an exact rational, and the rounding midpoint above it *)')
    L.append('Definition cur_float : Q := ' + kv.cq(Fraction(d)) + '.')
    L.append('Definition ver_thr : Q := ' + kv.cq(mid) + '.')
    L.append('(* True when a version denoting exactly ver_thr already compares greater (tie rounds up) *)')
    L.append('Definition ver_thr_incl : bool := ' + kv.cbool(incl) + '.')
    params = [p for p in inspect.signature(kapture.Kapture.__init__).parameters if p != 'self']
    L.append('(* dataset parts named records_*, in Kapture.__init__ order *)')
    L.append('Definition record_parts : list string := ' +
             kv.clist(kv.cstr(p) for p in params if p.startswith('records_')) + '.')
    L.append('(* names of kapture.SensorType *)')
    L.append('Definition sensor_types : list string := ' +
             kv.clist(kv.cstr(t.name) for t in kapture.SensorType) + '.')
    # the parts kapture_from_dir can be told to skip: KAPTURE_LOADABLE_TYPES (any iterable of classes; emitted sorted by
    # name); when that constant is not there, the classes named by the annotation of the skip_list parameter + Sensors
    types = getattr(kcsv, 'KAPTURE_LOADABLE_TYPES', None)
    if types is not None:
        names = sorted(c.__name__ for c in types)
    else:
        import typing
        ann = typing.get_type_hints(kcsv.kapture_from_dir)['skip_list']

        def leaves(t):
            args = typing.get_args(t)
            if not args:
                return [t] if inspect.isclass(t) else []
            return [x for a in args for x in leaves(a)]
        names = sorted({c.__name__ for c in leaves(ann)} | {'Sensors'})
    L.append('(* class names of the loadable types of kapture.io.csv (the parts skip_list can name, and Sensors), sorted *)')
    L.append('Definition loadable_types : list string := ' + kv.clist(kv.cstr(n) for n in names) + '.')
    return L
