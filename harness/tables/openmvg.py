"""Tables for property C14 (OpenMVG round trip), read by introspection from the kapture tree under test.
Output: coq/Gen/Topenmvg.v (regenerated on every check): the kapture camera models with their parameter counts,
the OpenMVG camera model names the converter knows, and two constants of the exporter."""
import kv


def emit():
    from kapture.core.Sensors import CAMERA_TYPE_PARAMS_COUNT
    from kapture.converter.openmvg.openmvg_commons import CameraModel
    import kapture.converter.openmvg.export_openmvg as exp
    L = []
    L.append('(* kapture.core.Sensors.CAMERA_TYPE_PARAMS_COUNT: camera model name -> number of parameters (w, h included) *)')
    L.append('Definition camera_param_counts : list (string * nat) := ' +
             kv.clist(kv.cpair(kv.cstr(t.name), kv.cnat(n)) for t, n in CAMERA_TYPE_PARAMS_COUNT.items()) + '.')
    L.append('(* openmvg_commons.CameraModel: the OpenMVG intrinsic models the converter reads and writes *)')
    L.append('Definition openmvg_models : list string := ' + kv.clist(kv.cstr(m.name) for m in CameraModel) + '.')
    L.append('(* export_openmvg.DEFAULT_FOCAL_LENGTH_FACTOR, as the exact rational of the double *)')
    L.append('Definition default_focal_factor : Q := ' + kv.cq(float(exp.DEFAULT_FOCAL_LENGTH_FACTOR)) + '.')
    return L
