"""Table for property C05, read from the SOURCE of kapture/core/PoseTransform.py of the tree under test (ast, nothing is run).
Output: coq/Gen/Tpose.v (regenerated on every check).

The models MPose (histories on objects) and MPoseMemo (histories of calls) rest on two facts about the code:
a PoseTransform object holds nothing but its current (r, t), and the module keeps nothing between calls.
   instance_fields   attributes stored on an instance anywhere in the module (`x.<name> = ...`, augmented or annotated
                     assignments, setattr(x, '<name>', ...)), sorted
   module_state      module-level / class-level names that some function of the module can change: declared `global` /
                     `nonlocal`, assigned through a subscript or attribute (`name[k] = v`, `name.a = v`, `del name[k]`), or on
                     which a mutating method is called (append, update, setdefault, ...); plus every function carrying a
                     decorator whose name contains `cache` (functools.lru_cache, cache, cached_property, memoize...), sorted
   matrix_call_sites number of calls of _as_rotation_matrix_njit outside its own definition
Props/C05.v states instance_fields = [_r; _t], module_state = [] and matrix_call_sites = 3 (checked by computation)."""
import ast
import os

import kv

MUTATORS = {'append', 'extend', 'insert', 'update', 'setdefault', 'pop', 'popitem', 'clear', 'add', 'remove', 'discard',
            'fill', 'put', 'resize', 'sort', 'reverse', '__setitem__', 'appendleft', 'move_to_end'}


def _root(node):
    while isinstance(node, (ast.Subscript, ast.Attribute)):
        node = node.value
    return node.id if isinstance(node, ast.Name) else None


def scan(src):
    tree = ast.parse(src)
    shared = set()                       # names bound at module level or in a class body (not functions / imports)
    for node in ast.walk(tree):
        if isinstance(node, (ast.Module, ast.ClassDef)):
            for st in node.body:
                targets = []
                if isinstance(st, ast.Assign):
                    targets = st.targets
                elif isinstance(st, (ast.AnnAssign, ast.AugAssign)):
                    targets = [st.target]
                for t in targets:
                    for n in ast.walk(t):
                        if isinstance(n, ast.Name):
                            shared.add(n.id)
    fields, state, sites = set(), set(), 0
    for fn in ast.walk(tree):
        if not isinstance(fn, (ast.FunctionDef, ast.AsyncFunctionDef, ast.Lambda)):
            continue
        if not isinstance(fn, ast.Lambda):
            for d in fn.decorator_list:
                name = ast.unparse(d.func if isinstance(d, ast.Call) else d)
                if 'cache' in name.lower() or 'memo' in name.lower():
                    state.add(fn.name + '@' + name)
        params = {a.arg for a in ast.walk(fn.args) if isinstance(a, ast.arg)} if hasattr(fn, 'args') else set()
        for node in ast.walk(fn):
            if isinstance(node, (ast.Global, ast.Nonlocal)):
                state.update(node.names)
            stores = []
            if isinstance(node, ast.Assign):
                stores = node.targets
            elif isinstance(node, (ast.AugAssign, ast.AnnAssign)):
                stores = [node.target]
            elif isinstance(node, ast.Delete):
                stores = node.targets
            for t in stores:
                for el in (t.elts if isinstance(t, (ast.Tuple, ast.List)) else [t]):
                    if isinstance(el, ast.Attribute):
                        root = _root(el)
                        if root in shared and root not in params:
                            state.add(root)
                        else:
                            fields.add(el.attr)
                    elif isinstance(el, ast.Subscript):
                        root = _root(el)
                        if root in shared and root not in params:
                            state.add(root)
            if isinstance(node, ast.Call):
                f = node.func
                if isinstance(f, ast.Name) and f.id == 'setattr' and len(node.args) >= 2 and isinstance(node.args[1], ast.Constant):
                    fields.add(str(node.args[1].value))
                if isinstance(f, ast.Attribute) and f.attr in MUTATORS:
                    root = _root(f.value)
                    if root in shared and root not in params:
                        state.add(root)
                if (isinstance(f, ast.Name) and f.id == '_as_rotation_matrix_njit') or \
                        (isinstance(f, ast.Attribute) and f.attr == '_as_rotation_matrix_njit'):
                    sites += 1
    return sorted(fields), sorted(state), sites


def emit():
    import inspect
    import kapture
    path = inspect.getsourcefile(kapture.PoseTransform)      # kapture/core/PoseTransform.py of the tree under test
    fields, state, sites = scan(open(path, encoding='utf-8').read())
    return ['(* from %s *)' % os.path.join('kapture', 'core', os.path.basename(path)),
            'Definition instance_fields : list string := ' + kv.clist(kv.cstr(n) for n in fields) + '.',
            'Definition module_state : list string := ' + kv.clist(kv.cstr(n) for n in state) + '.',
            'Definition matrix_call_sites : nat := %d%%nat.' % sites]
