"""Tables for property C12 (tar-packed feature stores), read by introspection from the kapture tree
under test and from kapture_format.adoc.  Output: coq/Gen/Ttar.v (regenerated on every check)."""
import os
import re

import kv


def emit():
    import kapture
    import kapture.io.features as kfeat
    import kapture.io.tar as ktar

    kinds = [kapture.Keypoints, kapture.Descriptors, kapture.GlobalFeatures, kapture.Matches]

    def posix(p):
        return p.replace('\\', '/')

    L = []
    L.append('(* feature kinds that may be stored in a tar: sorted names of KAPTURE_TARABLE_TYPES *)')
    L.append('Definition tarable : list string := ' +
             kv.clist(kv.cstr(n) for n in sorted(t.__name__ for t in ktar.KAPTURE_TARABLE_TYPES)) + '.')
    L.append('(* FEATURE_FILE_EXTENSION *)')
    L.append('Definition feat_ext : list (string * string) := ' +
             kv.clist(kv.cpair(kv.cstr(t.__name__), kv.cstr(kfeat.FEATURE_FILE_EXTENSION[t])) for t in kinds) + '.')
    L.append('(* FEATURES_DATA_DIRNAMES of the four kinds *)')
    L.append('Definition feat_dir : list (string * string) := ' +
             kv.clist(kv.cpair(kv.cstr(t.__name__), kv.cstr(posix(kfeat.FEATURES_DATA_DIRNAMES[t]))) for t in kinds) + '.')
    L.append('(* FEATURES_TAR_FILENAMES[kind]("TYPE") and get_feature_tar_fullpath(kind, "TYPE", "") *)')
    L.append('Definition tar_path : list (string * string) := ' +
             kv.clist(kv.cpair(kv.cstr(t.__name__), kv.cstr(posix(ktar.FEATURES_TAR_FILENAMES[t]('TYPE')))) for t in kinds) + '.')
    L.append('Definition tar_fullpath : list (string * string) := ' +
             kv.clist(kv.cpair(kv.cstr(t.__name__), kv.cstr(posix(ktar.get_feature_tar_fullpath(t, 'TYPE', '')))) for t in kinds) + '.')
    L.append('(* FEATURE_PAIR_PATH_SEPARATOR[Matches] *)')
    L.append('Definition pair_sep : string := ' + kv.cstr(kfeat.FEATURE_PAIR_PATH_SEPARATOR[kapture.Matches]) + '.')

    # the published format: names of the archives (kapture_format.adoc, "Support for tar files")
    adoc = open(os.path.join(kv.REPO, 'kapture_format.adoc'), encoding='utf-8').read()
    m = re.search(r'===\s*Support for tar files(.*?)(?:\n==\s|\n===\s)', adoc, re.S)
    if not m:
        raise RuntimeError('section "Support for tar files" not found in kapture_format.adoc')
    sent = re.search(r'subfolders of ((?:`\w+`[ ,and]*)+).*?inside a tar named ((?:`[\w.]+`[ ,or]*)+)', m.group(1), re.S)
    if not sent:
        raise RuntimeError('sentence naming the tar files not found in kapture_format.adoc')
    folders = re.findall(r'`(\w+)`', sent.group(1))
    tars = re.findall(r'`([\w.]+)`', sent.group(2))
    if len(folders) != len(tars) or not folders:
        raise RuntimeError('cannot pair feature folders and tar names in kapture_format.adoc')
    L.append('(* kapture_format.adoc, "Support for tar files": (feature folder, name of the archive inside every sub-folder) *)')
    L.append('Definition spec_tar : list (string * string) := ' +
             kv.clist(kv.cpair(kv.cstr(a), kv.cstr(b)) for a, b in zip(folders, tars)) + '.')
    return L
