"""Tables for property C20 (upgrade 1.0 -> 1.1), read by introspection from the kapture tree under test.
Output: coq/Gen/Tupgrade.v (regenerated on every check).  Literal file names that only occur inside the
upgrade functions (the json side files) are not introspectable; they are fixed in the model and tied by the
correspondence run."""
import os
import shutil
import tempfile

import kv


def emit():
    import kapture
    import kapture.io.csv as kcsv
    import kapture.io.features as kfeat
    import kapture.io.records as krec
    from kapture.io.binary import TransferAction
    from kapture.utils.upgrade import CSV_FILENAMES_1_0
    import numpy as np

    def posix(p):
        return p.replace('\\', '/')

    L = []
    L.append('(* kapture.utils.upgrade.CSV_FILENAMES_1_0: the text files whose header line is rewritten *)')
    L.append('Definition csv_1_0 : list string := ' + kv.clist(kv.cstr(posix(p)) for p in CSV_FILENAMES_1_0) + '.')
    L.append('Definition sensors_file : string := ' + kv.cstr(posix(kcsv.CSV_FILENAMES[kapture.Sensors])) + '.')
    L.append('Definition records_camera_file : string := ' + kv.cstr(posix(kcsv.CSV_FILENAMES[kapture.RecordsCamera])) + '.')
    L.append('Definition points3d_file : string := ' + kv.cstr(posix(kcsv.CSV_FILENAMES[kapture.Points3d])) + '.')
    L.append('Definition obs_file : string := ' + kv.cstr(posix(kcsv.CSV_FILENAMES[kapture.Observations])) + '.')
    L.append('(* every text table the 1.1 loader reads, in CSV_FILENAMES order *)')
    L.append('Definition csv_11 : list string := ' +
             kv.clist(kv.cstr(posix(p)) for p in kcsv.CSV_FILENAMES.values()) + '.')
    L.append('(* KAPTURE_FORMAT_1: the version line written by this tree *)')
    L.append('Definition format_11 : string := ' + kv.cstr(kcsv.KAPTURE_FORMAT_1) + '.')
    L.append('Definition version_11 : string := ' + kv.cstr(kcsv.current_format_version()) + '.')

    tmp = tempfile.mkdtemp(prefix='kv-tupgrade-', dir='/var/tmp')
    try:
        kinds = [('kp', kapture.Keypoints, kapture.Keypoints('N', np.float32, 4), kcsv.keypoints_to_file),
                 ('ds', kapture.Descriptors, kapture.Descriptors('N', np.float32, 4, 'K', 'M'), kcsv.descriptors_to_file),
                 ('gf', kapture.GlobalFeatures, kapture.GlobalFeatures('N', np.float32, 4, 'M'), kcsv.global_features_to_file)]
        for tag, cls, sample, writer in kinds:
            d = posix(kfeat.FEATURES_DATA_DIRNAMES[cls])
            full = posix(kcsv.FEATURES_CSV_FILENAMES[cls]('TYPE'))
            descname = os.path.basename(full)
            if full != d + '/TYPE/' + descname:
                raise RuntimeError(f'unexpected 1.1 layout of {cls.__name__}: {full}')
            if posix(kfeat.get_features_fullpath(cls, 'TYPE', '', 'a/b.jpg')) != d + '/TYPE/a/b.jpg' + kfeat.FEATURE_FILE_EXTENSION[cls]:
                raise RuntimeError(f'unexpected 1.1 data file layout of {cls.__name__}')
            fp = os.path.join(tmp, tag, descname)
            writer(fp, sample)
            lines = open(fp).read().split('\n')
            expect_row = {'kp': 'N, float32, 4', 'ds': 'N, float32, 4, K, M', 'gf': 'N, float32, 4, M'}[tag]
            if len(lines) != 4 or lines[0] != kcsv.KAPTURE_FORMAT_1 or lines[2] != expect_row or lines[3] != '':
                raise RuntimeError(f'unexpected descriptor file written for {cls.__name__}: {lines}')
            L.append(f'(* {cls.__name__}: folder, data file extension, descriptor file name, column line written by the 1.1 writer *)')
            L.append(f'Definition {tag}_dir : string := {kv.cstr(d)}.')
            L.append(f'Definition {tag}_ext : string := {kv.cstr(kfeat.FEATURE_FILE_EXTENSION[cls])}.')
            L.append(f'Definition {tag}_descname : string := {kv.cstr(descname)}.')
            L.append(f'Definition {tag}_hdr : string := {kv.cstr(lines[1])}.')
        md = posix(kfeat.FEATURES_DATA_DIRNAMES[kapture.Matches])
        if posix(kfeat.get_matches_fullpath(None, 'TYPE', '')).rstrip('/') != md + '/TYPE':
            raise RuntimeError('unexpected 1.1 layout of Matches')
        sep = kfeat.FEATURE_PAIR_PATH_SEPARATOR[kapture.Matches]
        mext = kfeat.FEATURE_FILE_EXTENSION[kapture.Matches]
        if posix(kfeat.get_matches_fullpath(('a', 'b'), 'TYPE', '')) != f'{md}/TYPE/a{sep}/b{mext}':
            raise RuntimeError('unexpected matches file layout')
        L.append('(* Matches: folder, extension, pair separator *)')
        L.append(f'Definition mt_dir : string := {kv.cstr(md)}.')
        L.append(f'Definition mt_ext : string := {kv.cstr(mext)}.')
        L.append(f'Definition mt_sep : string := {kv.cstr(sep + "/")}.')
        # observations column line
        obs = kapture.Observations()
        obs.add(7, 'K', 'i', 3)
        fp = os.path.join(tmp, 'reconstruction', 'observations.txt')
        kcsv.observations_to_file(fp, obs)
        lines = open(fp).read().split('\n')
        if len(lines) != 4 or lines[0] != kcsv.KAPTURE_FORMAT_1 or lines[2] != '7, K, i, 3' or lines[3] != '':
            raise RuntimeError(f'unexpected observations file: {lines}')
        L.append('Definition obs_hdr : string := ' + kv.cstr(lines[1]) + '.')
    finally:
        shutil.rmtree(tmp, ignore_errors=True)
    L.append('Definition rd_dir : string := ' + kv.cstr(posix(os.path.relpath(krec.get_record_fullpath('/kvroot'), '/kvroot'))) + '.')
    L.append('(* TransferAction members, in definition order *)')
    L.append('Definition transfer_actions : list string := ' + kv.clist(kv.cstr(a.name) for a in TransferAction) + '.')
    return L
