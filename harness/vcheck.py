#!/venv/bin/python
"""Driver:  ./check <Cxx> quick|thorough   |   ./check <Cxx> --replay <file>

Life of one check (DESIGN.md section 3):
  1. regenerate coq/Gen/Tables.v from the current tree of the repository under test
  2. rebuild the Coq development needed by the property (full .vo build) and re-check
     coq/Props/<Cxx>.v, capturing Print Assumptions
  3. correspondence: corpus + generated cases -> run the implementation -> encode
     (input, observed) into shards -> vm_compute inside Coq -> failing indices
  4. oracle: the property itself evaluated directly on the implementation's observations
  5. verdict, evidence, exit status
"""
import fcntl
import glob
import importlib
import json
import os
import re
import shutil
import signal
import subprocess
import sys
import time
import traceback

HERE = os.path.dirname(os.path.abspath(__file__))
sys.path.insert(0, HERE)
import kv  # noqa: E402

sys.path.insert(0, os.path.join(kv.REPO, 'tools'))
sys.path.insert(0, kv.REPO)
os.environ.setdefault('PYTHONHASHSEED', '0')

FORBIDDEN = re.compile(r'\b(Admitted|admit|Axiom|Axioms|Parameter|Parameters|Conjecture|Conjectures)\b'
                       r'|Admit\s+Obligations|Unset\s+Guard|bypass_check|type-in-type|impredicative-set'
                       r'|Unset\s+Universe\s+Checking|Unset\s+Positivity')


def strip_comments(src):
    out, depth, i = [], 0, 0
    while i < len(src):
        if src.startswith('(*', i):
            depth += 1
            i += 2
        elif src.startswith('*)', i) and depth > 0:
            depth -= 1
            i += 2
        else:
            if depth == 0:
                out.append(src[i])
            elif src[i] == '\n':
                out.append('\n')
            i += 1
    return ''.join(out)


def strip_strings(src):
    return re.sub(r'"(?:[^"]|"")*"', '""', src)


def dep_closure(prop_id):
    """Files of the development that Props/<id>.v transitively requires (by module base name)."""
    byname = {}
    for path in glob.glob(os.path.join(kv.COQ, '**', '*.v'), recursive=True):
        byname.setdefault(os.path.basename(path)[:-2], path)
    todo, seen = [os.path.join(kv.COQ, 'Props', prop_id + '.v')], set()
    while todo:
        path = todo.pop()
        if path in seen or not os.path.exists(path):
            continue
        seen.add(path)
        src = strip_comments(open(path).read())
        for m in re.finditer(r'Require\s+(?:Import\s+|Export\s+)?([^.]*(?:\.[A-Za-z_][^.]*)*)\.(?:\s|$)', src):
            for tok in m.group(1).split():
                base = tok.split('.')[-1]
                if base in byname:
                    todo.append(byname[base])
    return sorted(seen)


def lint_coq(prop_id=None):
    """Fail closed on anything that would declare an axiom or switch off a kernel check."""
    problems = []
    files = dep_closure(prop_id) if prop_id else sorted(glob.glob(os.path.join(kv.COQ, '**', '*.v'), recursive=True))
    for path in files:
        src = strip_strings(strip_comments(open(path).read()))
        for m in FORBIDDEN.finditer(src):
            line = src.count('\n', 0, m.start()) + 1
            problems.append(f'{os.path.relpath(path, kv.VERIF)}:{line}: {m.group(0)}')
        # Variable / Hypothesis / Context outside a Section declare axioms
        stack = []
        for ln, line in enumerate(src.split('\n'), 1):
            s = line.strip()
            m = re.match(r'(Section|Module(?:\s+Type)?)\s+(\w+)', s)
            if m and not re.search(r':=', s):
                stack.append((m.group(1), m.group(2)))
            m = re.match(r'End\s+(\w+)\s*\.', s)
            if m and stack:
                stack.pop()
            if re.match(r'(Variable|Variables|Hypothesis|Hypotheses|Context)\b', s):
                if not any(k == 'Section' for k, _ in stack):
                    problems.append(f'{os.path.relpath(path, kv.VERIF)}:{ln}: {s.split()[0]} outside a Section')
    return problems


def regen_tables():
    os.makedirs(os.path.join(kv.COQ, 'Gen'), exist_ok=True)
    rc, out, _ = kv.run([kv.PY, '-B', os.path.join(HERE, 'gen_tables.py'),
                         os.path.join(kv.COQ, 'Gen', 'Tables.v')], 120, env=kv.impl_env())
    return rc == 0, out


def ensure_makefile():
    head = open(os.path.join(kv.COQ, '_CoqProject.head')).read()
    files = []
    for sub in ('Base', 'Gen', 'Model', 'Proofs', 'Props'):
        files += sorted(os.path.relpath(p, kv.COQ) for p in glob.glob(os.path.join(kv.COQ, sub, '*.v')))
    content = head + '\n'.join(files) + '\n'
    proj = os.path.join(kv.COQ, '_CoqProject')
    old = open(proj).read() if os.path.exists(proj) else None
    if old != content or not os.path.exists(os.path.join(kv.COQ, 'Makefile')):
        with open(proj, 'w') as f:
            f.write(content)
        rc, out, _ = kv.run(['coq_makefile', '-f', '_CoqProject', '-o', 'Makefile'], 120, cwd=kv.COQ)
        if rc != 0:
            raise RuntimeError('coq_makefile failed: ' + out)


_LOCK = None


def _status(targets):
    return {t: os.path.exists(os.path.join(kv.COQ, t)) and
            os.path.getmtime(os.path.join(kv.COQ, t)) >= os.path.getmtime(os.path.join(kv.COQ, t[:-1]))
            for t in targets}


def build(targets):
    """Full .vo build of the given targets (and everything they depend on).  A shared lock is held from here
    until the process ends, so that no other check rebuilds a .vo file while this one evaluates its shards and
    re-checks its Props file.  The exclusive lock is taken only when something actually has to be regenerated or
    recompiled (tables changed, a source is newer than its .vo): checks of an unchanged development run concurrently."""
    global _LOCK
    os.makedirs(kv.BUILD, exist_ok=True)
    # turnstile: every check passes through the gate; a check that has to rebuild keeps the gate while it waits
    # for the exclusive lock, so the stream of readers cannot starve it (flock has no writer preference)
    gate = open(os.path.join(kv.BUILD, '.gate'), 'w')
    fcntl.flock(gate, fcntl.LOCK_EX)
    try:
        return _build_gated(targets)
    finally:
        fcntl.flock(gate, fcntl.LOCK_UN)
        gate.close()


def _build_gated(targets):
    global _LOCK
    _LOCK = open(os.path.join(kv.BUILD, '.lock'), 'w')
    fcntl.flock(_LOCK, fcntl.LOCK_SH)
    env = kv.impl_env()
    env['VERIF_TABLES_DRY'] = '1'
    rc_t, out_t, _ = kv.run([kv.PY, '-B', os.path.join(HERE, 'gen_tables.py'),
                             os.path.join(kv.COQ, 'Gen', 'Tables.v')], 120, env=env)
    uptodate = False
    if rc_t == 0 and os.path.exists(os.path.join(kv.COQ, 'Makefile')):
        try:
            ensure_makefile_unchanged = open(os.path.join(kv.COQ, '_CoqProject')).read()
        except OSError:
            ensure_makefile_unchanged = None
        head = open(os.path.join(kv.COQ, '_CoqProject.head')).read()
        files = []
        for sub in ('Base', 'Gen', 'Model', 'Proofs', 'Props'):
            files += sorted(os.path.relpath(p, kv.COQ) for p in glob.glob(os.path.join(kv.COQ, sub, '*.v')))
        if ensure_makefile_unchanged == head + '\n'.join(files) + '\n':
            rc_q, _, _ = kv.run(['make', '-q'] + targets, 300, cwd=kv.COQ)
            uptodate = (rc_q == 0)
    if uptodate:
        return True, out_t, 0, 'up to date', _status(targets)
    fcntl.flock(_LOCK, fcntl.LOCK_UN)
    fcntl.flock(_LOCK, fcntl.LOCK_EX)
    try:
        ok_tables, tables_out = regen_tables()
        ensure_makefile()
        rc, out, _ = kv.run(['make', '-k', f'-j{kv.NPROC}'] + targets, 2400, cwd=kv.COQ)
        status = _status(targets)
    finally:
        fcntl.flock(_LOCK, fcntl.LOCK_SH)
    return ok_tables, tables_out, rc, out, status


def theorem_names(props_file):
    src = strip_comments(open(props_file).read())
    return re.findall(r'^\s*(?:Theorem|Corollary)\s+(\w+)', src, re.M)


def check_props(prop_id):
    """Re-check coq/Props/<id>.v on its own and capture Print Assumptions."""
    pf = os.path.join(kv.COQ, 'Props', prop_id + '.v')
    names = theorem_names(pf)
    os.makedirs(os.path.join(kv.BUILD, 'props'), exist_ok=True)
    tmpo = os.path.join(kv.BUILD, 'props', f'{prop_id}.vo')
    rc, out, wall = kv.run(['coqc', '-Q', kv.COQ, 'KV', '-w', '-all', '-o', tmpo, pf], 900)
    for ext in ('.vo', '.glob', '.vok', '.vos'):
        try:
            os.unlink(tmpo[:-3] + ext)
        except OSError:
            pass
    assumptions = {}
    # Print Assumptions blocks appear in order of the commands in the file
    blocks = re.split(r'\n(?=Closed under the global context|Axioms:)', '\n' + out)
    pa_targets = re.findall(r'Print\s+Assumptions\s+(\w+)', strip_comments(open(pf).read()))
    blocks = [b.strip() for b in blocks if b.strip().startswith(('Closed under', 'Axioms:'))]
    for n, b in zip(pa_targets, blocks):
        assumptions[n] = b
    # on failure, the theorems whose Print Assumptions was reached are those accepted before the error
    discharged = len(names) if rc == 0 else min(len(blocks), len(names))
    return {'names': names, 'ok': rc == 0, 'out': out, 'assumptions': assumptions,
            'discharged': discharged, 'wall': wall, 'cmd': f'coqc -Q coq KV coq/Props/{prop_id}.v'}


class CaseTimeout(Exception):
    pass


def _alarm(signum, frame):
    raise CaseTimeout()


def run_case(mod, case, ctx):
    signal.signal(signal.SIGALRM, _alarm)
    signal.alarm(getattr(mod, 'CASE_TIMEOUT', 60))
    try:
        return mod.run_impl(case, ctx)
    except CaseTimeout:
        return {'harness_error': 'timeout'}
    except Exception as e:  # the module should catch implementation exceptions itself
        return {'harness_error': f'{type(e).__name__}: {e}', 'tb': traceback.format_exc()[-1500:]}
    finally:
        signal.alarm(0)


def load_known(prop_id):
    known = []
    p = os.path.join(kv.VERIF, 'known_findings.txt')
    if os.path.exists(p):
        for line in open(p):
            line = line.strip()
            m = re.match(r'known:\s+property=(\S+)\s+sig=(.*)$', line)
            if m and m.group(1) == prop_id:
                known.append(m.group(2).strip())
    return known


def write_replay(prop_id, payload):
    d = os.path.join(kv.VERIF, 'replays')
    os.makedirs(d, exist_ok=True)
    path = os.path.join(d, f'{prop_id}-{kv.case_hash(payload)}.json')
    with open(path, 'w') as f:
        json.dump(payload, f, indent=1, default=str)
    return path


def validate_evidence(path):
    code = ('import json,jsonschema,sys;'
            'jsonschema.validate(json.load(open(sys.argv[1])), json.load(open(sys.argv[2])))')
    schema = '/root/.vp/EVIDENCE.schema.json'
    if not (shutil.which('python3-vt') and os.path.exists(schema)):
        return True, 'schema validator not available'
    rc, out, _ = kv.run(['python3-vt', '-c', code, path, schema], 60)
    return rc == 0, out[-800:]


def setup():
    lint = lint_coq()
    for l in lint:
        print('LINT: ' + l)
    os.makedirs(kv.BUILD, exist_ok=True)
    with open(os.path.join(kv.BUILD, '.lock'), 'w') as lock:
        fcntl.flock(lock, fcntl.LOCK_EX)
        ok, out = regen_tables()
        if not ok:
            print('gen_tables failed:\n' + out)
            return 1
        ensure_makefile()
        rc, out, wall = kv.run(['make', '-k', f'-j{kv.NPROC}'], 3000, cwd=kv.COQ)
        print(out[-3000:])
        print(f'setup: make exit {rc} in {wall:.0f}s')
        base_ok = all(os.path.exists(p + 'o') for p in glob.glob(os.path.join(kv.COQ, 'Base', '*.v')))
        # a file of one property that does not build must not take the others down: each check
        # re-builds and judges its own dependency closure
        return 0 if base_ok else 1


def main():
    if len(sys.argv) >= 2 and sys.argv[1] == '--setup':
        return setup()
    if len(sys.argv) < 3:
        print(__doc__)
        return 2
    prop_id = sys.argv[1]
    mod = importlib.import_module('props.' + prop_id.lower())
    if sys.argv[2] == '--replay':
        return replay(mod, prop_id, sys.argv[3])
    tier = sys.argv[2]
    assert tier in ('quick', 'thorough')
    seed = int(os.environ.get('VERIF_SEED', '0'))
    t0 = time.time()
    ctx = {'repo': kv.REPO, 'tier': tier, 'seed': seed,
           'tmp': os.path.join(kv.BUILD, 'tmp', f'{prop_id}-{os.getpid()}')}
    shutil.rmtree(ctx['tmp'], ignore_errors=True)
    os.makedirs(ctx['tmp'], exist_ok=True)
    notes = []
    broken = []       # names of theorems / correspondence relations that no longer check

    # -- 1+2. tables, build, property theorems
    lint = lint_coq(prop_id)
    if lint:
        broken.append('lint: ' + '; '.join(lint[:5]))
    model_vo = [f'Model/{m}.vo' for m in mod.COQ_MODELS]
    ok_tables, tables_out, rc, out, status = build([f'Props/{prop_id}.vo'] + model_vo)
    if not ok_tables:
        broken.append('Gen/Tables.v translator failed: ' + tables_out[-400:])
    props = check_props(prop_id)
    if not props['ok'] or not status.get(f'Props/{prop_id}.vo'):
        tail = (props['out'] if not props['ok'] else out)[-1200:]
        broken.append(f'proof obligations of Props/{prop_id}.v no longer check: ' + tail)
    models_ok = all(status.get(m) for m in model_vo)
    coqchk_summary = None
    if tier == 'thorough' and props['ok'] and os.environ.get('VERIF_NO_COQCHK') != '1':
        rc2, out2, wall2 = kv.run(['coqchk', '-silent', '-o', '-Q', kv.COQ, 'KV', f'KV.Props.{prop_id}'], 1800)
        m2 = re.search(r'CONTEXT SUMMARY.*', out2, re.S)
        coqchk_summary = ' '.join((m2.group(0) if m2 else out2[-600:]).split())
        if rc2 != 0:
            broken.append('coqchk rejects the compiled development: ' + out2[-600:])
        notes.append(f'coqchk -o KV.Props.{prop_id}: exit {rc2} in {wall2:.0f}s')

    # -- 3. cases: corpus first, then generated
    cases = []
    for p in sorted(glob.glob(os.path.join(kv.VERIF, 'corpus', prop_id, '*.json'))):
        c = json.load(open(p))
        c['_origin'] = 'corpus/' + os.path.basename(p)
        cases.append(c)
    n_corpus = len(cases)
    rng = kv.make_rng(prop_id, seed)
    for c in mod.gen_cases(rng, tier):
        c.setdefault('_origin', 'gen')
        cases.append(c)
    observed = [run_case(mod, c, ctx) for c in cases]
    harness_errors = [(i, o) for i, o in enumerate(observed) if isinstance(o, dict) and 'harness_error' in o]

    # -- 4. oracle on every case
    known = load_known(prop_id)
    failures = []     # (index, signature)
    for i, (c, o) in enumerate(zip(cases, observed)):
        if isinstance(o, dict) and 'harness_error' in o:
            failures.append((i, 'implementation run did not complete: ' + o['harness_error']))
            continue
        try:
            sig = mod.oracle(c, o)
        except Exception as e:
            sig = f'oracle crashed: {type(e).__name__}: {e}'
        if sig:
            failures.append((i, sig))

    # -- 3b. correspondence inside Coq
    mism, shard_errors, n_encoded = [], [], 0
    if models_ok:
        terms, index_map = [], []
        for i, (c, o) in enumerate(zip(cases, observed)):
            if isinstance(o, dict) and 'harness_error' in o:
                continue
            try:
                terms.append(mod.encode(c, o))
                index_map.append(i)
            except Exception as e:
                shard_errors.append(f'encode failed on case {i}: {type(e).__name__}: {e}')
        n_encoded = len(terms)
        if terms:
            bad, errs = kv.run_shards(prop_id, mod.COQ_HEADER, mod.CASE_TYPE, mod.CHECK_FN, terms,
                                      shard_size=getattr(mod, 'SHARD_SIZE', 250))
            mism = [index_map[b] for b in bad]
            shard_errors += errs
        if shard_errors:
            broken.append('correspondence shards did not evaluate: ' + ' | '.join(shard_errors)[:1500])
        if mism:
            broken.append(f'correspondence {mod.CHECK_FN}: model and implementation disagree on '
                          f'{len(mism)} of {n_encoded} cases (first indices {mism[:8]})')
    else:
        broken.append('model does not compile: ' + out[-1200:])

    # -- 5. verdict
    lines, violations = [], 0
    new_failures = []
    for i, sig in failures:
        if any(k and (k in sig) for k in known):
            lines.append(f'KNOWN-FINDING: property={prop_id} {sig}')
        else:
            new_failures.append((i, sig))
    lines = sorted(set(lines))
    replay_path = None
    if new_failures:
        i, sig = new_failures[0]
        case = cases[i]
        if hasattr(mod, 'shrink'):
            try:
                case = shrink(mod, case, ctx, sig)
            except Exception as e:
                notes.append(f'shrink failed: {e}')
        obs = run_case(mod, case, ctx)
        replay_path = write_replay(prop_id, {'property': prop_id, 'kind': 'failing-input', 'what_fails': sig,
                                             'case': case, 'observed': obs, 'seed': seed, 'tier': tier,
                                             'other_failures': [s for _, s in new_failures[1:6]]})
        lines.append(f'VIOLATION property={prop_id} replay={replay_path}')
        violations = len(new_failures)
    elif broken:
        # the tie or a proof broke but the property's oracle passes everywhere we looked: search further
        extra_fail = None
        if hasattr(mod, 'gen_cases'):
            rng2 = kv.make_rng(prop_id, seed, 'search')
            extra = mod.gen_cases(rng2, 'thorough' if tier == 'quick' else tier)[:getattr(mod, 'SEARCH_CAP', 3000)]
            for c in extra:
                o = run_case(mod, c, ctx)
                if isinstance(o, dict) and 'harness_error' in o:
                    continue
                try:
                    sig = mod.oracle(c, o)
                except Exception:
                    sig = None
                if sig and not any(k in sig for k in known):
                    extra_fail = (c, o, sig)
                    break
        if extra_fail:
            c, o, sig = extra_fail
            replay_path = write_replay(prop_id, {'property': prop_id, 'kind': 'failing-input', 'what_fails': sig,
                                                 'case': c, 'observed': o, 'seed': seed, 'tier': tier,
                                                 'broken': broken})
            lines.append(f'VIOLATION property={prop_id} replay={replay_path}')
        else:
            first = None
            if mism:
                j = mism[0]
                first = {'case': cases[j], 'implementation_observed': observed[j],
                         'note': 'the Coq model computes a different observation for this input; '
                                 'evaluate %s on the encoded case to see the model side' % mod.CHECK_FN,
                         'encoded': mod.encode(cases[j], observed[j])[:4000]}
            replay_path = write_replay(prop_id, {'property': prop_id, 'kind': 'no-failing-input-found',
                                                 'no_longer_checks': broken, 'first_mismatch': first,
                                                 'seed': seed, 'tier': tier})
            lines.append(f'VIOLATION property={prop_id} replay={replay_path} no-failing-input-found')
        violations = 1

    # -- evidence
    nontriv = set()
    dist = {}
    for c, o in zip(cases, observed):
        if isinstance(o, dict) and 'harness_error' in o:
            continue
        try:
            cls = mod.classify(c, o)
        except Exception:
            cls = 'unclassified'
        dist[cls] = dist.get(cls, 0) + 1
        try:
            if mod.nontrivial(c, o):
                nontriv.add(kv.case_hash({k: v for k, v in c.items() if not k.startswith('_')}))
        except Exception:
            pass
    samples = []
    for c, o in list(zip(cases, observed))[n_corpus:n_corpus + 3] + list(zip(cases, observed))[-2:]:
        try:
            samples.append(mod.describe(c, o))
        except Exception:
            samples.append({'case': c})
    trusted = ['Coq 8.16.1 kernel; vm_compute for the correspondence shards; no native_compute',
               'harness (Python): case generators, canonicalisers and Coq encoders in harness/props/%s.py' % prop_id.lower(),
               'harness/gen_tables.py (introspection translator for coq/Gen/Tables.v)']
    trusted += list(getattr(mod, 'TRUSTED', []))
    for n, b in props['assumptions'].items():
        trusted.append(f'Print Assumptions {n}: ' + ' '.join(b.split()))
    if coqchk_summary:
        trusted.append('coqchk -o (independent re-check of the .vo closure): ' + coqchk_summary)
    evidence = {
        'property_id': prop_id, 'tier': tier, 'seed': seed, 'level': 'proof',
        'coverage': {
            'obligations': len(props['names']), 'discharged': props['discharged'],
            'checker_cmd': props['cmd'] + '  (after: make -C coq Props/%s.vo; full .vo build, coqc %.1fs)' % (prop_id, props['wall']),
            'trusted_base': trusted,
            'theorems': props['names'],
            'evaluations': len(cases), 'distinct_nontrivial': len(nontriv),
            'rule': mod.RULE, 'samples': samples, 'distribution': dist,
            'corpus_cases': n_corpus,
            'correspondence': {'relation': mod.CHECK_FN, 'cases_encoded': n_encoded, 'mismatches': len(mism),
                               'evaluated_by': 'Eval vm_compute in (Run.mismatches ...) inside coqc, one shard per %d cases'
                                               % getattr(mod, 'SHARD_SIZE', 250)},
            'oracle_failures': len(failures), 'known_findings_matched': len(failures) - len(new_failures),
            'harness_errors': len(harness_errors),
            'exhaustive': bool(getattr(mod, 'EXHAUSTIVE', {}).get(tier, False)),
            'broken': broken, 'notes': notes + list(getattr(mod, 'NOTES', [])),
        },
        'assumptions': list(getattr(mod, 'ASSUMPTIONS', [])),
        'wall_s': round(time.time() - t0, 2),
        'violations': violations,
    }
    if evidence['coverage']['discharged'] == 0:
        # schema: a proof-level file with its own keys needs discharged >= 1; fall back to the generic counts
        evidence['coverage']['discharged_count'] = evidence['coverage'].pop('discharged')
    # evidence/ holds what was observed on the repository itself; runs against another tree (self-test
    # mutants, seeded changes: VERIF_REPO) write theirs under build/ so that they never replace it
    edir = os.path.join(kv.VERIF, 'evidence') if os.path.realpath(kv.REPO) == '/repo' \
        else os.path.join(kv.BUILD, 'evidence-other-tree')
    os.makedirs(edir, exist_ok=True)
    epath = os.path.join(edir, prop_id + '.json')
    with open(epath, 'w') as f:
        json.dump(evidence, f, indent=1, default=str)
    ok, msg = validate_evidence(epath)
    if not ok:
        print('evidence file does not validate: ' + msg)
    shutil.rmtree(ctx['tmp'], ignore_errors=True)
    for ln in lines:
        print(ln)
    print(f'{prop_id} {tier}: theorems {props["discharged"]}/{len(props["names"])}, cases {len(cases)} '
          f'(corpus {n_corpus}), mismatches {len(mism)}, oracle failures {len(failures)} '
          f'(known {len(failures) - len(new_failures)}), wall {evidence["wall_s"]}s')
    if broken and not violations:
        violations = 1
    return 1 if violations else 0


def shrink(mod, case, ctx, sig):
    """Greedy: repeatedly take the first smaller variant on which the oracle still fails."""
    budget = 150
    cur = case
    progress = True
    while progress and budget > 0:
        progress = False
        for cand in mod.shrink(cur):
            budget -= 1
            if budget <= 0:
                break
            o = run_case(mod, cand, ctx)
            if isinstance(o, dict) and 'harness_error' in o:
                continue
            try:
                s = mod.oracle(cand, o)
            except Exception:
                s = None
            if s:
                cur = cand
                progress = True
                break
    return cur


def replay(mod, prop_id, path):
    payload = json.load(open(path))
    if payload.get('kind') == 'no-failing-input-found':
        print(f'{prop_id}: this replay names what no longer checks rather than a failing input:')
        for b in payload.get('no_longer_checks', []):
            print('  - ' + b[:600])
        case = (payload.get('first_mismatch') or {}).get('case')
        if case is None:
            return 1
    else:
        case = payload['case']
    ctx = {'repo': kv.REPO, 'tier': 'quick', 'seed': 0, 'tmp': os.path.join(kv.BUILD, 'tmp', f'{prop_id}-replay-{os.getpid()}')}
    shutil.rmtree(ctx['tmp'], ignore_errors=True)
    os.makedirs(ctx['tmp'], exist_ok=True)
    obs = run_case(mod, case, ctx)
    sig = mod.oracle(case, obs) if not (isinstance(obs, dict) and 'harness_error' in obs) else obs['harness_error']
    print(json.dumps({'case': case, 'observed': obs}, indent=1, default=str)[:6000])
    shutil.rmtree(ctx['tmp'], ignore_errors=True)
    if sig:
        print(f'{prop_id}: property FAILS on this input: {sig}')
        return 1
    print(f'{prop_id}: property holds on this input')
    return 0


if __name__ == '__main__':
    sys.exit(main())
