#!/usr/bin/env python3
"""Confirms a seeded change produced by a seeding sub-agent, in a scratch clone of /repo (never /repo itself):
   1. patch applies to a clean checkout of /repo HEAD
   2. the existing suite still passes with the change (181 passed expected)
   3. demo.py exits non-zero with the change
   4. demo.py exits 0 without the change
and, if all hold, stores it as /verif/seeded/<name>/{patch.diff, demo.py, meta.json}.

usage: confirm_seed.py <dir with patch.diff demo.py meta.json> <name, e.g. C12-flush-skipped>"""
import json
import os
import re
import shutil
import subprocess
import sys

VERIF = os.path.dirname(os.path.dirname(os.path.abspath(__file__)))
SCRATCH = '/var/tmp/kv-confirm-' + (sys.argv[2] if len(sys.argv) > 2 else 'x')


def sh(cmd, cwd, env=None, timeout=1800):
    p = subprocess.run(cmd, cwd=cwd, env=env, shell=True, capture_output=True, text=True, timeout=timeout)
    return p.returncode, (p.stdout + p.stderr)


def main():
    src, name = sys.argv[1], sys.argv[2]
    meta = json.load(open(os.path.join(src, 'meta.json')))
    shutil.rmtree(SCRATCH, ignore_errors=True)
    subprocess.run(['git', 'clone', '-q', '--no-hardlinks', '/repo', SCRATCH], check=True)
    head = subprocess.run(['git', 'rev-parse', '--short', 'HEAD'], cwd=SCRATCH, capture_output=True, text=True).stdout.strip()
    env = dict(os.environ, PYTHONPATH=f'{SCRATCH}:{SCRATCH}/tools', PYTHONHASHSEED='0', PYTHONDONTWRITEBYTECODE='1')
    ran = []
    # run the demo from <clone>/seed_out/c/ so that demos locating the tree relative to themselves see the clone
    demo_dir = os.path.join(SCRATCH, 'seed_out', 'c')
    os.makedirs(demo_dir)
    shutil.copy(os.path.join(src, 'demo.py'), demo_dir)
    demo = os.path.join(demo_dir, 'demo.py')
    rc, out = sh('/venv/bin/python ' + demo, SCRATCH, env)
    ran.append({'cmd': 'demo.py on clean checkout ' + head, 'exit': rc, 'tail': out[-300:]})
    ok = rc == 0
    rc, out = sh('git apply --whitespace=nowarn ' + os.path.abspath(os.path.join(src, 'patch.diff')), SCRATCH)
    ran.append({'cmd': 'git apply patch.diff', 'exit': rc, 'tail': out[-300:]})
    ok = ok and rc == 0
    if rc == 0:
        rc, out = sh('/venv/bin/python -m pytest -q -p no:cacheprovider --timeout=900 2>&1 | tail -3', SCRATCH, env)
        m = re.search(r'(\d+) passed', out)
        passed = int(m.group(1)) if m else 0
        failed = re.search(r'(\d+) failed', out)
        ran.append({'cmd': 'pytest (with change)', 'passed': passed, 'failed': int(failed.group(1)) if failed else 0, 'tail': out[-200:]})
        ok = ok and passed == 181 and not failed
        rc, out = sh('/venv/bin/python ' + demo, SCRATCH, env)
        ran.append({'cmd': 'demo.py with change', 'exit': rc, 'tail': out[-600:]})
        ok = ok and rc != 0
    shutil.rmtree(SCRATCH, ignore_errors=True)
    print(json.dumps(ran, indent=1))
    if not ok:
        print('NOT CONFIRMED:', name)
        return 1
    dst = os.path.join(VERIF, 'seeded', name)
    os.makedirs(dst, exist_ok=True)
    shutil.copy(os.path.join(src, 'patch.diff'), dst)
    shutil.copy(os.path.join(src, 'demo.py'), dst)
    out_meta = {'property': meta.get('property'), 'title': meta.get('title'),
                'what_it_needs_to_manifest': meta.get('what_it_needs_to_manifest'),
                'why_tests_still_pass': meta.get('why_tests_still_pass'),
                'files_changed': meta.get('files_changed'),
                'author': 'fresh sub-agent given only the property text and a scratch worktree',
                'base_commit': head, 'confirmed_by_orchestrator': ran}
    json.dump(out_meta, open(os.path.join(dst, 'meta.json'), 'w'), indent=1)
    print('CONFIRMED ->', dst)
    return 0


if __name__ == '__main__':
    sys.exit(main())
