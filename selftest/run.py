#!/usr/bin/env python3
"""Self-validation of the checks: applies each patch to a scratch copy of /repo (never /repo itself),
runs the relevant quick check with VERIF_REPO pointing at the copy and records the verdict.

  selftest/run.py [Cxx ...]            all mutants / harmless patches / seeded changes (of the given properties)

  mutants/Cxx-*.patch   must give exit 1 and a VIOLATION line
  harmless/Cxx-*.patch  must give exit 0
  ../seeded/<name>/patch.diff + meta.json {"property": "Cxx"}   must give exit 1 and a VIOLATION line
Results are appended to selftest/RESULTS.md."""
import glob
import json
import os
import re
import shutil
import subprocess
import sys
import time

HERE = os.path.dirname(os.path.abspath(__file__))
VERIF = os.path.dirname(HERE)
SCRATCH = '/var/tmp/kv-selftest-' + ('-'.join(sorted(sys.argv[1:])) or 'all')


def run_one(prop, patch, expect_violation):
    shutil.rmtree(SCRATCH, ignore_errors=True)
    subprocess.run(['git', 'clone', '-q', '--no-hardlinks', '/repo', SCRATCH], check=True)
    # untracked sample data the tests/harness may need is part of the clone (tracked); apply the patch
    p = subprocess.run(['git', 'apply', '--whitespace=nowarn', patch], cwd=SCRATCH, capture_output=True, text=True)
    if p.returncode != 0:
        # context drifted because of later fix commits: retry with fuzz (hand-written mutants only)
        p2 = subprocess.run('patch -p1 -F3 -s --no-backup-if-mismatch < ' + patch, cwd=SCRATCH, shell=True,
                            capture_output=True, text=True)
        if p2.returncode != 0 or '/seeded/' in patch:
            shutil.rmtree(SCRATCH, ignore_errors=True)
            return 'PATCH-DOES-NOT-APPLY', p.stderr.strip()[:300], 0
    env = dict(os.environ, VERIF_REPO=SCRATCH)
    t0 = time.time()
    q = subprocess.run(['./check', prop, 'quick'], cwd=VERIF, env=env, capture_output=True, text=True)
    wall = time.time() - t0
    shutil.rmtree(SCRATCH, ignore_errors=True)
    viol = [ln for ln in q.stdout.splitlines() if ln.startswith('VIOLATION')]
    if expect_violation:
        ok = q.returncode == 1 and viol
        verdict = ('CAUGHT' + (' (no-failing-input-found)' if viol and viol[0].endswith('no-failing-input-found') else '')) if ok else 'MISSED'
    else:
        verdict = 'QUIET' if (q.returncode == 0 and not viol) else 'FALSE-ALARM'
    detail = (viol[0] if viol else q.stdout.strip().splitlines()[-1] if q.stdout.strip() else q.stderr[-200:])
    if viol:
        m = re.search(r'replay=(\S+)', viol[0])
        if m and os.path.exists(m.group(1)):
            try:
                detail += ' :: ' + str(json.load(open(m.group(1))).get('what_fails', ''))[:160]
            except Exception:
                pass
    return verdict, detail, wall


def main():
    match = os.environ.get('SELFTEST_MATCH', '')     # run only the patches whose path contains one of these (comma separated)
    only = set(sys.argv[1:])
    jobs = []
    for p in sorted(glob.glob(os.path.join(HERE, 'mutants', '*.patch'))):
        jobs.append((os.path.basename(p).split('-')[0], p, True))
    for p in sorted(glob.glob(os.path.join(HERE, 'harmless', '*.patch'))):
        jobs.append((os.path.basename(p).split('-')[0], p, False))
    for d in sorted(glob.glob(os.path.join(VERIF, 'seeded', '*'))):
        meta, patch = os.path.join(d, 'meta.json'), os.path.join(d, 'patch.diff')
        if os.path.exists(meta) and os.path.exists(patch):
            jobs.append((json.load(open(meta))['property'], patch, True))
    rows = []
    for prop, patch, expect in jobs:
        if only and prop not in only:
            continue
        if match and not any(m in patch for m in match.split(',')):
            continue
        if not os.path.exists(os.path.join(VERIF, 'harness', 'props', prop.lower() + '.py')):
            continue
        verdict, detail, wall = run_one(prop, patch, expect)
        rows.append((prop, os.path.relpath(patch, VERIF), verdict, f'{wall:.0f}s', detail))
        print(' | '.join(rows[-1]), flush=True)
    with open(os.path.join(HERE, 'RESULTS.md'), 'a') as f:
        f.write(f'\n## run {time.strftime("%Y-%m-%d %H:%M:%S")} {" ".join(sorted(only)) or "all"}\n\n')
        f.write('| property | patch | verdict | wall | detail |\n|---|---|---|---|---|\n')
        for r in rows:
            f.write('| ' + ' | '.join(x.replace('|', '/') for x in r) + ' |\n')
    bad = [r for r in rows if r[2] in ('MISSED', 'FALSE-ALARM', 'PATCH-DOES-NOT-APPLY')]
    return 1 if bad else 0


if __name__ == '__main__':
    sys.exit(main())
