#!/bin/bash
# Builds the whole Coq development from files on disk (full .vo build, no -vos), offline.
set -e
cd "$(dirname "$0")"
export PYTHONHASHSEED=0 PYTHONDONTWRITEBYTECODE=1
export PYTHONPATH="${VERIF_REPO:-/repo}:${VERIF_REPO:-/repo}/tools"
mkdir -p build evidence replays
/venv/bin/python -B harness/vcheck.py --setup
